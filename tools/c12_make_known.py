#!/venv/bin/python
"""(Re)generate known/C12.json and replays/C12/known-*.json from small hand-written cases; an entry is only written
when the case really yields its signature on the current tree. Run: /venv/bin/python /verif/tools/c12_make_known.py"""
import json
import os
import sys

sys.path.insert(0, "/verif")
sys.path.insert(0, os.environ.get("VERIF_REPO", "/repo"))
from vf import runner  # noqa: E402

runner.init()
from vf.props import c12  # noqa: E402

CANDIDATES = [
    ("ts|srp.violation|not-the-header-line|reported-decorator-or-attribute",
     "TypeScript SRP reports a decorated class at the line of its first decorator (tree-sitter's class_declaration node starts at the "
     "decorator; typescript_analyzer uses class_node.start_point) instead of the `class` header line, and the quoted class name is not on "
     "that line; Python reports the `class` line. Minimal input: `@sealed` newline `class Widget { 8 methods }` -> line 1 instead of 2",
     {"kind": "single", "lang": "ts", "units": [{"fam": "srp", "var": 0, "form": "seed", "wrap": "top", "deco": 1, "multisig": False, "modifier": False, "arrow": False}],
      "header": False, "gap": 1, "final_nl": True, "cmds": ["srp"]}),
]


def main():
    findings, missing = [], []
    os.makedirs("/verif/replays/C12", exist_ok=True)
    for sig, what, case in CANDIDATES:
        res = c12.check(case)
        hit = [f for f in res.failures if f.sig == sig]
        if not hit:
            missing.append(sig)
            continue
        rel = "replays/C12/known-" + sig.replace("|", "-").replace(".", "_") + ".json"
        with open(os.path.join("/verif", rel), "w") as fh:
            json.dump({"property": "C12", "signature": sig, "detail": hit[0].detail, "case": case}, fh, indent=1, default=str)
        findings.append({"property": "C12", "signature": sig, "what": what, "replay": rel})
    with open("/verif/known/C12.json", "w") as fh:
        json.dump({"findings": findings}, fh, indent=1)
    print(f"{len(findings)} known findings written; not reproducible now: {missing}")


if __name__ == "__main__":
    main()
