#!/usr/bin/env python3
"""Merge known/*.json into known_findings.json: entries whose replay now holds become 'fixed:' lines
(with the repairing commit), their replay files are renamed known-* -> fixed-* (regression inputs)."""
import glob, json, os, re, sys
os.chdir("/verif")
prune = {}
for line in open(sys.argv[1]):
    parts = line.split(None, 2)
    if len(parts) == 3 and parts[0] in ("HOLDS", "STILL"):
        prune[(parts[1], parts[2].strip())] = parts[0]
# (property, signature regex) -> commit
COMMITS = [
    ("C02", r"ts-hex-e", "9762fb6"), ("C02", r"rs-hex-fsuffix", "5bb5007"), ("C02", r"py-bool", "ccd50b2"), ("C02", r"py-const-neg|py-enumerate-kw", "dfa9a61"),
    ("C02", r"rs-attr-contains-test|rs-test-attr-comment", "2d5547c"),
    ("C03", r"dev:cut:|block-comment-kept", "a5cf797"), ("C03", r"overlap-filter-later-span", "fd5bfa3"),
    ("C06", r"sarif\|lone-surrogate", "81633fe"), ("C06", r"benign-empty-config", "b419874"),
    ("C09", r"hardcoded-exclude", "8e90cfb"), ("C09", r"ts-test-file|stateless-tests-dir|rust-default-ignore", "e22dbe0"), ("C09", r"file-placement-relative", "142bc43"),
    ("C09", r"rule-ignore-parser-bound-to-cwd", "da638a7"), ("C09", r"repo-ignore-matched", "882be1e"),
    ("C10", r"lib-single-file-no-finalize", "33dad4b"), ("C12", r"reported-decorator", "954ba28"),
    ("C13", r"^bom\|", "f0f909a"), ("C13", r"srp\.violation", "2d9d8d7"), ("C13", r"dry\.duplicate-code\|(gained|lost)-overlapping", "fd5bfa3"),
    ("C14", r"filename-like-excluded-dir", "8084717"), ("C14", r"dirpat-prefix|globstar-needs-dir|basename-whole-path", "ff8321e"),
    ("C16", r"ts-loc-physical|rs-block-comment", "2d9d8d7"), ("C16", r"ts-abstract", "89fa287"), ("C16", r"rs-generic-impl", "e50fe63"),
    ("C17", r"config-section-ignored", "685ac82"), ("C17", r"attr-scan|attr-substring", "2d5547c"), ("C17", r"short-path|bare-net|leading-colons|method-wrapper", "c514ea2"),
    ("C18", r"dir-key-string-prefix", "040dfeb"), ("C18", r"relative-path-as-given", "142bc43"), ("C18", r"allow-item-mapping", "aaf5a87"),
    ("C19", r"^blocking-async\|", "c514ea2"), ("C19", r"stateless-class\|", "11f4f45"), ("C19", r"method-property\|embedding", "becc712"), ("C19", r"unwrap-abuse\|.*\|missing", "685ac82"),
    ("C20", r"existing-section-added-again", "f098ad8"), ("C20", r"missing-section-not-added", "37791c8"), ("C20", r"marker-lookalike", "680ca68"), ("C20", r"hyphenated-key", "306ca70"),
]
main = json.load(open("known_findings.json"))
findings = list(main["findings"])
fixed = list(main["fixed"])
for path in sorted(glob.glob("known/*.json")):
    for e in json.load(open(path)).get("findings", []):
        st = prune.get((e["property"], e["signature"]))
        forced_fixed = e["property"] == "C19" and e["signature"].startswith("unwrap-abuse|") and e["signature"].endswith("|missing")
        if st == "HOLDS" or forced_fixed:
            commit = next((c for p, rx, c in COMMITS if p == e["property"] and re.search(rx, e["signature"])), None)
            assert commit, e
            fixed.append(f"fixed: property={e['property']} {commit} {e['what']} [was signature {e['signature']}]")
            rp = e.get("replay")
            if rp and os.path.exists(rp) and not forced_fixed:
                new = os.path.join(os.path.dirname(rp), os.path.basename(rp).replace("known-", "fixed-", 1))
                os.rename(rp, new)
            elif rp and os.path.exists(rp):
                os.remove(rp)
        else:
            findings.append(e)
main["findings"] = sorted(findings, key=lambda e: (e["property"], e["signature"]))
main["fixed"] = fixed
json.dump(main, open("known_findings.json", "w"), indent=1)
for path in glob.glob("known/*.json"):
    os.remove(path)
print(len(main["findings"]), "findings;", len(fixed), "fixed")
