#!/usr/bin/env python3
"""Replay every known finding; report those that no longer reproduce (candidates for the 'fixed' list)."""
import glob, json, os, subprocess, sys
os.chdir("/verif")
only = sys.argv[1:]
docs = ["known_findings.json"] + sorted(glob.glob("known/*.json"))
for path in docs:
    doc = json.load(open(path))
    for e in doc.get("findings", []):
        if only and e["property"] not in only:
            continue
        rp = e.get("replay")
        if not rp or not os.path.exists(rp):
            print(f"NO-REPLAY {e['property']} {e['signature']} ({rp})")
            continue
        r = subprocess.run(["./check", e["property"], "--replay", rp], capture_output=True, text=True, timeout=900)
        hit = f"[signature {e['signature']}" in r.stdout
        state = "STILL" if hit else ("HOLDS" if "property holds" in r.stdout else f"OTHER(exit {r.returncode})")
        print(f"{state:6} {e['property']} {e['signature']}")
        if state.startswith("OTHER"):
            print("      ", r.stdout.strip().replace("\n", " | ")[:300])
