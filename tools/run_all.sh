#!/bin/bash
# Run every registered check once (quick tier unless $1 = thorough) at VERIF_SEED (default 1); one summary line each.
# usage: tools/run_all.sh [quick|thorough] [IDs...]     exit 0 iff every check exited 0
cd "$(dirname "$0")/.."
tier=${1:-quick}; shift
ids=${@:-$(cat tools/ready.txt)}
rc=0
for c in $ids; do
  out=$(./check $c --tier $tier 2>&1); r=$?
  echo "$out" | grep -E "^(VIOLATION|HARNESS-ERROR|NOTE|  signature)" | cut -c1-300
  echo "$out" | tail -1 | sed "s/^/[exit $r] /"
  [ $r -ne 0 ] && rc=1
done
exit $rc
