#!/usr/bin/env python3
"""Sensitivity experiment: revert ONE repaired defect in a scratch worktree and run the property's check against it,
with the regression replays switched off (VERIF_NO_REGRESSION=1), so only the generated search can catch it.
usage: tools/revert_fix.py <commit> <CHECK> [<CHECK>...]     -> appends one JSON line to notes/revert_fix.jsonl
The worktree lives under /tmp and is removed afterwards; nothing is written to evidence/ or replays/."""
import json, os, shutil, subprocess, sys, tempfile, time

commit, checks = sys.argv[1], sys.argv[2:]
wt = tempfile.mkdtemp(prefix="wt-rev-", dir="/tmp")
os.rmdir(wt)
subprocess.run(["git", "-C", "/repo", "worktree", "add", "-q", "--detach", wt], check=True)
rec = {"commit": commit, "subject": subprocess.run(["git", "-C", "/repo", "log", "-1", "--format=%s", commit], capture_output=True, text=True).stdout.strip()}
try:
    r = subprocess.run(["git", "-C", wt, "revert", "--no-commit", commit], capture_output=True, text=True)
    if r.returncode:
        rec["revert"] = "conflict"
    else:
        rec["revert"] = "clean"
        imp = subprocess.run(["/venv/bin/python", "-c", "import src"], cwd=wt, env=dict(os.environ, PYTHONPATH=wt), capture_output=True, text=True)
        if imp.returncode:
            rec["revert"] = "unusable: the reverted tree no longer imports (later commits build on it)"
            checks = []
        for c in checks:
            t0 = time.time()
            env = dict(os.environ, VERIF_REPO=wt, VERIF_NO_EVIDENCE="1", VERIF_NO_REGRESSION="1")
            k = subprocess.run(["./check", c], cwd="/verif", env=env, capture_output=True, text=True)
            sigs = [l.strip().replace("signature: ", "") for l in k.stdout.splitlines() if "signature:" in l]
            rec[c] = {"exit": k.returncode, "caught": k.returncode == 1, "signatures": sigs[:4], "wall_s": round(time.time() - t0)}
finally:
    subprocess.run(["git", "-C", "/repo", "worktree", "remove", "--force", wt], capture_output=True)
    shutil.rmtree(wt, ignore_errors=True)
with open("/verif/notes/revert_fix.jsonl", "a") as fh:
    fh.write(json.dumps(rec) + "\n")
print(json.dumps(rec))
