#!/usr/bin/env python3
"""Hand-written sensitivity mutants for the checks that have no builder notes (C01, C04, C05, C07).
Each mutant is (check, file, old, new, nth occurrence); it is applied to a scratch worktree of /repo under /tmp, the
check runs against it with regression replays off, and one JSON line is appended to notes/lead_mutants.jsonl.
usage: tools/lead_mutants.py [name ...]"""
import json, os, shutil, subprocess, sys, tempfile, time

M = {
    "C01-ts-threshold-off-by-one": ("C01", "src/linters/nesting/linter.py", "if max_depth <= config.max_nesting_depth:", "if max_depth < config.max_nesting_depth + 2:", 2),
    "C01-ts-switch-not-counted": ("C01", "src/linters/nesting/typescript_analyzer.py", '        "switch_statement",\n', "", 1),
    "C01-rs-loop-not-counted": ("C01", "src/linters/nesting/rust_analyzer.py", '        "loop_expression",\n', "", 1),
    "C04-next-line-bracket-silences-all": ("C04", "src/linter_config/ignore.py", "        return check_bracket_rules(match.group(1), rule_id)\n    return True", "        return True\n    return True", 1),
    "C05-pyproject-keys-not-normalised": ("C05", "src/core/config_parser.py", "    return _normalize_config_keys(thailint_config)", "    return thailint_config", 1),
    "C05-magic-language-override-ignored": ("C05", "src/linters/magic_numbers/config.py", "        if language and language in config:", "        if language and language in config and language == 'python':", 1),
    "C07-last-future-dropped": ("C07", "src/orchestrator/core.py", "for future in as_completed(futures):", "for future in as_completed(futures[:-1]):", 1),
    "C07-workers-get-no-config": ("C07", "src/orchestrator/core.py", "work_items = [(fp, self.project_root, self.config) for fp in file_paths]", "work_items = [(fp, self.project_root, {}) for fp in file_paths]", 1),
}


def replace_nth(s, old, new, nth):
    idx = -1
    for _ in range(nth):
        idx = s.index(old, idx + 1)
    return s[:idx] + new + s[idx + len(old):]


def main():
    names = sys.argv[1:] or list(M)
    for name in names:
        check, rel, old, new, nth = M[name]
        wt = tempfile.mkdtemp(prefix="wt-lm-", dir="/tmp")
        os.rmdir(wt)
        subprocess.run(["git", "-C", "/repo", "worktree", "add", "-q", "--detach", wt], check=True)
        rec = {"mutant": name, "check": check, "file": rel, "old": old, "new": new}
        try:
            p = os.path.join(wt, rel)
            s = open(p).read()
            open(p, "w").write(replace_nth(s, old, new, nth))
            t0 = time.time()
            env = dict(os.environ, VERIF_REPO=wt, VERIF_NO_EVIDENCE="1", VERIF_NO_REGRESSION="1")
            k = subprocess.run(["./check", check], cwd="/verif", env=env, capture_output=True, text=True)
            sigs = [l.strip().replace("signature: ", "") for l in k.stdout.splitlines() if "signature:" in l]
            rec.update({"exit": k.returncode, "caught": k.returncode == 1, "signatures": sigs[:4], "wall_s": round(time.time() - t0)})
            if k.returncode == 2:
                rec["tail"] = k.stdout[-800:]
        finally:
            subprocess.run(["git", "-C", "/repo", "worktree", "remove", "--force", wt], capture_output=True)
            shutil.rmtree(wt, ignore_errors=True)
        with open("/verif/notes/lead_mutants.jsonl", "a") as fh:
            fh.write(json.dumps(rec) + "\n")
        print(json.dumps(rec)[:400])


if __name__ == "__main__":
    main()
