#!/usr/bin/env python3
"""Sensitivity self-test: apply one exact-string mutation to a scratch worktree of /repo and run checks on it.
usage: tools/mutant.py <CHECKS comma-sep> <file> <old> <new> [--tier quick] [--shards N]
Prints the exit code of each check (1 = caught). The worktree is removed afterwards."""
import os, subprocess, sys, tempfile, shutil
checks, rel, old, new = sys.argv[1:5]
shards = "16"
if "--shards" in sys.argv:
    shards = sys.argv[sys.argv.index("--shards") + 1]
wt = tempfile.mkdtemp(prefix="wt-mut-", dir="/tmp")
os.rmdir(wt)
subprocess.run(["git", "-C", "/repo", "worktree", "add", "-q", "--detach", wt], check=True)
try:
    p = os.path.join(wt, rel)
    s = open(p).read()
    assert s.count(old) == 1, f"pattern occurs {s.count(old)} times"
    open(p, "w").write(s.replace(old, new))
    for c in checks.split(","):
        env = dict(os.environ, VERIF_REPO=wt, VERIF_SHARDS=shards, VERIF_NO_EVIDENCE="1")
        r = subprocess.run(["./check", c], cwd="/verif", env=env, capture_output=True, text=True)
        sigs = [l.strip() for l in r.stdout.splitlines() if "signature:" in l]
        print(f"MUTANT {rel}: {c} exit={r.returncode} {'CAUGHT' if r.returncode == 1 else 'MISSED' if r.returncode == 0 else 'HARNESS-ERROR'} {sigs[:4]}")
        if r.returncode == 2:
            print(r.stdout[-1500:])
finally:
    subprocess.run(["git", "-C", "/repo", "worktree", "remove", "--force", wt])
    shutil.rmtree(wt, ignore_errors=True)
