#!/venv/bin/python
"""Build corpus/c19/<page>.json from /repo/docs/*-linter.md plus the curated reading below.

The curation (which fence is an example of what) is the reviewable part of C19; everything else is mechanical.
Run:  /venv/bin/python tools/c19_build_corpus.py [--review]

Reading rules (DESIGN.md section 3, C19) - applied conservatively:
  V  violating   only blocks the page itself presents as flagged: "Code with violation(s)", "Detects:", "Detected",
                 "VIOLATION"/"<- Violation" markers, "# Bad"/"Anti-pattern" where Bad is about this linter's rule,
                 "Supported constructs" of a detector, troubleshooting blocks the page says are flagged.
  R  refactored  "Refactored code", "Fixed code", "After ..." blocks, "EAFP alternative", "Solution".
  A  acceptable  "Acceptable ... (No Violations)", "Not flagged", "# Good"/"# OK"/"Prefer", "no violation" blocks.
  X  excluded    everything else, with a reason: API/usage snippets, ignore-directive demos (C04's subject),
                 "Before" blocks the page does not say are reported, advice whose Bad/Good is not about the rule,
                 fragments that cannot be completed without guessing.
Occurrence lines are fence-relative (line 1 = first line of the fenced block). They come from the page's
"Violation message(s)" block, from inline markers, or - where the page gives neither - from the line convention
the same page's message blocks establish for that rule (e.g. `def` line for method-property, logger-call line
for conditional-verbose). Where the page contradicts itself about the line (message block says N+1 for a
construct shown on line N) both lines are accepted: [[N, N+1]].
"""
from __future__ import annotations

import glob
import hashlib
import json
import os
import re
import sys

VERIF = os.path.dirname(os.path.dirname(os.path.abspath(__file__)))
sys.path.insert(0, VERIF)
from vf.oracle.c19_docs import parse_fences, slug  # noqa: E402

DOCS = os.environ.get("C19_DOCS", "/repo/docs")
OUT = os.path.join(VERIF, "corpus", "c19")
CODE_LANGS = {"python": ".py", "typescript": ".ts", "javascript": ".js", "rust": ".rs", "markdown": ".md", "css": ".css"}

PAGES = {}
_cur = None


def page(name, cmd, family, pattern, api=False):
    global _cur
    _cur = {"name": name, "doc": f"{name}-linter.md", "cmd": cmd, "family": family, "pattern": pattern, "api": api,
            "items": [], "xh": []}
    PAGES[name] = _cur


def _item(role, heading, index, **kw):
    _cur["items"].append({"role": role, "heading": heading, "index": index, **kw})


def V(heading, index, occ, **kw):
    _item("violating", heading, index, occ=occ, **kw)


def R(heading, index, **kw):
    _item("refactored", heading, index, **kw)


def A(heading, index, **kw):
    _item("acceptable", heading, index, **kw)


def X(heading, index, reason):
    _item("excluded", heading, index, reason=reason)


def XH(regex, reason):
    """Exclude every not-yet-curated code fence whose heading path matches regex."""
    _cur["xh"].append((re.compile(regex), reason))


IGN = "ignore-directive demonstration (suppression is C04's subject, not an acceptable/violating example)"
API = "library/API usage snippet, not an example of the linter's verdict"
BEFORE = "'Before' block of a refactoring pattern: the page does not say the linter reports it"
ADVICE = "style advice: the Bad/Good (or unannotated) block is not about this linter's verdict"
FRAG = "fragment that cannot be completed without guessing"

CLASSWRAP = {"pre": ["class Example:"], "indent": 4, "post": [], "note": "method fragment wrapped in `class Example:`"}
RSFN = {"pre": ["fn example() {"], "indent": 4, "post": ["}"], "note": "statement fragment wrapped in `fn example() { }`"}


def common_exclusions():
    XH(r"Ignor|Suppress", IGN)
    XH(r"Library|API Reference|Library API", API)


# ============================================================================ lbyl
page("lbyl", "lbyl", "lbyl.*", True)
F = "lbyl.*"
V("What is LBYL vs EAFP?", 0, [(F, 2)], basis="'Anti-pattern - LBYL'")
A("What is LBYL vs EAFP?", 1, basis="'Pythonic - EAFP'")
V("Pattern 1: Dict Key Check (`detect_dict_key`)", 0, [(F, 2)], basis="'Detects:'")
R("Pattern 1: Dict Key Check (`detect_dict_key`)", 1, basis="'EAFP alternative:'")
V("Pattern 2: hasattr Check (`detect_hasattr`)", 0, [(F, 2)], basis="'Detects:'")
R("Pattern 2: hasattr Check (`detect_hasattr`)", 1, basis="'EAFP alternative:'")
ISI = {"lbyl": {"detect_isinstance": True}}
V("Pattern 3: isinstance Check (`detect_isinstance`)", 0, [(F, 2)], basis="'Detects:' (pattern disabled by default -> page's option enabled)", config=ISI)
R("Pattern 3: isinstance Check (`detect_isinstance`)", 1, basis="'EAFP alternative:'", config=ISI)
V("Pattern 4: File Exists Check (`detect_file_exists`)", 0, [(F, 2), (F, 7)], basis="'Detects:'")
R("Pattern 4: File Exists Check (`detect_file_exists`)", 1, basis="'EAFP alternative:'")
V("Pattern 5: Length Check (`detect_len_check`)", 0, [(F, 2), (F, 6)], basis="'Detects:' / 'Also detects'")
R("Pattern 5: Length Check (`detect_len_check`)", 1, basis="'EAFP alternative:'")
NON = {"lbyl": {"detect_none_check": True}}
V("Pattern 6: None Check (`detect_none_check`)", 0, [(F, 2)], basis="'Detects:' (pattern disabled by default -> page's option enabled)", config=NON)
R("Pattern 6: None Check (`detect_none_check`)", 1, basis="'EAFP alternative:'", config=NON)
V("Pattern 7: String Validation (`detect_string_validation`)", 0, [(F, 2), (F, 5), (F, 8)], basis="'Detects:' 'Anti-patterns'")
R("Pattern 7: String Validation (`detect_string_validation`)", 1, basis="'EAFP alternative:'")
V("Pattern 8: Division Check (`detect_division_check`)", 0, [(F, 2)], basis="'Detects:'")
R("Pattern 8: Division Check (`detect_division_check`)", 1, basis="'EAFP alternative:'")
V("2. Use dict.get() for Simple Cases", 0, [(F, 2)], basis="'Instead of LBYL' (same code as the overview anti-pattern) / 'Use dict.get()'")
A("3. Prefer try/except for File Operations", 0, basis="'File operations should always use try/except'")
A("4. Be Specific with Exception Types", 0, basis="'Good - specific exception'", unjudged=[(7, 11, "'Bad - too broad' is about exception breadth, not LBYL")])
A("5. Consider contextlib.suppress for No-Op Handling", 0, basis="recommended EAFP form")
XH(r"When to Suppress", IGN)
common_exclusions()

# ============================================================================ collection-pipeline
page("collection-pipeline", "pipeline", "collection-pipeline.*", True)
F = "collection-pipeline.embedded-filter"
V("The Anti-Pattern", 0, [(F, 2)], basis="'Anti-pattern: Embedded filtering in loop body'")
R("The Solution", 0, basis="'Collection pipeline: Filtering separated from processing'")
V("AI-Generated Code Pattern", 0, [(F, 4)], basis="'AI coding assistants frequently generate this anti-pattern'")
V("What Gets Detected", 0, [(F, 1)], basis="'What Gets Detected' / 'Single if/continue'")
V("What Gets Detected", 1, [(F, 1)], basis="'What Gets Detected' / 'Multiple if/continue'")
for i in range(4):
    A("What Gets Ignored (Not Flagged)", i, basis="'What Gets Ignored (Not Flagged)'")
V("Example 1: Single if/continue Pattern", 0, [(F, [2, 3])], basis="'Code with violation' + message block (says :3; the loop is on line 2)")
R("Example 1: Single if/continue Pattern", 2, basis="'Refactored code'")
V("Example 2: Multiple if/continue Patterns", 0, [(F, 2)], basis="'Code with violation' + message block :2")
R("Example 2: Multiple if/continue Patterns", 2, basis="'Refactored code'")
A("Example 3: Not Flagged - Walrus Operator", 0, basis="'Code (no violation)'")
for p in ("Pattern 1: Simple Filter to Generator", "Pattern 2: Multiple Conditions Combined", "Pattern 3: Named Pipeline for Clarity"):
    X(p, 0, BEFORE)
    R(p, 1, basis="'After:'")
V("Python Support", 0, [(F, 2), (F, 8), (F, 16)], basis="'Supported constructs' of the detector")
A("Common Issues", 4, basis="'This is NOT flagged'")
X("Common Issues", 5, IGN)
A("1. Name Your Pipelines", 0, basis="'Good - descriptive name'", unjudged=[(1, 3, "'Bad - anonymous generator' is naming advice")])
A("2. Extract Complex Predicates", 0, basis="'Good - extracted predicate'", unjudged=[(1, 2, "'Bad - complex inline condition' is style advice")])
X("3. Consider filter() for Simple Cases", 0, ADVICE)
A("4. Preserve Generator Laziness", 0, basis="'Good - stays lazy'", unjudged=[(6, 9, "'Avoid - converts to list' is performance advice")])
common_exclusions()

# ============================================================================ cqs
page("cqs", None, "cqs*", True, api=True)
F = "cqs"
X("What It Detects", 0, "lists INPUT operations only; no verdict")
X("What It Detects", 1, "lists OUTPUT operations only; no verdict")
V("What It Detects", 2, [(F, 2)], basis="'VIOLATION: mixes queries and commands' (line convention: def line, as in Example 1's message)")
V("Example 1: Mixed Query and Command", 0, [(F, 1)], basis="'Code with violation' + message block :1")
R("Example 1: Mixed Query and Command", 2, basis="'Refactored code'")
V("Example 2: TypeScript Violation", 0, [(F, 1)], basis="'Code with violation' (def line convention)")
R("Example 2: TypeScript Violation", 1, basis="'Refactored code'")
A("Example 3: Fluent Interface (Not a Violation)", 0, basis="'Not a Violation' / 'not flagged'")
V("Pattern 1: Split into Query + Command", 0, [(F, 1)], basis="Before block annotated with both INPUT and OUTPUT, which the page defines as a violation")
R("Pattern 1: Split into Query + Command", 1, basis="'After:'")
V("Pattern 2: Return Results for Caller to Act On", 0, [(F, 1)], basis="Before block annotated with both INPUT and OUTPUT, which the page defines as a violation")
R("Pattern 2: Return Results for Caller to Act On", 1, basis="'After:'")
common_exclusions()

# ============================================================================ improper-logging
page("improper-logging", "improper-logging", "improper-logging.*", True)
P, C = "improper-logging.print-statement", "improper-logging.conditional-verbose"
V("Print Statement Detection", 0, [(P, 2), (P, 3), (P, 4)], basis="'Detected (violations)' / 'Not detected (allowed)'")
V("Print Statement Detection", 1, [(P, 2), (P, 3), (P, 4)], basis="'Detected (violations)' / 'Not detected (allowed)'")
V("Conditional Verbose Detection (Python only)", 0, [(C, 3), (C, 6), (C, 9)], basis="'Detected (violations)'; line convention of Example 2's message block: the logger call line")
V("Example 1: Python print() Statement", 0, [(P, 2)], basis="'Code with violation' + message :2")
R("Example 1: Python print() Statement", 2, basis="'Refactored code'")
V("Example 2: Conditional Verbose Pattern", 0, [(C, 3), (C, 6)], basis="'Code with violation' + messages :3 :6")
R("Example 2: Conditional Verbose Pattern", 2, basis="'Refactored code'")
V("Example 3: TypeScript console.log()", 0, [(P, 2)], basis="'Code with violation' + message :2")
R("Example 3: TypeScript console.log()", 2, basis="'Refactored code'")
for p in ("Pattern 1: Remove Verbose Guards", "Pattern 2: Centralize Verbosity Control", "Pattern 3: Click CLI Verbose Flag"):
    X(p, 0, BEFORE)
    R(p, 1, basis="'After'")
XH(r"Best Practices", ADVICE)
common_exclusions()

# ============================================================================ print-statements (alias page of the same linter)
page("print-statements", "print-statements", "improper-logging.*", True)
V("What It Detects", 0, [(P, 2), (P, 3), (P, 4)], basis="'Detected (violations)'")
V("What It Detects", 1, [(P, 2), (P, 3), (P, 4), (P, 5), (P, 6)], basis="'Detected (violations)'")
V("AI-Generated Code Pattern", 0, [(P, 3), (P, 5), (P, 7)], basis="'AI coding assistants frequently add print statements' - each marked '# AI debugging'")
V("Example 1: Python print() Statement", 0, [(P, 2), (P, 4)], basis="'Code with violation' + messages :2 :4")
R("Example 1: Python print() Statement", 2, basis="'Refactored code'")
V("Example 2: TypeScript console.log()", 0, [(P, 2), (P, 4), (P, 6)], basis="'Code with violation' + messages :2 :4 :6")
R("Example 2: TypeScript console.log()", 2, basis="'Refactored code'")
A("Example 3: Allowed in __main__ Block", 0, basis="'Code (no violation with default config)'", scopes=["module"])
for p in ("Pattern 1: Python - Add Logging Module", "Pattern 2: TypeScript - Use Winston or Pino", "Pattern 3: Replace Debug Print with Conditional Logging"):
    X(p, 0, BEFORE)
    R(p, 1, basis="'After'")
A("Pattern 4: CLI Scripts - Keep print() in __main__", 0, basis="'Acceptable pattern'", scopes=["module"])
V("Python Support", 0, [(P, 1), (P, 2), (P, 3), (P, 4)], basis="'Supported constructs' of the detector")
X("Common Issues", 4, IGN)
A("3. Include Context in Logs", 0, basis="logger calls only ('Good - includes context')", unjudged=[(1, 2, "'Bad - no context' is logging-style advice")])
XH(r"Best Practices", ADVICE)
common_exclusions()

# ============================================================================ method-property
page("method-property", "method-property", "method-property.*", True)
F = "method-property.*"
V("What Are Property Candidates?", 0, [(F, 6), (F, 9)], basis="'Bad - Java-style getter methods' / '# Should be a property'; 'Good - Pythonic properties' below")
V("Example 1: get_* Methods", 0, [(F, [6, 7]), (F, [9, 10])], basis="'Code with violations', '# Violation' markers on 6 and 9; message block says :7 and :10")
R("Example 1: get_* Methods", 2, basis="'Refactored code'")
V("Example 2: Computed Values", 0, [(F, 6), (F, 9)], basis="'Code with violations', '# Violation' markers")
R("Example 2: Computed Values", 1, basis="'Refactored code'")
A("Example 3: Acceptable Methods (No Violations)", 0, basis="'Acceptable Methods (No Violations)'")
TBL = "Before block; the page's 'Detection Patterns' table lists exactly this method as flagged"
V("Pattern 1: Simple Attribute Return", 0, [(F, 1)], basis=TBL, wrap=CLASSWRAP)
R("Pattern 1: Simple Attribute Return", 1, basis="'After:'", wrap=CLASSWRAP)
V("Pattern 2: get_* to Property", 0, [(F, 1)], basis=TBL, wrap=CLASSWRAP)
R("Pattern 2: get_* to Property", 1, basis="'After:'", wrap=CLASSWRAP)
V("Pattern 3: Computed Value", 0, [(F, 1)], basis=TBL, wrap=CLASSWRAP)
R("Pattern 3: Computed Value", 1, basis="'After:'", wrap=CLASSWRAP)
V("Pattern 4: Boolean Property", 0, [(F, 1)], basis=TBL, wrap=CLASSWRAP)
R("Pattern 4: Boolean Property", 1, basis="'After:'", wrap=CLASSWRAP)
V("Pattern 5: With Setter", 0, [(F, 1)], basis=TBL + " (get_* prefix row); set_name has a parameter", wrap=CLASSWRAP)
R("Pattern 5: With Setter", 1, basis="'After:'", wrap=CLASSWRAP)
X("Common Issues", 0, "troubleshooting discussion ('should detect ... If not detected'): verdict not stated")
A("1. Use Properties for Simple Access", 0, basis="'Good - property ...'", wrap=CLASSWRAP)
A("2. Keep Properties Simple", 0, basis="'Good - use method for complex logic'", wrap=CLASSWRAP, unjudged=[(1, 8, "'Bad - too complex for property' is advice about a decorated property")])
A("3. Don't Raise Exceptions in Properties", 0, basis="'Good - return sensible default or use method'", wrap=CLASSWRAP, unjudged=[(1, 6, "'Bad - exceptions in property' is advice about a decorated property")])
A("4. Use Descriptive Names", 0, basis="'Good - clear property names'", wrap=CLASSWRAP)
A("When to Keep Methods", 0, basis="'Method takes parameters' = Exclusion Rules row 'Have parameters'", wrap=CLASSWRAP)
A("When to Keep Methods", 1, basis="'Method has side effects' = Exclusion Rules row 'Have side effects'", wrap=CLASSWRAP)
X("When to Keep Methods", 2, "'Method is expensive' is advice; not an exclusion the page documents")
A("When to Keep Methods", 3, basis="'Method is an action' - to_dict is listed as OK in Example 3", wrap=CLASSWRAP)
common_exclusions()

# ============================================================================ stateless-class
page("stateless-class", "stateless-class", "stateless-class.*", True)
F = "stateless-class.*"
V("What Are Stateless Classes?", 0, [(F, 2)], basis="'Bad - Stateless class' / 'Good - Module-level functions' (class line, as in Example 1's message)")
V("Example 1: Utility Class Pattern", 0, [(F, 1)], basis="'Code with violation' + message :1")
R("Example 1: Utility Class Pattern", 2, basis="'Refactored code'")
V("Example 2: Service Class Pattern", 0, [(F, 1)], basis="'Code with violation'")
R("Example 2: Service Class Pattern", 1, basis="'Refactored code'")
A("Example 3: Acceptable Classes (No Violations)", 0, basis="'Acceptable Classes (No Violations)'")
for p in ("Pattern 1: Simple Utility Class", "Pattern 2: Validator Class", "Pattern 3: Transformer Class", "Pattern 4: Helper Class"):
    X(p, 0, BEFORE)
    R(p, 1, basis="'After:'")
V("Pattern 5: Keep State When Needed", 0, [(F, 1)], basis="'Before (stateless)'")
R("Pattern 5: Keep State When Needed", 1, basis="'After Option A (functions)'")
R("Pattern 5: Keep State When Needed", 2, basis="'After Option B'")
V("Common Issues", 0, [(F, 2)], basis="'Properties that don't use state are still flagged'")
A("Common Issues", 1, basis="'Solution: Add class attributes or use module constants'")
V("Common Issues", 2, [(F, 2)], basis="'Issue: Interface class flagged'")
A("Common Issues", 3, basis="'Solution: Use ABC or Protocol'")
V("Common Issues", 4, [(F, 2)], basis="'Issue: Framework class flagged'")
A("Common Issues", 5, basis="'Solution 1: Add decorator'", unjudged=[(6, 8, "solution 2 is an ignore directive (C04)")])
A("Common Issues", 6, basis="'Subclasses are automatically excluded' (fixed in v0.8.1)")
A("1. Prefer Functions for Utilities", 0, basis="'Good - utility functions'")
A("2. Use Classes for State", 0, basis="'Good - class with state'")
A("3. Use Protocols for Interfaces", 0, basis="Protocol classes are in the page's exclusion table")
X("4. Group Related Functions in Modules", 0, ADVICE)
A("5. Use Inheritance for Polymorphism", 0, basis="'Good - inheritance pattern (not flagged)'")
common_exclusions()

# ============================================================================ stringly-typed
page("stringly-typed", "stringly-typed", "stringly-typed.*", True)
F = "stringly-typed.*"
DUP = "the page reports a pattern only when it 'appears in multiple files' (require_cross_file default): the same block is placed in two files; the second file is not judged"
X('What is "Stringly-Typed" Code?', 0, "Bad and Good halves share one block and the Bad half needs a second file the page does not show")
V("Pattern 1: Membership Validation", 0, [(F, 2), (F, 5)], basis="'Detected patterns'", dup=DUP)
V("Pattern 2: Equality Chains", 0, [(F, 2), (F, 10)], basis="'Detected patterns' / 'Also detected: match statements'", dup=DUP)
V("Pattern 3: Function Call Tracking", 0, [(F, 2)], basis="'Detected: Function called with limited string values ... across multiple files -> violation'; reported at the first call as in Example 2's message",
  dup=DUP, unjudged=[(3, 4, "further calls of the same function: Example 2's message lists them under 'Also called in'")])
_item("violating", "Example 1: Repeated Membership Validation", 0, occ=[(F, 2, 0)], basis="'Violation message' src/handlers/order.py:2",
      parts=[("Example 1: Repeated Membership Validation", 0, "src/handlers/order.py"), ("Example 1: Repeated Membership Validation", 1, "src/services/order_service.py")],
      unjudged_files=[(1, "the message block shows the first file only ('Also found in: order_service.py:2')")])
_item("violating", "Example 2: Function Call with Limited Values", 0, occ=[(F, 1, 0)], basis="'Violation message' src/api/users.py:1",
      parts=[("Example 2: Function Call with Limited Values", 0, "src/api/users.py"), ("Example 2: Function Call with Limited Values", 1, "src/api/permissions.py")],
      unjudged=[(2, 2, "second call: listed under 'Also called in'")], unjudged_files=[(1, "listed under 'Also called in'")])
V("Example 3: TypeScript Switch Statement", 0, [(F, [2, 3], 0)], basis="'Code with violations' + message src/handlers/status.ts:2 (function on line 2, switch on line 3)",
  files=[("src/handlers/status.ts", 1, 14), ("src/utils/status.ts", 16, 19)], unjudged_files=[(1, "the message block shows the first file only")])
R("Example 3: TypeScript Switch Statement", 2, basis="'Refactored TypeScript'", files=[("src/types/status.ts", 1, 9), ("src/handlers/status.ts", 11, 26)])
for p in ("Pattern 1: Python Enum", "Pattern 2: Python StrEnum (3.11+)", "Pattern 3: TypeScript Union Type", "Pattern 4: TypeScript Enum", "Pattern 5: TypeScript const Object"):
    X(p, 0, BEFORE)
    R(p, 1, basis="'After:'")
X("Common Issues", 0, "mixes Python and YAML in one block")
A("3. Define Enums Near First Use", 0, basis="'Good - Define enum where it's first needed'")
XH(r"Best Practices", ADVICE)
XH(r"When to Ignore", IGN)
common_exclusions()

# ============================================================================ performance
page("performance", "perf", "performance.*", True)
S, G = "performance.string-concat-loop", "performance.regex-in-loop"
V("Pattern Detection", 0, [(S, 4)], basis="'<- VIOLATION' marker")
V("Pattern Detection", 1, [(G, 3)], basis="'<- VIOLATION' marker")
V("Example 1: String Concatenation in Loop (Python)", 0, [(S, 4)], basis="'Code with violation' + marker + message :4")
V("Example 2: Regex in Loop (Python)", 0, [(G, [6, 7])], basis="'Code with violation', marker on line 6; message block says :7")
V("Example 3: TypeScript String Concatenation", 0, [(S, 4)], basis="'Code with violation' + marker")
for p in ("Pattern 1: String Concatenation → join()", "Pattern 2: String Concatenation → List Append + Join", "Pattern 3: Regex → Pre-compile",
          "Pattern 4: Regex + Comprehension", "Pattern 5: TypeScript Array.join()"):
    X(p, 0, BEFORE)
    R(p, 1, basis="'After'")
X("Common Issues", 1, IGN)
A("Common Issues", 2, basis="'Good - pattern.match() not flagged'", unjudged=[(6, 9, "'Might be flagged'")])
XH(r"Best Practices", ADVICE)
common_exclusions()

# ============================================================================ lazy-ignores
page("lazy-ignores", "lazy-ignores", "lazy-ignores.*", True)
U, O, T = "lazy-ignores.unjustified", "lazy-ignores.orphaned", "lazy-ignores.test-skip-no-reason"
V("The Problem", 0, [(U, 2), (U, 3), (U, 4)], basis="'BAD - AI added these to silence linters without explanation'")
A("The Solution", 0, basis="the documented solution: header with a Suppressions section")
X("Test Skip Patterns", 0, FRAG + " (decorators without a function)")
A("Python Files", 0, basis="the documented declaration format")
A("TypeScript/JavaScript Files", 0, basis="the documented declaration format")
V("Example 1: Unjustified Python Suppression", 0, [(U, [6, 7])], basis="'Code with violation'; message block says 7:40, column 40 is the '# noqa' on line 6")
R("Example 1: Unjustified Python Suppression", 2, basis="'Fixed code'")
V("Example 2: Orphaned Header Entry", 0, [(O, 5)], basis="'Code with violation' + message 5:4 (the header entry's line and column)")
V("Example 3: TypeScript Violation", 0, [(U, [5, 6])], basis="'Code with violation'; message block says 6:0, the @ts-ignore comment is on line 5")
V("Example 4: Test Skip Without Reason", 0, [(T, 3)], basis="'Code with violation' + message 3:0; rule id from the page's 'Violation Types' table")
R("Example 4: Test Skip Without Reason", 2, basis="'Fixed code'")
X("1. Fix Rather Than Suppress", 0, FRAG + " (an `if` with only a comment as body)")
X("2. Be Specific with Rule IDs", 0, ADVICE + " (BAD/GOOD is about specificity; both lines lack a header entry)")
XH(r"Best Practices|Troubleshooting", "header-only or comment-only fragment")
common_exclusions()

# ============================================================================ file-header
page("file-header", "file-header", "file-header.*", True)
F = "file-header.*"
V("Why File Headers?", 0, [(F, 1)], basis="'Without headers' (one 'Missing file header' message at :1 as in Example 3)")
A("Why File Headers?", 1, basis="'With headers'")
A("Python Files (.py)", 0, basis="the documented header format with every documented field")
A("TypeScript/JavaScript Files (.ts, .tsx, .js, .jsx)", 0, basis="the documented header format")
A("Markdown Files (.md)", 0, basis="the documented header format", name="docs/example.md")
A("CSS/SCSS Files (.css, .scss)", 0, basis="the documented header format", name="src/example.css")
V("Example 1: Missing Mandatory Fields", 0, [(F, 1), (F, 1), (F, 1)], basis="'Code with violations' + three messages at :1 (Purpose, Scope, Overview)")
R("Example 1: Missing Mandatory Fields", 2, basis="'Refactored code'")
V("Example 2: Atemporal Language Violations", 0, [(F, [5, 6]), (F, [6, 7]), (F, [7, 8]), (F, [8, 9]), (F, [9, 10])],
  basis="'Code with violations' + five messages :5..:9 (the phrases are on lines 6..10 of the block)")
R("Example 2: Atemporal Language Violations", 2, basis="'Refactored code'")
V("Example 3: No Header (File Missing Docstring)", 0, [(F, 1)], basis="'Code with violations' + one message at :1")
X("Pattern 1: Adding Headers to Existing Files", 0, BEFORE)
R("Pattern 1: Adding Headers to Existing Files", 1, basis="'After:'")
X("Pattern 2: Converting Temporal to Atemporal", 0, BEFORE)
R("Pattern 2: Converting Temporal to Atemporal", 1, basis="'After (atemporal)'")
X("Pattern 3: TypeScript Component Headers", 0, BEFORE)
R("Pattern 3: TypeScript Component Headers", 1, basis="'After:'")
X("Python Support", 0, "'Example patterns' illustrates field syntax; no verdict stated")
XH(r"Troubleshooting|Best Practices", "partial header fragments used for discussion/style advice")
common_exclusions()

# ============================================================================ magic-numbers
page("magic-numbers", "magic-numbers", "magic-numbers.*", False)
F = "magic-numbers.*"
V("What are Magic Numbers?", 0, [(F, 3), (F, 5)], basis="'Bad - Magic numbers' / 'Good - Named constants'",
  unjudged=[(4, 4, "`max_retries = 5`: called magic here, but 5 is in the page's own default allowed_numbers")])
V("Example 1: Python Magic Numbers", 0, [(F, 2), (F, 5), (F, 6)], basis="'Code with violations' + messages :2 :5 :6")
R("Example 1: Python Magic Numbers", 2, basis="'Refactored code'")
V("Example 2: TypeScript Magic Numbers", 0, [(F, 2), (F, 2), (F, [7, 8])], basis="'Code with violations' + messages :2 :2 :7 (5000 is on line 8)")
R("Example 2: TypeScript Magic Numbers", 2, basis="'Refactored code'")
A("Example 3: Acceptable Contexts (No Violations)", 0, basis="'Acceptable Contexts (No Violations)'", part="a", files=[("src/example.py", 1, 18)])
A("Example 3: Acceptable Contexts (No Violations)", 0, basis="'Test files (test_*.py) - OK'", part="b", files=[("tests/test_example.py", 20, 22)])
for p in ("Pattern 1: Extract to Module-Level Constants", "Pattern 2: Extract to Configuration Class", "Pattern 3: Extract with Units in Name",
          "Pattern 4: Extract with Calculation Comment", "Pattern 5: Extract HTTP/Network Constants"):
    X(p, 0, BEFORE)
    R(p, 1, basis="'After:'")
R("Pattern 5: Extract HTTP/Network Constants", 2, basis="'Alternative - Use standard library'")
V("Rust Support", 0, [(F, 3), (F, 3)], basis="'Flagged - magic number' / '<- Both flagged'; 'OK - named constants' below")
V("Common Issues", 0, [(F, 2)], basis="'<- Flagged as magic number' / '<- Not flagged'")
X("Common Issues", 1, FRAG + " (for loops without bodies, YAML mixed in)")
X("Common Issues", 2, FRAG + " (if statements without bodies, YAML mixed in)")
A("1. Use Descriptive Constant Names", 0, basis="'Good - descriptive names'", unjudged=[(1, 4, "'Bad - unclear names' is naming advice")])
A("2. Include Units in Names", 0, basis="'Good - explicit units'", unjudged=[(1, 3, "'Bad - ambiguous units' is naming advice")])
A("3. Group Related Constants", 0, basis="'Good - logical grouping'")
A("4. Add Comments for Calculations", 0, basis="'Good - show calculation'")
A("5. Use Standard Library When Available", 0, basis="'Good - use Python standard library'")
A("6. Consider Configuration Files", 0, basis="'Good - environment-based configuration'")
XH(r"When to Ignore", IGN)
common_exclusions()

# ============================================================================ nesting
page("nesting", "nesting", "nesting.*", False)
F = "nesting.excessive-depth"
MAX3 = {"nesting": {"max_nesting_depth": 3}}
V("Depth Calculation", 0, [(F, [1, 5])], basis="'<- Violation if max=3' (function header line 1; marker on line 5)", config=MAX3)
V("Example 1: Excessive Nesting (Python)", 0, [(F, [1, 3, 4])], basis="'Code with violation', '<- VIOLATION (max=3)' on line 4; message block says :3; function header is line 1", config=MAX3)
V("Example 2: TypeScript Violation", 0, [(F, [1, 4])], basis="'Code with violation', '<- VIOLATION' on line 4; function header is line 1", config=MAX3)
for p in ("Pattern 1: Guard Clauses (Early Returns)", "Pattern 2: Extract Method", "Pattern 3: Dispatch Pattern (Replace if-elif-else chains)",
          "Pattern 4: Flatten Error Handling", "Pattern 5: Invert Conditions"):
    X(p, 0, BEFORE)
    R(p, 1, basis="'After (depth N<=2)'", config=MAX3)
V("Rust Support", 0, [(F, [1, 4])], basis="'<- Violation if max=3' on line 4; function header is line 1", config=MAX3,
  subst=[("{ ... }", "{ }")], subst_note="`{ ... }` placeholder bodies replaced by `{ }`")
XH(r"Troubleshooting|Best Practices", IGN)
common_exclusions()

# ============================================================================ srp
page("srp", "srp", "srp.*", False)
F = "srp.violation"
V("Metric Calculation", 0, [(F, 1)], basis="'<- Violation at method 8 (max: 7)' (class line, as in the message blocks)")
X("Metric Calculation", 1, FRAG + " (class with comments only)")
X("Metric Calculation", 2, FRAG + " (class headers without bodies)")
A("Method Counting Rules", 0, basis="'Example - Passes SRP check (2 public methods)'")
V("Method Count Violation", 0, [(F, 1)], basis="'8 methods - Violation (max: 7)' + message :1")
X("Lines of Code Violation", 0, FRAG + " ('... 250+ lines ...')")
V("Keyword Violation", 0, [(F, 1)], basis="'Contains \"Handler\" keyword' + message :1")
X("Combined Violations", 0, FRAG + " (class with a comment only)")
V("Pattern 1: Extract Class", 0, [(F, 1)], basis="'12 methods - Violation'")
R("Pattern 1: Extract Class", 1, basis="'After:' (every class marked with a check mark)")
X("Pattern 2: Split Configuration and Logic", 0, FRAG + " ('... 28 more methods')")
R("Pattern 2: Split Configuration and Logic", 1, basis="'After:'")
X("Pattern 3: Extract Language-Specific Logic", 0, FRAG + " ('... 10 more methods')")
R("Pattern 3: Extract Language-Specific Logic", 1, basis="'After:'")
X("Pattern 4: Utility Module Pattern", 0, FRAG + " ('... 6 more helpers')")
R("Pattern 4: Utility Module Pattern", 1, basis="'After:'", files=[("utils/parsers.py", 1, 5), ("utils/formatters.py", 7, 11), ("processor.py", 13, 21)])
X("Large Class Refactoring", 0, FRAG + " ('... 26 more methods')")
R("Large Class Refactoring", 1, basis="'After - Extract Class Pattern'")
A("Issue: False Positives on Data Classes", 0, basis="'Not a violation'")
X("Issue: Abstract Base Classes Flagged", 0, IGN)
A("Issue: Inherited Methods Counted", 0, basis="'Only counts methods defined in Child'")
X("Rust Support", 0, "illustrates counting ('Total: 5 public methods'); no verdict stated")
XH(r"Best Practices", IGN)
common_exclusions()

# ============================================================================ dry
page("dry", "dry", "dry.*", False)
F = "dry.*"
DRYC = {"dry": {"enabled": True, "min_duplicate_lines": 4, "min_duplicate_tokens": 30, "min_occurrences": 2}}
V("Example 1: Duplicate Functions (Python)", 0, [("dry.duplicate-code", 3, 0), ("dry.duplicate-code", 13, 1)], config=DRYC,
  basis="'Code with duplication' + message src/auth.py:3 with locations auth.py:3-6 and admin.py:3-6 ('create violations for all locations')",
  files=[("src/auth.py", 1, 9), ("src/admin.py", 11, 19)])
R("Example 1: Duplicate Functions (Python)", 2, basis="'Refactored (DRY)'", config=DRYC,
  files=[("src/validators.py", 1, 9), ("src/auth.py", 11, 15), ("src/admin.py", 17, 21)])
V("Example 2: Duplicate TypeScript Logic", 0, [("dry.duplicate-code", None, 0), ("dry.duplicate-code", None, 1)], config=DRYC,
  basis="'Code with duplication' (no message block: at least one report in each file, line not stated)",
  files=[("src/user-service.ts", 1, 10), ("src/admin-service.ts", 12, 21)])
R("Example 2: Duplicate TypeScript Logic", 1, basis="'Refactored (DRY)'", config=DRYC,
  files=[("src/utils/error-formatter.ts", 1, 10), ("src/user-service.ts", 12, 17), ("src/admin-service.ts", 19, 24)])
X("What Counts as a Constant", 0, "describes which names count as constants; a violation needs a second file the page does not show")
X("What Counts as a Constant", 1, "describes which names count as constants; a violation needs a second file the page does not show")
OTHER = "the message block shows the first file only ('Also found in: ...')"
V("Word-Set Matching", 0, [(F, 3, 0)], config=DRYC, basis="'These are matched' + message ('Also found in: file2.py:1' -> the path comment is not part of the file)",
  files=[("file1.py", 3, 3), ("file2.py", 6, 6)], unjudged_files=[(1, OTHER)])
V("Edit Distance Matching", 0, [(F, 3, 0)], config=DRYC, basis="'These are matched' + message", files=[("file1.py", 3, 3), ("file2.py", 6, 6)], unjudged_files=[(1, OTHER)])
A("Single-Word Constants", 0, config=DRYC, basis="'These are NOT matched'", files=[("file1.py", 3, 3), ("file2.py", 6, 6)])
V("Exact Duplicate Constants", 0, [(F, 2, 0)], config=DRYC, basis="'When the same constant name appears in multiple files' + message",
  files=[("file1.py", 2, 2), ("file2.py", 5, 5), ("file3.py", 8, 8)], unjudged_files=[(1, OTHER), (2, OTHER)])
V("Refactoring Pattern: Shared Constants Module", 0, [(F, 2, 0)], config=DRYC, basis="'Before (duplicated)'",
  files=[("src/api/client.py", 2, 2), ("src/api/server.py", 5, 5), ("src/api/middleware.py", 8, 8)], unjudged_files=[(1, OTHER), (2, OTHER)])
R("Refactoring Pattern: Shared Constants Module", 1, config=DRYC, basis="'After (consolidated)'",
  files=[("src/constants.py", 2, 2), ("src/api/client.py", 5, 5), ("src/api/server.py", 8, 8), ("src/api/middleware.py", 11, 11)])
V("TypeScript Example", 0, [(F, 2, 0)], config=DRYC, basis="'Before (duplicated)'", files=[("src/api/client.ts", 2, 2), ("src/api/server.ts", 5, 5)], unjudged_files=[(1, OTHER)])
R("TypeScript Example", 1, config=DRYC, basis="'After (consolidated)'", files=[("src/constants.ts", 2, 2), ("src/api/client.ts", 5, 5), ("src/api/server.ts", 8, 8)])
for p in ("Pattern 1: Extract Function", "Pattern 2: Extract Base Class", "Pattern 4: Template Method"):
    X(p, 0, BEFORE)
    R(p, 1, basis="'After'", config=DRYC)
X("Pattern 3: Extract Utility Module", 0, BEFORE)
R("Pattern 3: Extract Utility Module", 1, basis="'After'", config=DRYC, files=[("utils/validation.py", 2, 3), ("file1.py", 6, 6), ("file2.py", 9, 9)])
XH(r"Best Practices", ADVICE)
common_exclusions()

# ============================================================================ unwrap-abuse
page("unwrap-abuse", "unwrap-abuse", "unwrap-abuse.*", False)
U, E = "unwrap-abuse.unwrap-call", "unwrap-abuse.expect-call"
V("What is Unwrap Abuse?", 0, [(U, 3), (U, 4), (U, 5)], basis="'Bad - panics if file doesn't exist' / 'Good - propagates errors to caller'")
V("Test-Aware Detection", 0, [(U, 18)], basis="'Skipped' x2 / 'Flagged - production code' '// VIOLATION'")
V("Example 1: File I/O with Unwrap", 0, [(U, 5), (U, 7)], basis="'Code with violations' + markers + messages :5 :7")
R("Example 1: File I/O with Unwrap", 2, basis="'Refactored code'")
V("Example 2: Option Handling with Unwrap", 0, [(U, 2), (U, 6)], basis="'Code with violations' + markers + messages :2 :6")
R("Example 2: Option Handling with Unwrap", 2, basis="'Refactored code'")
NOEXP = {"unwrap-abuse": {"allow_expect": False}}
V("Example 3: Expect Calls (Flagged When `allow_expect: false`)", 0, [(E, 3), (E, 6)], basis="'Code with violations (when allow_expect: false)' + messages :3 :6", config=NOEXP)
R("Example 3: Expect Calls (Flagged When `allow_expect: false`)", 2, basis="'Refactored code'", config=NOEXP)
A("Example 4: Acceptable Contexts (No Violations)", 0, basis="'Acceptable Contexts (No Violations)' (defaults)")
for p in ("Pattern 1: The `?` Operator (Error Propagation)", "Pattern 2: `unwrap_or()` (Default Value)", "Pattern 3: `unwrap_or_default()` (Type Default)",
          "Pattern 4: `match` / `if let` (Explicit Handling)", "Pattern 5: `anyhow::Context` / `.context()` (Rich Errors)", "Pattern 6: Combining Patterns"):
    X(p, 0, BEFORE)
    R(p, 1, basis="'After:'")
V("1. Prefer the `?` Operator Over `.unwrap()`", 0, [(U, 3)], basis="'Bad - panics on error' / 'Good - propagates error to caller'")
A("2. Use `.expect()` Only for Programming Errors", 0, basis="'Acceptable' (allow_expect default)", wrap=RSFN, unjudged=[(5, 7, "'Bad - runtime condition' is advice; .expect() is allowed by default")])
A("3. Add Context to Errors with `anyhow`", 0, basis="'Good - context explains what failed'", unjudged=[(3, 8, "'Bad - no context on failure' is advice")])
V("4. Use `unwrap_or_default()` for Collection Operations", 0, [(U, 2)], basis="'// Bad' / '// Good'", wrap=RSFN)
V("5. Handle `Option` with `if let` or `map`", 0, [(U, 2)], basis="'// Bad' / '// Good'", wrap=RSFN)
A("6. Allow `.unwrap()` in Tests", 0, basis="'.unwrap() is appropriate here' (allow_in_tests default)")
X("7. Document Intentional `.unwrap()` Usage", 0, IGN)
common_exclusions()

# ============================================================================ clone-abuse
page("clone-abuse", "clone-abuse", "clone-abuse.*", False)
L, CH, UN = "clone-abuse.clone-in-loop", "clone-abuse.clone-chain", "clone-abuse.unnecessary-clone"
V("What is Clone Abuse?", 0, [(L, 4)], basis="'Bad - Clone abuse' ('Cloning in a loop') / 'Good - Borrow instead of clone'")
V("Sub-Rule: `clone-abuse.clone-in-loop`", 0, [(L, 3)], basis="'Detected: clone inside for loop' + rule id comment", wrap=RSFN)
V("Sub-Rule: `clone-abuse.clone-chain`", 0, [(CH, 2)], basis="'Detected: chained clone calls' + rule id comment", wrap=RSFN)
V("Sub-Rule: `clone-abuse.unnecessary-clone`", 0, [(UN, 2)], basis="'Detected: original config not used after clone' + rule id comment", wrap=RSFN)
V("Example 1: Clone in Loop", 0, [(L, 4)], basis="'Code with violation' + message :4")
R("Example 1: Clone in Loop", 2, basis="'Refactored code'")
V("Example 2: Clone Chain", 0, [(CH, 2)], basis="'Code with violation' + message :2")
R("Example 2: Clone Chain", 2, basis="'Refactored code'")
V("Example 3: Unnecessary Clone", 0, [(UN, 2)], basis="'Code with violation' + message :2")
R("Example 3: Unnecessary Clone", 2, basis="'Refactored code'")
A("Example 4: Acceptable Contexts (No Violations)", 0, basis="'Acceptable Contexts (No Violations)'")
for p in ("Pattern 1: Borrow Instead of Clone", "Pattern 2: Use Rc/Arc for Shared Ownership", "Pattern 3: Use Cow for Clone-on-Write",
          "Pattern 4: Pass Ownership Directly (Move Semantics)", "Pattern 5: Collect References Instead of Owned Values",
          "Pattern 6: Use Iterator Adaptors", "Pattern 7: Accept Generic References"):
    X(p, 0, BEFORE)
    R(p, 1, basis="'After:'")
X("Common Issues", 0, "troubleshooting discussion ('Flagged unexpectedly'): verdict depends on configuration")
X("Common Issues", 3, "troubleshooting discussion of a false positive: verdict not stated")
A("1. Prefer Borrowing Over Cloning", 0, basis="'Good - borrows without allocation'", unjudged=[(1, 4, "'Bad' is API-design advice (no clone in it)")])
A("2. Use Smart Pointers for Shared Data", 0, basis="'Good - shared ownership via Arc'", wrap=RSFN)
V("3. Move Instead of Clone When Source is Unused", 0, [(UN, 2)], basis="'Bad - clone then discard original'", wrap=RSFN, part="a", files=[("src/example.rs", 1, 3)])
A("3. Move Instead of Clone When Source is Unused", 0, basis="'Good - move ownership' (kept apart from the Bad half: in one function the Good half would use `data` after the clone)", wrap=RSFN, part="b", files=[("src/example.rs", 5, 6)])
X("4. Use Cow for Conditional Mutation", 0, ADVICE)
common_exclusions()

# ============================================================================ blocking-async
page("blocking-async", "blocking-async", "blocking-async.*", False)
FS, SL, NT = "blocking-async.fs-in-async", "blocking-async.sleep-in-async", "blocking-async.net-in-async"
V("The Blocking-in-Async Problem", 0, [(FS, 5)], basis="'Dangerous - blocks the async runtime thread'")
A("Wrapper Function Exclusion", 0, basis="'Not flagged -- spawn_blocking correctly offloads'")
H1 = "Example 1: Blocking File I/O in Async (`blocking-async.fs-in-async`)"
V(H1, 0, [(FS, 5), (FS, 11)], basis="'Code with violation' + messages :5 :11")
R(H1, 2, basis="'Refactored code'")
H2 = "Example 2: Blocking Sleep in Async (`blocking-async.sleep-in-async`)"
V(H2, 0, [(SL, 14)], basis="'Code with violation' + message :14")
R(H2, 2, basis="'Refactored code'")
H3 = "Example 3: Blocking Network I/O in Async (`blocking-async.net-in-async`)"
V(H3, 0, [(NT, 6)], basis="'Code with violation' + message :6")
R(H3, 2, basis="'Refactored code'")
for p in ("Pattern 1: Replace `std::fs` with `tokio::fs`", "Pattern 2: Replace `std::thread::sleep` with `tokio::time::sleep`",
          "Pattern 3: Replace `std::net` with `tokio::net`", "Pattern 4: Use `spawn_blocking` for Unavoidable Blocking Work",
          "Pattern 5: Use Async Channels for Producer-Consumer Patterns", "Pattern 6: Use `tokio::time::interval` for Periodic Tasks"):
    X(p, 0, BEFORE)
    R(p, 1, basis="'After:'")
X("Common Issues", 0, "'May be flagged': verdict not stated")
A("Common Issues", 1, basis="'Solution -- keep blocking calls directly inside spawn_blocking'")
A("Common Issues", 2, basis="'Not flagged (sync function)'; 'The linter only inspects calls directly inside async function bodies'")
A("Common Issues", 3, basis="the documented way to wrap sync helpers")
X("Common Issues", 4, "'Flagged if not recognized as test': verdict not stated")
V("Common Issues", 6, [(FS, 4)], basis="'Issue: Custom async wrapper not recognized' (only asyncify/spawn_blocking/block_in_place are)")
X("Common Issues", 7, IGN)
A("1. Default to Async Alternatives", 0, basis="'Prefer tokio::fs over std::fs in async code'")
XH(r"Best Practices", ADVICE)
common_exclusions()

# ============================================================================ file-placement
page("file-placement", "file-placement", "file-placement*", False)
XH(r".", "the page has no example that couples a configuration and a path with a verdict in one block (C18 covers the rule semantics)")


# ================================================================================================== building


def find_fence(fences, heading, index):
    hits = [f for f in fences if (f.heading == heading or f.heading.endswith(" > " + heading)) and f.index == index]
    if len(hits) != 1:
        raise SystemExit(f"curation error: {heading!r} #{index} matches {len(hits)} fences")
    return hits[0]


def build_page(pg):
    text = open(os.path.join(DOCS, pg["doc"]), encoding="utf-8").read()
    fences = parse_fences(text)
    code_fences = [f for f in fences if f.lang in CODE_LANGS]
    used = set()
    entries = []
    for it in pg["items"]:
        f = find_fence(fences, it["heading"], it["index"])
        if f.lang not in CODE_LANGS:
            raise SystemExit(f"{pg['name']}: {it['heading']} #{it['index']} is a {f.lang!r} fence")
        used.add((f.heading, f.index))
        eid = f"{pg['name']}/{slug(f.heading)}/{f.index}" + (it.get("part") or "")
        base = {"id": eid, "linter": pg["name"], "doc": pg["doc"], "lang": f.lang, "role": it["role"],
                "fences": [{"heading": f.heading, "index": f.index, "code": f.code}]}
        if it["role"] == "excluded":
            base["reason"] = it["reason"]
            entries.append(base)
            continue
        nlines = len(f.code.split("\n"))
        ext = CODE_LANGS[f.lang]
        files = []
        completion = []
        if it.get("parts"):
            base["fences"] = []
            for k, (h, i, path) in enumerate(it["parts"]):
                ff = find_fence(fences, h, i)
                used.add((ff.heading, ff.index))
                base["fences"].append({"heading": ff.heading, "index": ff.index, "code": ff.code})
                files.append({"path": path, "fence": k, "lines": [1, len(ff.code.split("\n"))]})
        elif it.get("files"):
            for path, a, b in it["files"]:
                files.append({"path": path, "fence": 0, "lines": [a, b]})
        elif it.get("dup"):
            files.append({"path": "src/module_a" + ext, "fence": 0, "lines": [1, nlines]})
            files.append({"path": "src/module_b" + ext, "fence": 0, "lines": [1, nlines]})
            completion.append(it["dup"])
        else:
            files.append({"path": it.get("name") or ("src/example" + ext), "fence": 0, "lines": [1, nlines]})
        if it.get("wrap"):
            w = it["wrap"]
            for fl in files:
                fl.update({"pre": w["pre"], "indent": w["indent"], "post": w["post"]})
            completion.append(w["note"])
        if it.get("subst"):
            for fl in files:
                fl["subst"] = [list(s) for s in it["subst"]]
            completion.append(it["subst_note"])
        expect = []
        for o in it.get("occ", []):
            rule, lines = o[0], o[1]
            fi = o[2] if len(o) > 2 else 0
            if lines is None:
                expect.append({"rule": rule, "file": fi, "lines": None, "count": "1+"})
            else:
                expect.append({"rule": rule, "file": fi, "lines": [lines] if isinstance(lines, int) else list(lines)})
        unj = [{"file": 0, "lines": [a, b], "why": why} for a, b, why in it.get("unjudged", [])]
        if it.get("dup"):
            unj.append({"file": 1, "lines": None, "why": "second copy added by the completion; the page's message blocks show the first file only"})
        for fi, why in it.get("unjudged_files", []):
            unj.append({"file": fi, "lines": None, "why": why})
        base.update({
            "basis": it.get("basis", ""),
            "files": files,
            "completion": "; ".join(completion) or None,
            "config": it.get("config"),
            "cmd": pg["cmd"],
            "api": pg["api"],
            "family": pg["family"],
            "expect": expect,
            "unjudged": unj,
            "embed": bool(pg["pattern"]),
            "scopes": it.get("scopes"),
        })
        # sanity: expected lines exist in their file slice
        for e in expect:
            fl = files[e["file"]]
            for ln in e["lines"] or []:
                if not (fl["lines"][0] <= ln <= fl["lines"][1]):
                    raise SystemExit(f"{eid}: expected line {ln} outside slice {fl['lines']}")
        entries.append(base)
    for f in code_fences:
        if (f.heading, f.index) in used:
            continue
        for rx, reason in pg["xh"]:
            if rx.search(f.heading):
                entries.append({"id": f"{pg['name']}/{slug(f.heading)}/{f.index}", "linter": pg["name"], "doc": pg["doc"], "lang": f.lang,
                                "role": "excluded", "reason": reason, "fences": [{"heading": f.heading, "index": f.index, "code": f.code}]})
                break
        else:
            raise SystemExit(f"{pg['name']}: uncurated code fence [{f.heading}] #{f.index} (line {f.line})")
    ids = [e["id"] for e in entries]
    dup = {i for i in ids if ids.count(i) > 1}
    if dup:
        raise SystemExit(f"duplicate ids {dup}")
    return {"page": pg["name"], "doc": pg["doc"], "doc_sha256": hashlib.sha256(text.encode()).hexdigest(), "pattern_linter": pg["pattern"],
            "non_code_fences_not_listed": len(fences) - len(code_fences), "entries": entries}


def main():
    os.makedirs(OUT, exist_ok=True)
    review = "--review" in sys.argv
    docs = {os.path.basename(p) for p in glob.glob(os.path.join(DOCS, "*-linter.md"))}
    missing = docs - {pg["doc"] for pg in PAGES.values()}
    if missing:
        raise SystemExit(f"pages without curation: {missing}")
    tot = {}
    for name, pg in PAGES.items():
        doc = build_page(pg)
        with open(os.path.join(OUT, f"{name}.json"), "w", encoding="utf-8") as fh:
            json.dump(doc, fh, indent=1, ensure_ascii=False)
            fh.write("\n")
        for e in doc["entries"]:
            tot[e["role"]] = tot.get(e["role"], 0) + 1
            if review and e["role"] != "excluded":
                print(f"--- {e['id']} [{e['role']}] {e['basis']}")
                for x in e["expect"]:
                    fl = e["files"][x["file"]]
                    code = e["fences"][fl["fence"]]["code"].split("\n")
                    for ln in x["lines"] or []:
                        print(f"      {x['rule']} @{ln}: {code[ln - 1].strip()[:90]}")
        print(name, {r: sum(1 for e in doc["entries"] if e["role"] == r) for r in ("violating", "acceptable", "refactored", "excluded")})
    print("total", tot)


if __name__ == "__main__":
    main()
