#!/usr/bin/env python3
"""Regenerate the generated parts of DESIGN.md (between `<!-- gen:NAME -->` and `<!-- /gen:NAME -->` markers):
fixes (git log of /repo), known (known_findings.json), seeded (seeded/*/meta.json). usage: tools/design_tables.py"""
import glob
import json
import os
import re
import subprocess

ROOT = os.path.dirname(os.path.dirname(os.path.abspath(__file__)))


def fixes():
    log = subprocess.run(["git", "-C", "/repo", "log", "--reverse", "--format=%h %s"], capture_output=True, text=True).stdout.splitlines()
    rows = [ln for ln in log if ln.split(" ", 1)[1].startswith("fix:")]
    return f"{len(rows)} `fix:` commits, oldest first:\n\n```\n" + "\n".join(rows) + "\n```\n"


def known():
    d = json.load(open(os.path.join(ROOT, "known_findings.json")))
    out = [f"{len(d['findings'])} entries:\n", "| property | signature | what fails |", "|---|---|---|"]
    for f in sorted(d["findings"], key=lambda f: (f["property"], f["signature"])):
        what = re.sub(r"\s+", " ", f.get("what", "")).replace("|", "\\|")
        out.append(f"| {f['property']} | `{f['signature'].replace('|', chr(92) + '|')}` | {what[:330]} |")
    return "\n".join(out) + "\n"


def seeded():
    out = ["| seeded change | what was broken (seeder's summary, shortened) | needs | demo ok / patched | suite | check result | first signatures |", "|---|---|---|---|---|---|---|"]
    for p in sorted(glob.glob(os.path.join(ROOT, "seeded", "*", "meta.json"))):
        name = os.path.basename(os.path.dirname(p))
        m = json.load(open(p))
        v = m.get("verified_by_lead", {})
        pid = name.split("-")[0]
        ck = v.get(f"check_{pid}", {})
        summ = re.sub(r"\s+", " ", str(m.get("summary", ""))).replace("|", "\\|")[:260]
        need = re.sub(r"\s+", " ", str(m.get("needs_to_manifest", ""))).replace("|", "\\|")[:200]
        sigs = "; ".join(s.replace("|", "\\|")[:70] for s in ck.get("signatures", [])[:2])
        out.append(f"| {name} | {summ} | {need} | {v.get('demo_unchanged_exit')} / {v.get('demo_patched_exit')} | {'green' if v.get('baseline_exit') == 0 else v.get('baseline_exit')} | "
                   f"{'**caught**' if ck.get('caught') else 'MISSED'} (exit {ck.get('exit')}, {ck.get('wall_s')} s) | {sigs} |")
    return "\n".join(out) + "\n"


def main():
    p = os.path.join(ROOT, "DESIGN.md")
    s = open(p).read()
    for name, fn in (("fixes", fixes), ("known", known), ("seeded", seeded)):
        rx = re.compile(rf"(<!-- gen:{name} -->\n).*?(<!-- /gen:{name} -->)", re.S)
        if rx.search(s):
            body = fn()
            s = rx.sub(lambda m: m.group(1) + body + m.group(2), s)
    open(p, "w").write(s)


if __name__ == "__main__":
    main()
