#!/usr/bin/env python3
"""Regenerate the generated parts of DESIGN.md (between `<!-- gen:NAME -->` and `<!-- /gen:NAME -->` markers):
fixes (git log of /repo), known (known_findings.json), seeded (seeded/*/meta.json). usage: tools/design_tables.py"""
import glob
import json
import os
import re
import subprocess

ROOT = os.path.dirname(os.path.dirname(os.path.abspath(__file__)))


def fixes():
    log = subprocess.run(["git", "-C", "/repo", "log", "--reverse", "--format=%h %s"], capture_output=True, text=True).stdout.splitlines()
    rows = [ln for ln in log if ln.split(" ", 1)[1].startswith("fix:")]
    return f"{len(rows)} `fix:` commits, oldest first:\n\n```\n" + "\n".join(rows) + "\n```\n"


def known():
    d = json.load(open(os.path.join(ROOT, "known_findings.json")))
    out = [f"{len(d['findings'])} entries:\n", "| property | signature | what fails |", "|---|---|---|"]
    for f in sorted(d["findings"], key=lambda f: (f["property"], f["signature"])):
        what = re.sub(r"\s+", " ", f.get("what", "")).replace("|", "\\|")
        out.append(f"| {f['property']} | `{f['signature'].replace('|', chr(92) + '|')}` | {what[:330]} |")
    return "\n".join(out) + "\n"


def seeded():
    out = ["| seeded change | what was broken (seeder's summary, shortened) | needs | demo ok / patched | suite | check result | first signatures |", "|---|---|---|---|---|---|---|"]
    for p in sorted(glob.glob(os.path.join(ROOT, "seeded", "*", "meta.json"))):
        name = os.path.basename(os.path.dirname(p))
        m = json.load(open(p))
        v = m.get("verified_by_lead", {})
        pid = name.split("-")[0]
        ck = v.get(f"check_{pid}", {})
        summ = re.sub(r"\s+", " ", str(m.get("summary", ""))).replace("|", "\\|")[:260]
        need = re.sub(r"\s+", " ", str(m.get("needs_to_manifest", ""))).replace("|", "\\|")[:200]
        sigs = "; ".join(s.replace("|", "\\|")[:70] for s in ck.get("signatures", [])[:2])
        out.append(f"| {name} | {summ} | {need} | {v.get('demo_unchanged_exit')} / {v.get('demo_patched_exit')} | {'green' if v.get('baseline_exit') == 0 else v.get('baseline_exit')} | "
                   f"{'**caught**' if ck.get('caught') else 'MISSED'} (exit {ck.get('exit')}, {ck.get('wall_s')} s)"
                   + (" -> **caught** after strengthening" if m.get("after_strengthening", {}).get("caught") and not ck.get("caught") else "") + f" | "
                   + (sigs or "; ".join(x.replace("|", "\\|")[:70] for x in m.get("after_strengthening", {}).get("signatures", [])[:2])) + " |")
    return "\n".join(out) + "\n"


def _jsonl(name):
    p = os.path.join(ROOT, "notes", name)
    if not os.path.exists(p):
        return []
    rows = {}
    for ln in open(p):
        if ln.strip():
            r = json.loads(ln)
            rows[r.get("commit") or r.get("mutant")] = r  # last run wins
    return list(rows.values())


def reverts():
    out = ["| reverted commit | check | result | first signatures |", "|---|---|---|---|"]
    n = c = 0
    for r in _jsonl("revert_fix.jsonl"):
        if r.get("revert") != "clean":
            why = r["revert"] if str(r.get("revert", "")).startswith("unusable") else "revert does not apply cleanly (later commits build on it)"
            out.append(f"| {r['commit']} {r['subject'][5:75]} | - | {why} | |")
            continue
        for k, v in r.items():
            if not (k.startswith("C") and isinstance(v, dict)):
                continue
            n += 1
            c += bool(v.get("caught"))
            sigs = "; ".join(x.replace("|", "\\|")[:60] for x in v.get("signatures", [])[:2])
            out.append(f"| {r['commit']} {r['subject'][5:75]} | {k} | {'**caught**' if v.get('caught') else 'MISSED'} (exit {v.get('exit')}, {v.get('wall_s')} s) | {sigs} |")
    return f"{c} of {n} (commit, check) pairs caught by the generated search alone:\n\n" + "\n".join(out) + "\n"


def leadmut():
    out = ["| mutant | check | change | result | first signatures |", "|---|---|---|---|---|"]
    for r in _jsonl("lead_mutants.jsonl"):
        sigs = "; ".join(x.replace("|", "\\|")[:60] for x in r.get("signatures", [])[:2])
        chg = (r["old"].strip().replace("\n", " ")[:60] + " -> " + (r["new"].strip().replace("\n", " ")[:60] or "(removed)")).replace("|", "\\|")
        out.append(f"| {r['mutant']} | {r['check']} | `{r['file']}`: `{chg}` | {'**caught**' if r.get('caught') else 'MISSED'} (exit {r.get('exit')}, {r.get('wall_s')} s) | {sigs} |")
    return "\n".join(out) + "\n"


def main():
    p = os.path.join(ROOT, "DESIGN.md")
    s = open(p).read()
    for name, fn in (("fixes", fixes), ("known", known), ("seeded", seeded), ("reverts", reverts), ("leadmut", leadmut)):
        rx = re.compile(rf"(<!-- gen:{name} -->\n).*?(<!-- /gen:{name} -->)", re.S)
        if rx.search(s):
            body = fn()
            s = rx.sub(lambda m: m.group(1) + body + m.group(2), s)
    open(p, "w").write(s)


if __name__ == "__main__":
    main()
