#!/venv/bin/python
"""(Re)generate known/C13.json and replays/C13/known-*.json: one minimal replay per recorded signature.

Every entry is produced by running the real check on a small hand-written case and is only written when the case
really yields that signature on the current tree - a signature that no longer reproduces is reported and skipped
(that is how a repaired defect drops out of the list). Run from anywhere: /venv/bin/python /verif/tools/c13_make_known.py
"""
import itertools
import json
import os
import sys

sys.path.insert(0, "/verif")
sys.path.insert(0, os.environ.get("VERIF_REPO", "/repo"))
from vf import runner, seeds  # noqa: E402

runner.init()
from vf.props import c13  # noqa: E402

LAY = {"crlf": False, "bom": False, "no_final_nl": False}
BOM_WHAT = ("a UTF-8 BOM is not stripped when a file is read (read_text(encoding='utf-8')): a Python file that starts with a BOM no longer parses "
            "(ast: 'invalid non-printable character U+FEFF'), so every AST-based finding in it disappears and nesting/srp/perf print a syntax-error "
            "notice instead; minimal input: any .py file with a finding, prefixed with EF BB BF")
SRP_WHAT = ("TypeScript/JavaScript SRP counts the physical span of the class as LOC (end_line - start_line + 1) although docs/srp-linter.md says "
            "'lines of code (excluding blank lines and comments)' and Python/Rust do exclude them: inserting a blank or comment line inside a class "
            "at srp.max_loc flips the verdict / changes the quoted count; minimal input: 6-line class, max_loc 6, one blank line added")
DRY_WHAT = ("DRY overlap filtering (ViolationFilter._overlaps) measures the EARLIER block with the LATER block's line count, and a block's count is "
            "its physical span: a blank/comment line inside a duplicated run of >= 5 statements makes an overlapping window appear as an "
            "additional finding (or an existing one vanish); minimal input: seeds.dry_set, one blank line after the first statement of the run in one copy")


def single(lang, parts, cmds, edits, layout=None):
    return {"kind": "single", "lang": lang, "parts": parts, "gap": 1, "layout": dict(layout or LAY), "cmds": cmds, "edits": edits}


def fileset(kind, lang, n, cmds, edits):
    return {"kind": kind, "lang": lang, "nfiles": n, "fill": False, "layout": dict(LAY), "cmds": cmds, "edits": edits}


def candidates():
    """yield (signature, what, [candidate cases])"""
    for fam in seeds.families("py"):
        rule, cmd = seeds.FAMILY_RULE[fam], seeds.FAMILY_CMD[fam]
        if fam == "lazy":
            continue
        yield f"bom|py|{rule}|lost", BOM_WHAT, [single("py", [{"fam": fam, "var": 0}], [cmd], [{"k": "bom", "f": 0}])]
    yield "bom|py|syntax-error-notice|gained", BOM_WHAT, [single("py", [{"fam": "srp", "var": 0}], ["srp"], [{"k": "bom", "f": 0}])]
    st = fileset("stringly", "py", 3, ["stringly-typed"], [{"k": "bom", "f": 0}])
    yield "bom|py|stringly-typed.repeated-validation|lost", BOM_WHAT + " (the file drops out of the cross-file pattern)", [st]
    yield "bom|py|stringly-typed.repeated-validation|message-changed", BOM_WHAT + " (the other files' messages count one file less)", [st]
    yield ("bom|py|dry.duplicate-code|gained", BOM_WHAT + " (docstring removal needs the AST, so the header docstrings of two BOM files are compared as code)",
           [fileset("dry", "py", 2, ["dry"], [{"k": "bom", "f": 0}, {"k": "bom", "f": 1}])])
    yield ("bom|py|dry.duplicate-code|message-changed", BOM_WHAT + " (a third BOM file joins the header-docstring 'duplicate': '2 occurrences' becomes '3 occurrences')",
           [fileset("dry", "py", 3, ["dry"], [{"k": "bom", "f": 0}, {"k": "bom", "f": 1}, {"k": "bom", "f": 2}])])
    for lang in ("ts", "js"):
        for k in ("blank", "comment"):
            for kind, d in (("gained", 0), ("message-changed", -1)):
                yield (f"{k}|{lang}|srp.violation|{kind}", SRP_WHAT,
                       [single(lang, [{"fam": "srploc", "var": 0, "d": d}], ["srp"], [{"k": k, "f": 0, "near": 0, "off": 2, "n": 0, "w": 0, "t": 0, "ind": 1}])])
    for lang in ("py", "ts", "js"):
        for k in ("blank", "comment"):
            e1 = {"k": k, "f": 1, "near": 0, "off": 1, "n": 0, "w": 0, "t": 0, "ind": 1}
            yield f"{k}|{lang}|dry.duplicate-code|gained-overlapping-window", DRY_WHAT, [fileset("dry", lang, 2, ["dry"], [e1])]
            cands = []
            for off1, off2, n in itertools.product(range(1, 4), range(1, 7), range(0, 3)):
                cands.append(fileset("dry", lang, 2, ["dry"], [{**e1, "k": "blank", "off": off1}, {**e1, "off": off2, "n": n}]))
            yield f"{k}|{lang}|dry.duplicate-code|lost-overlapping-window", DRY_WHAT, cands


def main():
    findings, missing = [], []
    os.makedirs("/verif/replays/C13", exist_ok=True)
    os.makedirs("/verif/known", exist_ok=True)
    for sig, what, cases in candidates():
        hit = None
        for case in cases:
            res = c13.check(case)
            for f in res.failures:
                if f.sig == sig:
                    hit = (case, f)
                    break
            if hit:
                break
        if not hit:
            missing.append(sig)
            continue
        slug = sig.replace("|", "-").replace(".", "_")
        rel = f"replays/C13/known-{slug}.json"
        with open(os.path.join("/verif", rel), "w") as fh:
            json.dump({"property": "C13", "signature": sig, "detail": hit[1].detail, "case": hit[0]}, fh, indent=1, default=str)
        findings.append({"property": "C13", "signature": sig, "what": f"[{sig}] {what}", "replay": rel})
    with open("/verif/known/C13.json", "w") as fh:
        json.dump({"findings": findings}, fh, indent=1)
    print(f"{len(findings)} known findings written; not reproducible now: {missing}")


if __name__ == "__main__":
    main()
