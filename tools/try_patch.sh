#!/bin/bash
# usage: tools/try_patch.sh <patch.diff> <CHECK> [tier]  - run one check against a scratch worktree of /repo with the patch applied
wt=$(mktemp -d -u /tmp/wt-try-XXXXXX)
git -C /repo worktree add -q --detach "$wt" || exit 2
git -C "$wt" apply "$1" || { git -C /repo worktree remove --force "$wt"; exit 2; }
cd "$(dirname "$0")/.."
VERIF_REPO="$wt" VERIF_NO_EVIDENCE=1 ./check "$2" --tier "${3:-quick}" 2>&1 | grep -v "^KNOWN-FINDING" | cut -c1-600 | tail -${TAIL:-12}
git -C /repo worktree remove --force "$wt"; rm -rf "$wt"
