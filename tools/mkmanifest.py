#!/usr/bin/env python3
"""Regenerate MANIFEST.json from the property modules present in vf/props (run from /verif)."""
import importlib, json, os, sys, re

HERE = os.path.dirname(os.path.dirname(os.path.abspath(__file__)))
sys.path.insert(0, HERE)
props = [json.loads(l) for l in open(os.path.join(HERE, "properties.jsonl"))]
NOT_YET = "check not built yet in this round (planned in DESIGN.md section 3; property-based testing applies)"
NA_REASONS = {}
checks, na = [], []
for p in props:
    pid = p["id"]
    path = os.path.join(HERE, "vf", "props", pid.lower() + ".py")
    ready = open(os.path.join(HERE, "tools", "ready.txt")).read().split()
    if not os.path.exists(path) or pid not in ready:
        na.append({"property_id": pid, "reason": NA_REASONS.get(pid, NOT_YET)})
        continue
    src = open(path).read()
    def const(name):
        m = re.search(rf'^{name}\s*=\s*(\(.*?\)|".*?")\s*$', src, re.S | re.M)
        return eval(m.group(1)) if m else ""
    tech = const("TECHNIQUE")
    level = const("LEVEL_TEXT") or ("Exploration by generated-input search against an explicit oracle: held on every generated case; "
                                    "absence of violations is not shown beyond the explored cases. " + tech)
    note = const("LEVEL_NOTE") or ("Trusted base: the reference model / oracle in vf/props/%s.py, Hypothesis, the in-process CLI runner "
                                   "(cross-checked against real subprocess runs). Known findings in known_findings.json are excluded by exact signature." % pid.lower())
    checks.append({
        "property_id": pid,
        "quick_cmd": f"./check {pid} --tier quick",
        "thorough_cmd": f"./check {pid} --tier thorough",
        "evidence_file": f"evidence/{pid}.json",
        "replay_cmd_template": f"./check {pid} --replay {{path}}",
        "engine": "vf",
        "level_claimed": {"category": "exploration", "text": level, "design_ref": f"DESIGN.md section 3 {pid}"},
        "level_note": note,
        "technique": tech,
    })
man = {
    "version": 1,
    "setup_cmd": "./setup.sh",
    "hooks": {
        "guard": "THAILINT_VERIF",
        "enable": "export THAILINT_VERIF=1 (and THAILINT_VERIF_FAILLOG=<file>); pure Python, no build step - checks import /repo's working tree directly",
        "baseline_off_cmd": "/venv/bin/python tools/baseline.py",
        "source_commits": ["f420c0b"],
        "add_only": True,
    },
    "engines": [{
        "name": "vf",
        "path": "vf/engine.py",
        "serves_properties": [c["property_id"] for c in checks],
        "kind_free_text": "Hypothesis-driven property-based testing harness: 16 shard processes, generated cases as JSON data, explicit oracles per property, shrinking to replay files, known-finding signatures",
    }],
    "checks": checks,
    "not_applicable": na,
    "notes": "All checks run /repo's current working tree in place (PYTHONPATH=/repo). VERIF_SEED and VERIF_TIER are honoured. exit 0 held, 1 VIOLATION, 2 harness error.",
}
json.dump(man, open(os.path.join(HERE, "MANIFEST.json"), "w"), indent=1)
print("checks:", [c["property_id"] for c in checks], "n/a:", len(na))
