#!/usr/bin/env python3
"""Confirm a seeded defect and run the property's check against it.
usage: tools/verify_seed.py C03 [extra check ids...]
Steps: fresh worktree of /repo HEAD -> demo exits 0 -> apply patch -> demo exits 1 -> baseline suite still green ->
`VERIF_REPO=<worktree> ./check <id>` (expected exit 1). Results are written to seeded/<id>/meta.json; worktree removed."""
import json, os, shutil, subprocess, sys, time

pid = sys.argv[1]
rnd = ""
args = sys.argv[2:]
if "--round" in args:
    i = args.index("--round")
    rnd = args[i + 1]
    del args[i:i + 2]
checks = [pid] + args
src = f"/tmp/seed{rnd}-{pid}"
dst = f"/verif/seeded/{pid}" + (f"-{rnd}" if rnd else "")
os.makedirs(dst, exist_ok=True)
for f in ("patch.diff", "demo.py", "meta.json"):
    if os.path.exists(os.path.join(src, f)):
        shutil.copy(os.path.join(src, f), os.path.join(dst, f))
wt = f"/tmp/vs{rnd}-{pid}"
subprocess.run(["git", "-C", "/repo", "worktree", "remove", "--force", wt], capture_output=True)
subprocess.run(["git", "-C", "/repo", "worktree", "add", "-q", "--detach", wt], check=True)
res = {"repo_head": subprocess.run(["git", "-C", "/repo", "rev-parse", "--short", "HEAD"], capture_output=True, text=True).stdout.strip()}
try:
    env = dict(os.environ, PYTHONPATH=wt)
    demo = os.path.join(dst, "demo.py")
    r0 = subprocess.run(["/venv/bin/python", demo], cwd=wt, env=env, capture_output=True, text=True, timeout=900)
    res["demo_unchanged_exit"] = r0.returncode
    a = subprocess.run(["git", "-C", wt, "apply", os.path.join(dst, "patch.diff")], capture_output=True, text=True)
    res["patch_applies"] = a.returncode == 0
    if a.returncode:
        res["apply_error"] = a.stderr[-500:]
    else:
        r1 = subprocess.run(["/venv/bin/python", demo], cwd=wt, env=env, capture_output=True, text=True, timeout=900)
        res["demo_patched_exit"] = r1.returncode
        res["demo_patched_output"] = (r1.stdout + r1.stderr)[-600:]
        b = subprocess.run(["/venv/bin/python", "/verif/tools/baseline.py", wt], capture_output=True, text=True, timeout=1800)
        res["baseline_exit"] = b.returncode
        res["baseline_tail"] = b.stdout[-300:]
        for c in checks:
            t0 = time.time()
            envc = dict(os.environ, VERIF_REPO=wt, VERIF_NO_EVIDENCE="1")
            k = subprocess.run(["./check", c], cwd="/verif", env=envc, capture_output=True, text=True, timeout=3600)
            sigs = [l.strip().replace("signature: ", "") for l in k.stdout.splitlines() if "signature:" in l]
            res[f"check_{c}"] = {"exit": k.returncode, "caught": k.returncode == 1, "signatures": sigs[:8], "wall_s": round(time.time() - t0)}
finally:
    subprocess.run(["git", "-C", "/repo", "worktree", "remove", "--force", wt], capture_output=True)
    shutil.rmtree(wt, ignore_errors=True)
meta_p = os.path.join(dst, "meta.json")
try:
    meta = json.load(open(meta_p))
except Exception:
    meta = {"property": pid}
meta["verified_by_lead"] = res
json.dump(meta, open(meta_p, "w"), indent=1)
ok = res.get("demo_unchanged_exit") == 0 and res.get("demo_patched_exit") == 1 and res.get("baseline_exit") == 0
print(pid, "CONFIRMED" if ok else "NOT-CONFIRMED", {k: (v if not isinstance(v, str) else v[:80]) for k, v in res.items() if k.startswith(("demo_unch", "demo_patched_exit", "baseline_exit", "check_", "patch_applies"))})
