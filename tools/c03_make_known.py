import sys, json, os
sys.path.insert(0, "/verif")
from vf import runner
runner.init()
from vf.props import c03

def fn(items, hdr=True): return {"hdr": hdr, "items": items}
def fl(funcs, cls=False): return {"dir": False, "ext": 0, "cls": cls, "eol": False, "funcs": funcs}
def run(r, n, nest=0, split=0, cs=0, deco=(0,), a=0, rep=1): return {"k": "run", "r": r, "a": a, "n": n, "nest": nest, "split": split, "rep": rep, "cs": cs, "deco": list(deco)}
def case(lang, runs, files, d=2, o=2): return {"lang": lang, "d": d, "o": o, "runs": runs, "files": files, "storage": "memory", "d_via": "config", "o_via": "global", "paths": "dot"}

def near(lang, k, cls=False):
    return case(lang, [[[0, 0], [k, 0]], [[0, 0], [k, 1]]], [fl([fn([run(0, 2)])], cls), fl([fn([run(1, 2)])], cls)])

K = {
 "cut:py-floor-division": ("py-floor-division", near("py", 100),
    "Python floor division is cut off as a '//' comment: `v0 = fn0(a0, 2); v100 = a100 // 2` and `...; v100 = a100 // 3` in two files are reported as a 2-line duplicate although the statements differ (token_hasher._strip_comments)"),
 "cut:hash-in-string": ("hash-in-string", near("ts", 101),
    "a '#' inside a string literal is treated as a comment start: `v101 = g101(\"x#0\");` and `v101 = g101(\"x#1\");` normalise equal and are reported as duplicates (py and ts/js)"),
 "cut:slashes-in-string": ("slashes-in-string", near("py", 102),
    "a '//' inside a string literal is treated as a comment start: `g102('http://h0')` and `g102('http://h1')` normalise equal and are reported as duplicates (py and ts/js)"),
 "cut:ts-hash-name": ("ts-hash-name", near("ts", 103, cls=True),
    "TypeScript/JavaScript private names are cut at '#': `this.#p0 = a103;` and `this.#p1 = a103;` both normalise to `this.` and are reported as duplicates"),
 "block-comment-kept": ("block-comment-kept", case("ts", [[[0, 0], [1, 0]]], [fl([fn([run(0, 2)])]), fl([fn([run(0, 2, cs=1, deco=(2,))])])]),
    "ts/js `/* ... */` comments are not removed (only //, # and whole-line JSDoc are): two identical 2-statement runs, one with `/* note */` lines interleaved (or a trailing /* */), are not reported and occurrence counts exclude such places"),
 "lone-brace-dropped": ("lone-brace-dropped", case("ts", [[[0, 0], [1, 0]]], [fl([fn([run(0, 2, nest=1, split=1)])]), fl([fn([run(0, 2)])])]),
    "ts/js lines consisting of `}` (or `{`) are dropped as 'import tokens', so `if (c) {` s1 `}` s2 is reported as a duplicate of s1 s2: the reported 3-line block (s1, }, s2) is not line-for-line identical to the 2-line location"),
 "overlap-filter-later-span": ("overlap-filter-later-span", case("py", [[[0, 0], [1, 0], [2, 0], [3, 0]]], [fl([fn([run(0, 4), {"k": "fill"}, run(0, 4, deco=(0, 0, 0, 1))], hdr=False)]), fl([fn([], hdr=False)])]),
    "ViolationFilter._overlaps measures the earlier block with the LATER block's line count: a duplicate at lines 8-10 (3 physical lines because of a blank line) is dropped as overlapping the reported block 6-7, so the place named by 'Also found in: m0.py:8-10' has no violation and is not covered"),
 "two-stage-overlap-gap": ("two-stage-overlap-gap", case("py", [[[0, 0], [1, 0]]], [fl([fn([run(0, 2, rep=3), {"k": "fill"}, run(0, 2, rep=2)], hdr=False)]), fl([fn([], hdr=False)])], d=3),
    "overlapping windows are removed twice (inside each group of equal windows, then per file across groups), so periodic code loses findings: with min_duplicate_lines 3, `a b a b a b` + filler + `a b a b` reports only lines 1-3 and 8-10; the block b a b at lines 4-6 (duplicated at 9-11) is covered by no violation"),
}
findings = []
for name, (slug, c, what) in K.items():
    res = c03.check(c)
    sigs = sorted({f.sig for f in res.failures})
    print(name, sigs)
    assert sigs == [f"dev:{name}"], sigs
    det = dict(res.failures[0].detail)
    rel = f"replays/C03/known-{slug}.json"
    json.dump({"property": "C03", "signature": f"dev:{name}", "detail": det, "case": c}, open(os.path.join("/verif", rel), "w"), indent=1, default=str)
    findings.append({"property": "C03", "signature": f"dev:{name}", "what": what, "replay": rel})
json.dump({"findings": findings}, open("/verif/known/C03.json", "w"), indent=1)
