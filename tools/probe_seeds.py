"""Validate every seed alone against the tool: which seeds fire as planted?"""
import sys, os, json
sys.path.insert(0, "/verif"); sys.path.insert(0, "/repo")
from vf import runner, seeds
from vf.project import Project
runner.init()
ALLCMDS = sorted(set(seeds.FAMILY_CMD.values()) | {"dry", "stringly-typed", "file-header", "file-placement"})
for lang in ("py", "ts", "js", "rs"):
    for fam in seeds.families(lang):
        for var in range(3):
            s = seeds.seed(fam, lang, 7, var)
            text, exp, spans = seeds.compose(lang, [seeds.filler(lang, 1), s, seeds.filler(lang, 2)])
            with Project({"m" + seeds.EXT[lang]: text}, config={"dry": {"enabled": True}}) as p:
                got = {}
                for cmd in ALLCMDS:
                    r = runner.run_cli([cmd, "--format", "json", "."], cwd=p.root)
                    if r.exit not in (0, 1): print("EXIT", cmd, r.exit, r.stderr[-200:]); continue
                    for v in r.violations:
                        got.setdefault((v["rule_id"], v["line"]), 0); got[(v["rule_id"], v["line"])] += 1
                ok = all(got.get(e) == 1 for e in exp)
                extra = {k: v for k, v in got.items() if k not in exp}
                print(lang, fam, var, "OK" if ok and not extra else "??", "exp", exp, "extra", extra if extra else "", "" if ok else f"GOT {got}")
for lang in ("py", "ts", "js"):
    for name, fs, cmd in (("dry", seeds.dry_set(lang, 3, 2), "dry"), ("stringly", seeds.stringly_set(lang, 3, 2), "stringly-typed")):
        with Project(fs, config={"dry": {"enabled": True}}) as p:
            for c in ALLCMDS:
                r = runner.run_cli([c, "--format", "json", "."], cwd=p.root)
                for v in r.violations:
                    print(lang, name, c, v["rule_id"], v["file_path"], v["line"], v["message"][:100])
