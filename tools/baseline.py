#!/venv/bin/python
"""Run the repository's pinned baseline suite with the verification guard OFF and compare with BASELINE.json."""
import ast, json, os, subprocess, sys, tempfile
import xml.etree.ElementTree as ET

base = json.load(open("/root/.vp/BASELINE.json"))
stable = base["stable_pass"]
if isinstance(stable, str):
    stable = ast.literal_eval(stable)
stable = set(stable)
fd, junit = tempfile.mkstemp(suffix=".xml")
os.close(fd)
env = {k: v for k, v in os.environ.items() if not k.startswith("THAILINT_VERIF")}
cmd = ["/venv/bin/python", "-m", "pytest", "-ra", "-q", "-p", "no:cacheprovider", "--timeout=900",
       "--continue-on-collection-errors", f"--junitxml={junit}"]
repo = sys.argv[1] if len(sys.argv) > 1 else "/repo"
p = subprocess.run(cmd, cwd=repo, env=env, capture_output=True, text=True)
print(p.stdout[-1500:])
passed = set()
for tc in ET.parse(junit).getroot().iter("testcase"):
    if not any(ch.tag in ("failure", "error", "skipped") for ch in tc):
        passed.add(f"{tc.get('classname')}::{tc.get('name')}")
os.unlink(junit)
missing = sorted(stable - passed)
print(f"baseline: {len(stable)} stable tests, {len(stable & passed)} pass now, {len(missing)} missing")
for m in missing[:40]:
    print("  MISSING", m)
sys.exit(1 if missing else 0)
