"""C11: a "syntax zoo" per language and the literal re-typing mutator.

ZOO[lang] is valid code with the constructs the cross-file and pattern analysers look at (membership tests, equality
chains, string matches, calls with string arguments, comprehensions, lambdas, async, walrus, properties, enums,
generics, private fields ...). `retype` swaps ONE literal in a file for a literal / expression of another type, which
usually keeps the file valid: the analysers then meet values they did not expect in places they do analyse
(`x in ("a", None)`, `case 1.5:`, `go(env, [])`).
"""
from __future__ import annotations

import re

ZOO = {}

ZOO["py"] = '''
def gate_zoo(env_zoo, *rest_zoo, key_zoo=None, **opts_zoo):
    if env_zoo in ("stage", "prod", "dev"):
        return go_zoo(env_zoo, "fast")
    if env_zoo == "alpha" or env_zoo == "beta":
        return go_zoo(env_zoo, "slow")
    if env_zoo not in {"left", "right"}:
        return None
    match env_zoo:
        case "one":
            return 1
        case "two" | "three":
            return 2
    return [w_zoo for w_zoo in rest_zoo if w_zoo in ("stage", "prod", "dev")]


class Zoo:
    kind_zoo: str = "plain"

    def __init__(self):
        self.mode_zoo = "idle"
        self.table_zoo = {"red": 1, "green": 2}

    @property
    def label_zoo(self):
        return self.kind_zoo

    def step_zoo(self):
        if self.mode_zoo == "idle":
            self.mode_zoo = "busy"
        elif self.mode_zoo == "busy":
            self.mode_zoo = "idle"
        if "red" in self.table_zoo:
            shade_zoo = self.table_zoo["red"]
        return (lambda q_zoo: q_zoo)(self.mode_zoo)


async def pull_zoo(src_zoo):
    async with src_zoo as h_zoo:
        async for item_zoo in h_zoo:
            yield f"{item_zoo!r:>10}"
    if (n_zoo := len(src_zoo)) > 10:
        print(n_zoo)
'''

ZOO["ts"] = '''
function gateZoo(envZoo: string, ...restZoo: string[]): number | null {
    if (["stage", "prod", "dev"].includes(envZoo)) {
        return goZoo(envZoo, "fast");
    }
    if (envZoo === "alpha" || envZoo === "beta") {
        return goZoo(envZoo, "slow");
    }
    switch (envZoo) {
        case "one":
            return 1;
        case "two":
        case "three":
            return 2;
    }
    const pickedZoo = restZoo.filter((wZoo) => wZoo === "stage" || wZoo === "prod");
    return pickedZoo.length > 3 ? null : pickedZoo?.[0]?.length ?? 0;
}

enum ShadeZoo { Red = "red", Green = "green" }

class ZooBox<T extends object> {
    private modeZoo: "idle" | "busy" = "idle";
    constructor(private readonly itemsZoo: T[]) {}
    get labelZoo(): string { return `${this.modeZoo}:${this.itemsZoo.length}`; }
    async *pullZoo(): AsyncGenerator<T> {
        for await (const itemZoo of this.itemsZoo) {
            yield itemZoo;
        }
    }
}
'''

ZOO["js"] = '''
function gateZoo(envZoo, ...restZoo) {
    if (["stage", "prod", "dev"].includes(envZoo)) {
        return goZoo(envZoo, "fast");
    }
    if (envZoo === "alpha" || envZoo === "beta") {
        return goZoo(envZoo, "slow");
    }
    switch (envZoo) {
        case "one":
            return 1;
        case "two":
        case "three":
            return 2;
    }
    const pickedZoo = restZoo.filter((wZoo) => wZoo === "stage" || wZoo === "prod");
    return pickedZoo.length > 3 ? null : pickedZoo?.[0]?.length ?? 0;
}

class ZooBox {
    #modeZoo = "idle";
    static kindZoo = "plain";
    get labelZoo() { return `${this.#modeZoo}:${ZooBox.kindZoo}`; }
    async *pullZoo(itemsZoo) {
        for await (const itemZoo of itemsZoo) {
            yield itemZoo;
        }
    }
}
'''

ZOO["rs"] = '''
fn gate_zoo(env_zoo: &str, rest_zoo: &[&str]) -> Option<i32> {
    if env_zoo == "alpha" || env_zoo == "beta" {
        return Some(go_zoo(env_zoo, "slow"));
    }
    let picked_zoo: Vec<&&str> = rest_zoo.iter().filter(|w_zoo| **w_zoo == "stage").collect();
    match env_zoo {
        "one" => Some(1),
        "two" | "three" => Some(2),
        other_zoo if other_zoo.len() > 3 => None,
        _ => picked_zoo.first().map(|p_zoo| p_zoo.len() as i32),
    }
}

impl<T: Clone> ZooBox<T> {
    pub fn label_zoo(&self) -> String {
        format!("{}:{}", self.mode_zoo, self.items_zoo.len())
    }
}
'''

RETYPE = [b"None", b"1", b"-1", b"1.5", b"b'x'", b"True", b"...", b"[]", b"{}", b"()", b'""', b"f'{a}'", b"1j", b"0", b"null", b"undefined", b"NaN", b"1n",
          b"``", b"/x/", b"'c'", b"1e400", b"0o17", b"(1, 'a')", b"[None]", b"-0.0", b"'a' 'b'", b"x", b"*x", b"not x", b"x if x else None", b"lambda: 0"]
_LITERAL = re.compile(rb'"[^"\n\\]*"|\b\d+\b')


def retype(data: bytes, a: float, b: float) -> bytes:
    lits = list(_LITERAL.finditer(data))
    if not lits:
        return data
    m = lits[int(a * (len(lits) - 1))]
    return data[: m.start()] + RETYPE[int(b * len(RETYPE)) % len(RETYPE)] + data[m.end():]


def n_literals(lang: str) -> int:
    return len(_LITERAL.findall(ZOO[lang].encode()))


def retype_at(data: bytes, lit: int, val: int) -> bytes:
    lits = list(_LITERAL.finditer(data))
    m = lits[lit % len(lits)]
    return data[: m.start()] + RETYPE[val % len(RETYPE)] + data[m.end():]


# ------------------------------------------------------------------------------------------ commented zoo
# COMMENTED[lang] is valid code in which every comment form of the language (line, doc, inner doc, block, block doc,
# nested block, multi-line block, docstring, directive-like, trailing) stands in every member position: before and after
# each member of a struct / enum / impl / trait / class / interface / object literal / function body, first and last in a
# body, between decorators / attributes and the item, and as the last line of the file. Comments are nodes of their own
# in the tree-sitter grammars (a Rust `///` line ends on the NEXT row) and lines of their own for the line-oriented
# analysers; cut at a line boundary (c11 "linecut" matrix) every one of them becomes the last thing in an open construct.

COMMENTED = {}

COMMENTED["rs"] = '''//! Inner doc comment of the file.

/// Doc comment of the struct.
#[derive(Debug)]
pub struct NotedBox {
    /// Doc comment of a field.
    pub count_noted: i32, // trailing comment
    /* block comment in a struct body */
    label_noted: String,
    // comment last in the struct body
}

/** Block doc comment of the enum. */
pub enum NotedShade {
    /// Doc comment of a variant.
    Red,
    // comment between variants
    Green, /* trailing block comment */
}

/// Doc comment of the impl block.
impl NotedBox {
    //! Inner doc comment of the impl block.

    /// Doc comment of a method.
    pub fn total_noted(&self) -> i32 {
        // comment first in a body
        let base_noted = self.count_noted; // trailing comment
        /* block comment
           over two lines */
        base_noted
        // comment last in a body
    }

    /** Block doc comment
     * of a method.
     */
    pub fn label_noted(&self) -> &str {
        &self.label_noted
    }
    /// Doc comment of the last method.
    #[inline]
    // comment between attribute and item
    pub fn reset_noted(&mut self) {
        self.count_noted = 0; /* nested /* block */ comment */
    }
    // comment last in the impl block
}

/// Doc comment of the trait.
pub trait NotedTrait {
    /// Doc comment of a trait method.
    fn describe_noted(&self) -> String;
}

impl NotedTrait for NotedBox {
    /// Doc comment in a trait impl.
    fn describe_noted(&self) -> String {
        match self.count_noted {
            // comment before a match arm
            0 => String::new(), // trailing comment
            /* block comment before the last arm */
            _ => self.label_noted.clone(),
        }
    }
}

/// Doc comment of a struct without a body.
pub struct NotedUnit;
// comment last in the file
'''

COMMENTED["py"] = '''#!/usr/bin/env python3
# -*- coding: utf-8 -*-
"""Module docstring of the commented zoo.

Second paragraph of the module docstring.
"""
# comment after the module docstring
import os  # trailing comment


# comment before a decorated class
class NotedBox:
    """Docstring of the class."""

    # comment before a class attribute
    kind_noted: str = "plain"  # trailing comment

    def __init__(self, count_noted):
        # comment first in a body
        self.count_noted = count_noted
        # comment last in a body

    @property
    # comment between decorator and def
    def label_noted(self):
        """Docstring of a property.

        Over several lines.
        """
        return self.kind_noted

    def total_noted(self, extra_noted):  # type: (int) -> int
        \'\'\'Docstring in single quotes.\'\'\'
        if extra_noted:
            # comment first in an if body
            return self.count_noted + extra_noted
        else:
            # the else body starts with a comment
            pass
        return self.count_noted

    def reset_noted(self):
        r"""Raw docstring with a \\d escape."""
        self.count_noted = 0
        # comment last in the class


def helper_noted(items_noted):
    # comment instead of a docstring
    table_noted = {
        # comment in a dict display
        "red": items_noted,  # trailing comment
        # comment last in a dict display
    }
    return [
        entry_noted  # comment in a comprehension
        for entry_noted in table_noted
        # comment before the closing bracket
    ]


async def pull_noted(src_noted):
    """Docstring of an async function."""
    try:
        # comment first in a try body
        return await src_noted
    except OSError:  # trailing comment after except
        # comment first in a handler
        return None
    finally:
        # comment first in finally
        os.sep
# comment last in the file
'''

COMMENTED["ts"] = '''/// <reference types="node" />
/**
 * File header block comment of the commented zoo.
 */
// comment before an import
import { alphaNoted } from "./things"; // trailing comment

/** Doc comment of the interface. */
interface NotedShape {
    /** Doc comment of a member. */
    countNoted: number; // trailing comment
    // comment between members
    labelNoted?: string;
    /* block comment last in the interface */
}

// comment before the enum
enum NotedShade {
    /** Doc comment of an enum member. */
    Red = "red", // trailing comment
    // comment between enum members
    Green = "green",
    /* block comment last in the enum */
}

/**
 * Doc comment of the class
 * over several lines.
 */
// comment between doc comment and class
export class NotedBox implements NotedShape {
    // comment first in the class body
    countNoted = 0; // trailing comment
    /** Doc comment of a field. */
    private labelNotedValue: string = "plain";

    /**
     * Doc comment of the constructor.
     * @param startNoted initial value
     */
    constructor(startNoted: number) {
        // comment first in a body
        this.countNoted = startNoted;
        // comment last in a body
    }

    /** Doc comment of a getter. */
    get labelNoted(): string {
        return this.labelNotedValue; /* trailing block comment */
    }

    // line comment before a method
    totalNoted(extraNoted: number): number {
        /* block comment
           over two lines */
        if (extraNoted) {
            // comment first in an if body
            return this.countNoted + extraNoted;
        } else {
            // the else body starts with a comment
        }
        return this.countNoted;
    }

    /** Doc comment of the last method. */
    resetNoted(): void {
        this.countNoted = 0;
    }
    // comment last in the class body
}

/** Doc comment of a function. */
export function helperNoted(itemsNoted: string[]): object {
    const tableNoted = {
        // comment in an object literal
        red: itemsNoted, // trailing comment
        /** doc comment in an object literal */
        green: alphaNoted,
        // comment last in an object literal
    };
    return itemsNoted.map((entryNoted) => {
        // comment first in an arrow body
        return tableNoted ?? entryNoted;
    } /* comment before the closing parenthesis */);
}
// comment last in the file
'''

COMMENTED["js"] = '''#!/usr/bin/env node
/**
 * File header block comment of the commented zoo.
 */
// comment before an import
import { alphaNoted } from "./things"; // trailing comment

/**
 * Doc comment of the class
 * over several lines.
 */
// comment between doc comment and class
export class NotedBox {
    // comment first in the class body
    countNoted = 0; // trailing comment
    /** Doc comment of a field. */
    #labelNotedValue = "plain";

    /**
     * Doc comment of the constructor.
     * @param {number} startNoted initial value
     */
    constructor(startNoted) {
        // comment first in a body
        this.countNoted = startNoted;
        // comment last in a body
    }

    /** Doc comment of a getter. */
    get labelNoted() {
        return this.#labelNotedValue; /* trailing block comment */
    }

    // line comment before a method
    totalNoted(extraNoted) {
        /* block comment
           over two lines */
        if (extraNoted) {
            // comment first in an if body
            return this.countNoted + extraNoted;
        } else {
            // the else body starts with a comment
        }
        return this.countNoted;
    }

    /** Doc comment of the last method. */
    resetNoted() {
        this.countNoted = 0;
    }
    // comment last in the class body
}

/** Doc comment of a function. */
export function helperNoted(itemsNoted) {
    const tableNoted = {
        // comment in an object literal
        red: itemsNoted, // trailing comment
        /** doc comment in an object literal */
        green: alphaNoted,
        // comment last in an object literal
    };
    switch (itemsNoted.length) {
        // comment before a case
        case 0:
            return null; // trailing comment
        /* block comment before default */
        default:
            break;
    }
    return itemsNoted.map((entryNoted) => {
        // comment first in an arrow body
        return tableNoted ?? entryNoted;
    } /* comment before the closing parenthesis */);
}
// comment last in the file
'''


def n_lines(text: str) -> int:
    return len(text.split("\n")) - (1 if text.endswith("\n") else 0)
