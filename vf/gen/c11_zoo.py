"""C11: a "syntax zoo" per language and the literal re-typing mutator.

ZOO[lang] is valid code with the constructs the cross-file and pattern analysers look at (membership tests, equality
chains, string matches, calls with string arguments, comprehensions, lambdas, async, walrus, properties, enums,
generics, private fields ...). `retype` swaps ONE literal in a file for a literal / expression of another type, which
usually keeps the file valid: the analysers then meet values they did not expect in places they do analyse
(`x in ("a", None)`, `case 1.5:`, `go(env, [])`).
"""
from __future__ import annotations

import re

ZOO = {}

ZOO["py"] = '''
def gate_zoo(env_zoo, *rest_zoo, key_zoo=None, **opts_zoo):
    if env_zoo in ("stage", "prod", "dev"):
        return go_zoo(env_zoo, "fast")
    if env_zoo == "alpha" or env_zoo == "beta":
        return go_zoo(env_zoo, "slow")
    if env_zoo not in {"left", "right"}:
        return None
    match env_zoo:
        case "one":
            return 1
        case "two" | "three":
            return 2
    return [w_zoo for w_zoo in rest_zoo if w_zoo in ("stage", "prod", "dev")]


class Zoo:
    kind_zoo: str = "plain"

    def __init__(self):
        self.mode_zoo = "idle"
        self.table_zoo = {"red": 1, "green": 2}

    @property
    def label_zoo(self):
        return self.kind_zoo

    def step_zoo(self):
        if self.mode_zoo == "idle":
            self.mode_zoo = "busy"
        elif self.mode_zoo == "busy":
            self.mode_zoo = "idle"
        if "red" in self.table_zoo:
            shade_zoo = self.table_zoo["red"]
        return (lambda q_zoo: q_zoo)(self.mode_zoo)


async def pull_zoo(src_zoo):
    async with src_zoo as h_zoo:
        async for item_zoo in h_zoo:
            yield f"{item_zoo!r:>10}"
    if (n_zoo := len(src_zoo)) > 10:
        print(n_zoo)
'''

ZOO["ts"] = '''
function gateZoo(envZoo: string, ...restZoo: string[]): number | null {
    if (["stage", "prod", "dev"].includes(envZoo)) {
        return goZoo(envZoo, "fast");
    }
    if (envZoo === "alpha" || envZoo === "beta") {
        return goZoo(envZoo, "slow");
    }
    switch (envZoo) {
        case "one":
            return 1;
        case "two":
        case "three":
            return 2;
    }
    const pickedZoo = restZoo.filter((wZoo) => wZoo === "stage" || wZoo === "prod");
    return pickedZoo.length > 3 ? null : pickedZoo?.[0]?.length ?? 0;
}

enum ShadeZoo { Red = "red", Green = "green" }

class ZooBox<T extends object> {
    private modeZoo: "idle" | "busy" = "idle";
    constructor(private readonly itemsZoo: T[]) {}
    get labelZoo(): string { return `${this.modeZoo}:${this.itemsZoo.length}`; }
    async *pullZoo(): AsyncGenerator<T> {
        for await (const itemZoo of this.itemsZoo) {
            yield itemZoo;
        }
    }
}
'''

ZOO["js"] = '''
function gateZoo(envZoo, ...restZoo) {
    if (["stage", "prod", "dev"].includes(envZoo)) {
        return goZoo(envZoo, "fast");
    }
    if (envZoo === "alpha" || envZoo === "beta") {
        return goZoo(envZoo, "slow");
    }
    switch (envZoo) {
        case "one":
            return 1;
        case "two":
        case "three":
            return 2;
    }
    const pickedZoo = restZoo.filter((wZoo) => wZoo === "stage" || wZoo === "prod");
    return pickedZoo.length > 3 ? null : pickedZoo?.[0]?.length ?? 0;
}

class ZooBox {
    #modeZoo = "idle";
    static kindZoo = "plain";
    get labelZoo() { return `${this.#modeZoo}:${ZooBox.kindZoo}`; }
    async *pullZoo(itemsZoo) {
        for await (const itemZoo of itemsZoo) {
            yield itemZoo;
        }
    }
}
'''

ZOO["rs"] = '''
fn gate_zoo(env_zoo: &str, rest_zoo: &[&str]) -> Option<i32> {
    if env_zoo == "alpha" || env_zoo == "beta" {
        return Some(go_zoo(env_zoo, "slow"));
    }
    let picked_zoo: Vec<&&str> = rest_zoo.iter().filter(|w_zoo| **w_zoo == "stage").collect();
    match env_zoo {
        "one" => Some(1),
        "two" | "three" => Some(2),
        other_zoo if other_zoo.len() > 3 => None,
        _ => picked_zoo.first().map(|p_zoo| p_zoo.len() as i32),
    }
}

impl<T: Clone> ZooBox<T> {
    pub fn label_zoo(&self) -> String {
        format!("{}:{}", self.mode_zoo, self.items_zoo.len())
    }
}
'''

RETYPE = [b"None", b"1", b"-1", b"1.5", b"b'x'", b"True", b"...", b"[]", b"{}", b"()", b'""', b"f'{a}'", b"1j", b"0", b"null", b"undefined", b"NaN", b"1n",
          b"``", b"/x/", b"'c'", b"1e400", b"0o17", b"(1, 'a')", b"[None]", b"-0.0", b"'a' 'b'", b"x", b"*x", b"not x", b"x if x else None", b"lambda: 0"]
_LITERAL = re.compile(rb'"[^"\n\\]*"|\b\d+\b')


def retype(data: bytes, a: float, b: float) -> bytes:
    lits = list(_LITERAL.finditer(data))
    if not lits:
        return data
    m = lits[int(a * (len(lits) - 1))]
    return data[: m.start()] + RETYPE[int(b * len(RETYPE)) % len(RETYPE)] + data[m.end():]


def n_literals(lang: str) -> int:
    return len(_LITERAL.findall(ZOO[lang].encode()))


def retype_at(data: bytes, lit: int, val: int) -> bytes:
    lits = list(_LITERAL.finditer(data))
    m = lits[lit % len(lits)]
    return data[: m.start()] + RETYPE[val % len(RETYPE)] + data[m.end():]
