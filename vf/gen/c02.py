"""C02 - Hypothesis strategies: literals in every documented form, slot-template programs, configurations."""
from __future__ import annotations

from hypothesis import strategies as st

from vf.oracle import c02_literals as lit
from vf.render import c02_programs as rp

# values chosen to collide with the documented default allow-list, the code's default set, small-integer limits,
# hex digit classes (e, f32/f64 endings) and each other
INT_POOL = [0, 1, 2, 3, 4, 5, 6, 7, 8, 9, 10, 11, 12, 15, 16, 17, 20, 21, 22, 24, 30, 32, 40, 42, 60, 64, 77, 80, 99, 100, 101,
            200, 254, 255, 256, 404, 443, 500, 1000, 1024, 3000, 3600, 4096, 5000, 8080, 8443, 65535, 86400, 1000000,
            0xFE, 0x1E, 0xBEEF, 0xE0, 0x1F32, 0x7F32, 0xF64, 0xABF64, 0x2F32, 0xF32, 0xEF64,
            # integers a double cannot represent exactly: values must be compared as integers, never via float
            2**53 + 1, 2**63 - 1, 0xFFFFFFFFFFFFFFFF, 18446744073709551557, 10**18 + 3]
HEX_TRICKY = [0x1F32, 0x7F32, 0xF64, 0xABF64, 0x2F32, 0xF32, 0xEF64, 0xFE, 0x1E, 0xBEEF, 0xE0, 0xE, 0xAF32, 0x10F64]
FLOAT_TEXTS = ["0.5", "1.5", "2.5", "3.14", "0.25", "2.71828", "99.9", "0.001", "10.5", "1.414", "7.25",
               # many significant digits, large and tiny magnitudes: the message must name the value, not a rounding of it
               "3.14159265", "1234567.5", "299792.458", "0.000123456789", "6.02214076", "86400.125", "0.30000000000000004", "123456789.25"]
# (mantissa, exponent) pairs for scientific notation
EXP_PARTS = [("1", "3"), ("2.5", "-3"), ("1", "6"), ("5", "2"), ("25", "-1"), ("1.5", "2"), ("7", "0"), ("12", "-2"), ("3", "1"),
             ("6.62607015", "-34"), ("1.2345678", "7"), ("9.10938356", "-31")]

RS_INT_SUF_SMALL = ["u8", "i8"]
RS_INT_SUF = ["u16", "u32", "u64", "u128", "usize", "i16", "i32", "i64", "i128", "isize"]


def _underscore(draw, digits: str) -> str:
    if len(digits) < 2:
        return digits
    pos = draw(st.integers(1, len(digits) - 1))
    return digits[:pos] + "_" + digits[pos:]


@st.composite
def int_literal(draw, lang):
    """-> (text, form, value) of a non-negative integer literal"""
    v = draw(st.one_of(st.sampled_from(INT_POOL), st.integers(0, 70000), st.integers(0, 25)))
    forms = ["dec", "dec", "dec", "hex", "hex", "oct", "bin", "us"]
    if lang == "rs":
        forms += ["suf", "suf", "us_suf", "hex_suf"]
    form = draw(st.sampled_from(forms))
    if draw(st.integers(0, 11)) == 0:
        # hex literals whose digits spell a float suffix or contain the digit e (digit classes the readers must not confuse)
        v = draw(st.sampled_from(HEX_TRICKY))
        form = "hex"
    if form == "bin" and v > 4096:
        form = "hex"
    if form in ("us", "us_suf") and v < 10:
        form = "dec" if form == "us" else "suf"
    upper_prefix = lang != "rs" and draw(st.integers(0, 5)) == 0
    if form == "dec":
        text = str(v)
    elif form == "us":
        text = _underscore(draw, str(v))
    elif form in ("hex", "hex_suf"):
        digits = format(v, "x")
        style = draw(st.sampled_from(["lower", "upper", "upper"]))
        digits = digits.upper() if style == "upper" else digits
        if len(digits) >= 4 and draw(st.integers(0, 5)) == 0:
            digits = _underscore(draw, digits)
        text = ("0X" if upper_prefix else "0x") + digits
    elif form == "oct":
        text = ("0O" if upper_prefix else "0o") + format(v, "o")
    elif form == "bin":
        text = ("0B" if upper_prefix else "0b") + format(v, "b")
    else:
        text = str(v) if form == "suf" else _underscore(draw, str(v))
    if form in ("suf", "us_suf", "hex_suf"):
        sufs = RS_INT_SUF + (RS_INT_SUF_SMALL if v < 128 else [])
        sep = "_" if draw(st.integers(0, 3)) == 0 else ""
        text = text + sep + draw(st.sampled_from(sufs))
    return text, form, v


@st.composite
def float_literal(draw, lang, integral_ok=True):
    """-> (text, form) of a float literal (value may be integral, e.g. 12.0, 5., 1e3, 7f32)"""
    forms = ["plain", "plain", "exp", "exp"]
    if lang != "rs":
        forms.append("leaddot")
    if integral_ok:
        forms += ["pointzero", "traildot"]
        if lang == "rs":
            forms.append("intf")
    if lang == "rs":
        forms += ["fsuf", "fsuf"]
    form = draw(st.sampled_from(forms))
    if form == "plain":
        text = draw(st.sampled_from(FLOAT_TEXTS))
    elif form == "leaddot":
        text = draw(st.sampled_from([".5", ".25", ".001", ".75"]))
    elif form == "exp":
        m, e = draw(st.sampled_from(EXP_PARTS))
        if not integral_ok and float(m + "e" + e) == int(float(m + "e" + e)):
            m, e = "2.5", "-3"
        text = m + draw(st.sampled_from(["e", "E"])) + e
    elif form == "pointzero":
        text = str(draw(st.sampled_from([0, 1, 2, 5, 7, 10, 12, 60, 100, 1000, 3600]))) + ".0"
    elif form == "traildot":
        text = str(draw(st.sampled_from([0, 1, 5, 7, 12, 100, 255]))) + "."
    elif form == "intf":
        text = str(draw(st.sampled_from([0, 1, 7, 12, 60, 100]))) + draw(st.sampled_from(["f32", "f64", "_f64"]))
    else:  # fsuf
        base = draw(st.sampled_from(FLOAT_TEXTS + ["1e3", "2.5E-3", "12.0"]))
        if not integral_ok and base in ("1e3", "12.0"):
            base = "3.14"
        text = base + draw(st.sampled_from(["f32", "f64", "_f32", "_f64"]))
    if form == "plain" and draw(st.integers(0, 7)) == 0 and len(text.split(".")[0]) >= 2:
        text = _underscore(draw, text.split(".")[0]) + "." + text.split(".")[1]
    return text, form


@st.composite
def literal(draw, lang, hole="any"):
    """A literal record {text, form, neg, v} valid for the hole type."""
    v = None
    if hole == "int":
        text, form, v = draw(int_literal(lang))
        neg = False
    elif hole == "flt":
        text, form = draw(float_literal(lang, integral_ok=False))
        neg = False
    else:
        if draw(st.integers(0, 9)) < 7:
            text, form, v = draw(int_literal(lang))
        else:
            text, form = draw(float_literal(lang))
        neg = hole == "any" and draw(st.integers(0, 6)) == 0
    # "v" = the value the text was built FROM (integers) or read by the reference reader (floats); the check
    # re-reads the text with vf.oracle.c02_literals and requires agreement
    return {"text": text, "form": form, "neg": neg, "v": v if v is not None else lit.value_of(text, lang)}


@st.composite
def small_int_literal(draw, lang):
    """Integers around max_small_integer for range()/enumerate() slots."""
    v = draw(st.integers(0, 24))
    form = draw(st.sampled_from(["dec", "dec", "dec", "hex", "bin", "oct"]))
    text = {"dec": str(v), "hex": "0x" + format(v, "X"), "bin": "0b" + format(v, "b"), "oct": "0o" + format(v, "o")}[form]
    return {"text": text, "form": form, "neg": False, "v": v}


_SIMPLE_WEIGHT = 6  # simple statements per block statement


def _tpl_groups(lang):
    g = {"ordinary": [], "exempt": [], "bait": [], "block": []}
    for name, t in rp.TEMPLATES[lang].items():
        if t.kind == "b":
            g["block"].append(name)
        elif name.startswith("bait_"):
            g["bait"].append(name)
        elif t.exempt is not None:
            g["exempt"].append(name)
        else:
            g["ordinary"].append(name)
    return g


@st.composite
def statement(draw, lang, depth):
    g = _tpl_groups(lang)
    # ordinary positions dominate; documented exempt positions and bait are over-sampled relative to their template count
    group = draw(st.sampled_from(["ordinary"] * 6 + ["exempt"] * 2 + ["bait"] + (["block"] * 2 if depth < 2 else [])))
    name = draw(st.sampled_from(g[group]))
    tpl = rp.TEMPLATES[lang][name]
    lits = []
    for hole in tpl.holes:
        if tpl.exempt in ("range", "enumerate", "enumerate-kw") and draw(st.integers(0, 3)) > 0:
            lits.append(draw(small_int_literal(lang)))
        else:
            lits.append(draw(literal(lang, hole)))
    stt = {"t": name, "lits": lits}
    if name.startswith("bait_bool"):
        stt["bait"] = draw(st.sampled_from(rp.BOOLS[lang]))
    if tpl.kind == "b":
        stt["body"] = draw(st.lists(statement(lang, depth + 1), min_size=0, max_size=3))
    return stt


@st.composite
def function(draw, lang, attr_ok=True):
    fn = {"k": "func", "body": draw(st.lists(statement(lang, 0), min_size=0, max_size=6))}
    if lang != "rs":
        fn["defaults"] = draw(st.lists(literal(lang, "any"), max_size=2))
        fn["typed"] = draw(st.booleans())
    elif attr_ok:
        fn["attr"] = draw(st.sampled_from([None, None, None, None, "test", "test_ignore", "ignore_test", "inline", "allow",
                                           "cfg_not_test", "test_comment"]))
    return fn


@st.composite
def item(draw, lang):
    kinds = ["func", "func", "func", "const", "class"]
    if lang != "rs":
        kinds.append("global")
    if lang == "ts":
        kinds.append("enum")
    if lang == "rs":
        kinds.append("testmod")
    k = draw(st.sampled_from(kinds))
    if k == "func":
        return draw(function(lang))
    if k == "const":
        it = {"k": "const", "lit": draw(literal(lang, "any")), "name_style": draw(st.integers(0, 4)), "typed": draw(st.sampled_from([0, 0, 1, 2]))}
        if lang in ("ts", "js"):
            it["export"] = draw(st.booleans())
        if lang == "rs":
            it["static"] = draw(st.integers(0, 5))
        return it
    if k == "global":
        it = {"k": "global", "lit": draw(literal(lang, "any"))}
        if lang != "py":
            it["kw"] = draw(st.sampled_from(["let", "const", "var"]))
        return it
    if k == "enum":
        return {"k": "enum", "lits": draw(st.lists(literal(lang, "any"), min_size=1, max_size=3)), "constenum": draw(st.booleans())}
    if k == "class":
        it = {"k": "class", "methods": draw(st.lists(function(lang, attr_ok=False), max_size=2))}
        if lang in ("py", "rs"):
            # now and then a class with many UPPER_CASE attributes: that makes the CLASS a holder of constants, not the module a
            # constants-definition module (the documented heuristic counts module-level constants)
            many = draw(st.integers(0, 5)) == 0
            it["consts"] = draw(st.lists(literal(lang, "any"), min_size=10 if many else 0, max_size=12 if many else 2))
        if lang != "rs":
            it["attrs"] = draw(st.lists(literal(lang, "any"), max_size=2))
        return it
    return {"k": "testmod", "funcs": draw(st.lists(function(lang), min_size=1, max_size=2))}


def _walk_lits(obj, out):
    if isinstance(obj, dict):
        if "text" in obj and "v" in obj:
            out.append(obj)
            return
        for v in obj.values():
            _walk_lits(v, out)
    elif isinstance(obj, list):
        for v in obj:
            _walk_lits(v, out)


DOC_DEFAULT = [-1, 0, 1, 2, 3, 4, 5, 10, 100, 1000]
ABSENT = [13, 37, 2.75, 123456, -3]


@st.composite
def cases(draw):
    lang = draw(st.sampled_from(["py", "py", "ts", "ts", "js", "rs", "rs"]))
    kinds = sorted(rp.FILE_KINDS[lang])
    plain = [k for k in kinds if k.startswith("plain") or k in ("lib", "main")]
    special = [k for k in kinds if k not in plain]
    nfiles = 1 if not special else draw(st.sampled_from([1, 1, 2]))
    chosen = [draw(st.sampled_from(plain))]
    if nfiles == 2:
        chosen.append(draw(st.sampled_from(special)))
    files = []
    for i, kind in enumerate(chosen):
        items = draw(st.lists(item(lang), min_size=1, max_size=4 if i == 0 else 2))
        # stay below the documented content heuristic for "definition files" (10 upper-case numeric constants)
        nconst = 0
        kept = []
        for it in items:
            if it["k"] == "const":
                nconst += 1
                if nconst > 6:
                    continue
            kept.append(it)
        files.append({"kind": kind, "items": kept})
    lits = []
    _walk_lits(files, lits)
    present = sorted({lit.canon(l["v"]) for l in lits}, key=lambda x: (float(x), repr(x)))
    negs = sorted({-lit.canon(l["v"]) for l in lits if l.get("neg")}, key=float)
    mode = draw(st.sampled_from(["default", "subset", "subset", "subset+doc", "strict", "empty", "no01"]))
    if mode == "default":
        allowed = None
    else:
        pool = present + negs + ABSENT
        sub = draw(st.lists(st.sampled_from(pool), max_size=6, unique=True)) if pool else []
        if mode == "subset+doc":
            sub = DOC_DEFAULT + [x for x in sub if x not in DOC_DEFAULT]
        elif mode == "strict":
            sub = [-1, 0, 1] + [x for x in sub if x not in (-1, 0, 1)]
        elif mode == "empty":
            sub = []
        elif mode == "no01":
            sub = [x for x in sub if x not in (0, 1)] + [2]
        allowed = sub
    msi = draw(st.sampled_from([None, None, 1, 3, 5, 10, 11, 12, 16, 20]))
    dpool = present + negs + (allowed or []) + ABSENT
    delta = draw(st.sampled_from(dpool))
    # now and then the settings travel as a per-language section and a file of another language (judged by the top
    # level) is linted first in the same run
    company = allowed is not None and draw(st.integers(0, 3)) == 0
    return {"lang": lang, "files": files, "cfg": {"allowed": allowed, "msi": msi}, "delta": delta, "company": company}
