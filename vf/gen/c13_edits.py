"""C13 - file states and meaning-preserving edits (pure functions, no randomness).

A FileState is the abstract form of one source file: logical lines (no line terminators), the
number of protected header lines, line-ending style, BOM flag, final-newline flag, the current
indentation unit, and the identifiers that may be renamed. `apply(state, edit)` returns the new
state plus a description of what the edit did to line numbers / columns / names, which is all the
oracle needs.
"""
from __future__ import annotations

import copy
import re
from dataclasses import dataclass, field

from vf import seeds

BOM = b"\xef\xbb\xbf"

# directive-free comment texts (no thailint/noqa/dry:/type:/pylint/eslint/nosec/TODO..., no code look-alikes)
COMMENT_TEXTS = [
    "plain remark",
    "see the handbook for background",
    "kept short by design",
    "nothing special happens below",
    "reviewed twice by the team",
    "grüße aus dem wald – café",
    "ตัวอย่างคำอธิบายภาษาไทยสำหรับผู้อ่าน",  # 3 bytes per character in UTF-8: byte offsets and character offsets part ways
    "noted 🙂🙂 by the reviewers 𝒜𝒷",  # outside the BMP: 4 bytes in UTF-8, 2 units in UTF-16
    "step three of the walkthrough",
    "x",
    # remarks that mention names used in the code next to them (still comments: no fact a rule may look at)
    "{id} is explained in the handbook",
    "remember: {id} and {id2} belong together",
    "{id}",
]
FORBIDDEN_WORDS = ("thailint", "noqa", "dry:", "type:", "pylint", "eslint", "nosec", "todo", "fixme", "ignore", "purpose", "scope",
                   "overview", "@ts", "nolint", "allow", "expect", "deny", "safety", "hack", "xxx")
assert not any(w in t.lower() for t in COMMENT_TEXTS for w in FORBIDDEN_WORDS)
_WORD = re.compile(r"[A-Za-z_][A-Za-z_0-9]{2,}")

TRAILING = [" ", "  ", "\t", " \t ", "    "]
UNITS = {"4": "    ", "2": "  ", "8": "        ", "tab": "\t"}

# families whose rules do not inspect identifier names (DESIGN C13): only their snippets' locals are renamed
RENAME_FAMILIES = ("nesting", "magic", "concat", "regex", "unwrap", "clone", "blocking", "lbyl", "pipeline", "filler")
_IDENT = re.compile(r"(?<![.\w])[a-z]+\d+(?![\w(])")
_STR = re.compile(r"""r?"[^"\n]*"|r?'[^'\n]*'""")
_NOT_LOCALS = {"i8", "i16", "i32", "i64", "i128", "u8", "u16", "u32", "u64", "u128", "f32", "f64"}  # Rust primitive types


@dataclass
class FileState:
    name: str
    lang: str
    lines: list
    hdr: int  # lines [0, hdr) are the header block: never edited, nothing inserted among them
    eol: str = "\n"
    bom: bool = False
    final_nl: bool = True
    unit: str = "    "
    locals: list = field(default_factory=list)  # renameable identifiers
    next_u: int = 900  # fresh ids for appended filler
    runs: list = field(default_factory=list)  # [first, last] 0-based line indexes of planted duplicate runs (DRY sets)
    marks: list = field(default_factory=list)  # 0-based indexes of lines where a construct was planted (position hints only)

    def data(self) -> bytes:
        body = self.eol.join(self.lines) + (self.eol if self.final_nl else "")
        return (BOM if self.bom else b"") + body.encode("utf-8")

    def text(self) -> str:
        return self.data().decode("utf-8")


@dataclass
class Effect:
    kind: str  # effective edit kind (crlf/lf, bom/unbom resolved)
    file: str
    ins_at: int = 0  # number of lines that precede the inserted lines
    ins_n: int = 0
    columns_stable: bool = True
    rename: dict = field(default_factory=dict)
    noop: bool = False
    inside_run: bool = False  # lines were inserted strictly inside a planted duplicate run
    swap: bool = False  # inverse edit (lf, unbom): judged as the forward edit with before/after exchanged

    def shift(self, fname: str, line: int) -> int:
        if fname == self.file and self.ins_n and line > self.ins_at:
            return line + self.ins_n
        return line


def split_outside_strings(line: str):
    """-> [(segment, is_string)]"""
    out, pos = [], 0
    for m in _STR.finditer(line):
        if m.start() > pos:
            out.append((line[pos:m.start()], False))
        out.append((m.group(0), True))
        pos = m.end()
    if pos < len(line):
        out.append((line[pos:], False))
    return out


def collect_locals(snippet_lines) -> list:
    names = []
    for ln in snippet_lines:
        code = ln.split(" # ")[0]
        for seg, is_str in split_outside_strings(code):
            if not is_str:
                for m in _IDENT.finditer(seg):
                    if m.group(0) not in names and m.group(0) not in _NOT_LOCALS:
                        names.append(m.group(0))
    return names


def rename_line(line: str, mapping: dict) -> str:
    if not mapping:
        return line
    parts = []
    for seg, is_str in split_outside_strings(line):
        if is_str:
            parts.append(seg)
        else:
            parts.append(_IDENT.sub(lambda m: mapping.get(m.group(0), m.group(0)), seg))
    return "".join(parts)


def rename_message(msg: str, mapping: dict) -> str:
    if not mapping:
        return msg
    return re.sub(r"(?<![.\w])[a-z]+\d+(?!\w)", lambda m: mapping.get(m.group(0), m.group(0)), msg)


def _indent_of(line: str) -> str:
    return line[: len(line) - len(line.lstrip(" \t"))]


def _reunit(line: str, old: str, new: str) -> str:
    if not line.strip():
        return line
    lead = _indent_of(line)
    k, rest = 0, lead
    while rest.startswith(old):
        rest = rest[len(old):]
        k += 1
    return new * k + rest + line[len(lead):]


def positions(state: FileState) -> int:
    """number of legal insertion points (after the header, up to and including end of file)"""
    return len(state.lines) - state.hdr + 1


def _position(s: FileState, edit: dict, hi: int) -> int:
    """Index in [hdr, hi]: either uniform over the body (p) or next to a planted construct (near/off)."""
    if "near" in edit and s.marks:
        at = s.marks[edit["near"] % len(s.marks)] + edit.get("off", 0)
        return max(s.hdr, min(hi, at))
    return s.hdr + edit.get("p", 0) % (hi - s.hdr + 1)


def apply(state: FileState, edit: dict):
    """-> (new FileState, Effect). Pure."""
    s = copy.deepcopy(state)
    k = edit["k"]
    eff = Effect(kind=k, file=s.name)
    if k in ("blank", "comment"):
        at = _position(s, edit, len(s.lines))
        if k == "blank":
            n = 1 + edit.get("n", 0) % 3
            ws = ["", "", "", "    ", "\t"][edit.get("w", 0) % 5]
            new = [ws] * n
        else:
            txt = COMMENT_TEXTS[edit.get("t", 0) % len(COMMENT_TEXTS)]
            if "{id" in txt:
                # identifiers of the code lines around the insertion point (strings and existing comments excluded)
                near = []
                for ln in s.lines[max(s.hdr, at - 3): at + 3]:
                    code = ln.split(seeds.COMMENT[s.lang])[0]
                    for seg, is_str in split_outside_strings(code):
                        if not is_str:
                            near += [w for w in _WORD.findall(seg) if not any(f in w.lower() for f in FORBIDDEN_WORDS)]
                # local-looking names first (parameters, let/const bindings), then everything else
                near = [w for w in near if _IDENT.fullmatch(w)] or near or ["value"]
                near = list(dict.fromkeys(near))
                txt = txt.replace("{id2}", near[(edit.get("t", 0) // len(COMMENT_TEXTS) + 1) % len(near)]).replace("{id}", near[(edit.get("t", 0) // len(COMMENT_TEXTS)) % len(near)])
            # indentation: that of the next non-blank line (column 0 at end of file), or column 0 when asked
            ind = ""
            if edit.get("ind", 1):
                for ln in s.lines[at:]:
                    if ln.strip():
                        ind = _indent_of(ln)
                        break
            new = [f"{ind}{seeds.COMMENT[s.lang]} {txt}"]
        s.lines[at:at] = new
        s.marks = [m + len(new) if m >= at else m for m in s.marks]
        for run in s.runs:
            if at <= run[0]:
                run[0] += len(new)
                run[1] += len(new)
            elif at <= run[1]:
                run[1] += len(new)
                eff.inside_run = True
        eff.ins_at, eff.ins_n = at, len(new)
    elif k == "trail":
        body = len(s.lines) - s.hdr
        if body <= 0:
            eff.noop = True
        else:
            i = _position(s, edit, len(s.lines) - 1)
            s.lines[i] = s.lines[i] + TRAILING[edit.get("w", 0) % len(TRAILING)]
    elif k == "reindent":
        to = edit.get("to", "2")
        if to == "tab" and s.lang == "py":
            to = "2"
        new = UNITS[to]
        if new == s.unit:
            eff.noop = True
        else:
            s.lines[s.hdr:] = [_reunit(ln, s.unit, new) for ln in s.lines[s.hdr:]]
            s.unit = new
        eff.columns_stable = False
    elif k == "eol":
        if s.eol == "\n":
            s.eol, eff.kind = "\r\n", "crlf"
        else:
            s.eol, eff.kind, eff.swap = "\n", "crlf", True
    elif k == "bom":
        if not s.bom:
            s.bom, eff.kind = True, "bom"
        else:
            s.bom, eff.kind, eff.swap = False, "bom", True
    elif k == "append":
        u = s.next_u
        s.next_u += 1
        fl = [_reunit(ln, "    ", s.unit) for ln in seeds.filler(s.lang, u).lines]
        s.lines.extend(["", ""] + fl)
        s.final_nl = True if edit.get("nl", 1) else s.final_nl
        if not state.final_nl and not s.final_nl:
            pass  # still no final newline: the appended block ends the file
        s.locals = s.locals + collect_locals(fl)
    elif k == "rename":
        if not s.locals:
            eff.noop = True
        else:
            suffix = ["n", "q", "zz"][edit.get("t", 0) % 3]
            mp = {nm: nm + suffix for nm in s.locals}
            s.lines[s.hdr:] = [rename_line(ln, mp) for ln in s.lines[s.hdr:]]
            s.locals = [mp[nm] for nm in s.locals]
            eff.rename = mp
        eff.columns_stable = False
    else:
        raise ValueError(k)
    return s, eff
