"""C09 - the one generated project (seeds of every linter) and the invocation matrix vocabulary.

build(variant) -> (files, config, extra): a project that gives every CLI command at least one finding in the
canonical invocation and contains, inside the project, every kind of path-dependent decision the statement names:
* an in-project `tests/` directory, `test_*.py`, `*.test.ts` (test-file exemptions),
* `crate/examples`, `crate/benches`, `crate/tests` (default ignore patterns of the Rust linters),
* `vendored_zq/` and `src/inner/gen_*` (per-linter `ignore` patterns from the configuration),
* `legacy_zone/` and `src/inner/skipme_*` (repository-level ignore: top-level `ignore:` or `.thailintignore`),
* file-placement rules with directory keys (`src`, `lib`) and a global deny rule.

Narrowing (see notes/C09.md): configured ignore patterns use directory names that never occur in a parent chain, and
the files they cover never sit directly in a directory that is used as a working directory, so that "path inside the
project" (statement) and "path as seen from where you run the command" (docs/configuration.md) select the same files.
"""
from __future__ import annotations

from vf import seeds

COMMANDS = [
    "nesting", "srp", "magic-numbers", "dry", "stringly-typed", "file-placement", "file-header", "improper-logging",
    "print-statements", "method-property", "stateless-class", "pipeline", "lbyl", "lazy-ignores", "perf",
    "string-concat-loop", "regex-in-loop", "unwrap-abuse", "clone-abuse", "blocking-async",
]

# ---- parent-directory names -------------------------------------------------------------------
INNOCUOUS = ["x", "work", "checkout-1", "tmp"]  # "tmp": the statement names /tmp/x; catches prefix tests such as "/t"
# every name of orchestrator.core._HARDCODED_EXCLUDE_DIRS except .git (a parent called `.git` makes the directory
# above it a git checkout, i.e. changes which directory is "the project" by design)
EXCLUDED_DIRS = ["build", "dist", "venv", ".venv", "node_modules", "__pycache__", "htmlcov", "foo.egg-info", ".tox",
                 ".eggs", ".pytest_cache", ".mypy_cache", ".ruff_cache", ".svn", ".hg"]
# every test-marker substring used by a test-file exemption: /tests/ /test/ test_ _test. .test. .spec.
TEST_MARKERS = ["tests", "test", "test_data", "my_test.d", "a.test.b", "a.spec.b"]
# names of default per-linter ignore patterns (Rust linters: examples/ benches/ tests/; stringly-typed: fixtures)
DEFAULT_IGNORE_NAMES = ["examples", "benches", "fixtures"]
PARENT_NAMES = INNOCUOUS + EXCLUDED_DIRS + TEST_MARKERS + DEFAULT_IGNORE_NAMES


def parent_class(chain: list[str]) -> str:
    cls = set()
    for n in chain:
        if n in EXCLUDED_DIRS:
            cls.add("excluded-dir")
        elif n in TEST_MARKERS:
            cls.add("test-marker")
        elif n in DEFAULT_IGNORE_NAMES:
            cls.add("default-ignore-name")
    return "+".join(sorted(cls)) or "innocuous"


CWDS = ["root", "sub", "parent", "unrelated", "unrelated-ignorefile"]
SPELLINGS = ["abs", "rel", "dot", "dotdot", "slash", "abs-slash"]  # one spelling for every target of the invocation
# per-target spellings of ONE invocation with several targets: "a+b+c" = target i is written in spelling (a, b, c)[i % 3].
# Each mixes absolute and relative forms; both orders, because either the first or a later target may be the odd one out.
MIXED_SPELLINGS = ["abs+rel", "rel+abs", "dot+abs+dotdot"]
TARGETS = ["project", "subdir", "file", "files"]  # target kinds of the parent-name matrix
MULTI_TARGETS = ["files", "dirs"]  # kinds with several targets in one invocation (the only ones a mixed spelling applies to)
ALL_TARGETS = TARGETS + ["dirs"]

SUB = "src"  # the sub-directory used as working directory / directory target
DIRS = [SUB, "lib", "crate"]  # target kind "dirs": several disjoint directories of the project in one invocation

IGNORE_PATTERNS = ["vendored_zq/", "**/gen_*"]
REPO_IGNORE = ["legacy_zone/", "**/skipme_*"]
REPO_IGNORE_FILE = ["legacy_zone/", "src/inner/skipme_*"]  # .thailintignore is gitignore-style: relative to its directory
HOSTILE_IGNOREFILE = "*\n*.py\n*.ts\n*.js\n*.rs\nsrc/\nlib/\ncrate/\ntests/\n**/*\n"


def _comp(lang, fams, u, var=0, header=True):
    sn = [seeds.filler(lang, u)]
    for i, f in enumerate(fams):
        sn.append(seeds.seed(f, lang, u + i + 1, var))
    return seeds.compose(lang, sn, header=header)[0]


def build(variant: int):
    """-> files {rel: text}, config dict, target sets {kind: [project-relative paths]}, meta."""
    v = variant
    b = 1000 * (v + 1)
    var = v % 3
    files = {}
    core = f"{SUB}/core_{v}.py"
    web = f"{SUB}/web_{v}.ts"
    files[core] = _comp("py", seeds.families("py"), b + 10, var)
    # ts/js seeds are spread over small files: the dry analyser is quadratic in the size of a ts/js file
    files[web] = _comp("ts", ["magic", "print", "concat"], b + 40, var)
    files[f"{SUB}/deep_{v}.ts"] = _comp("ts", ["nesting"], b + 45, var)
    files[f"lib/big_{v}.ts"] = _comp("ts", ["srp"], b + 50, var)
    files[f"lib/util_{v}.js"] = _comp("js", ["magic", "print", "nesting"], b + 60, var)
    files[f"crate/src/main_{v}.rs"] = _comp("rs", seeds.families("rs"), b + 80, var)
    files["crate/examples/demo.rs"] = _comp("rs", ["unwrap", "clone", "blocking", "magic"], b + 100, var)
    files["crate/benches/bench.rs"] = _comp("rs", ["unwrap", "clone"], b + 110, var)
    files["crate/tests/it.rs"] = _comp("rs", ["unwrap", "blocking", "magic"], b + 120, var)
    files["tests/helper.py"] = _comp("py", ["magic", "print", "methodprop", "stateless"], b + 130, var)
    files[f"tests/test_mod_{v}.py"] = _comp("py", ["magic", "print", "methodprop", "stateless"], b + 140, var)
    files["tests/unit.test.ts"] = _comp("ts", ["magic", "print"], b + 150, var)
    files[f"{SUB}/widget.spec.js"] = _comp("js", ["magic", "print"], b + 160, var)
    files["vendored_zq/thing.py"] = _comp("py", ["magic", "print", "nesting", "lbyl", "concat"], b + 170, var)
    files[f"{SUB}/inner/gen_auto.py"] = _comp("py", ["magic", "print", "regex", "stateless"], b + 190, var)
    files["legacy_zone/old.py"] = _comp("py", ["magic", "print", "pipeline"], b + 210, var)
    files[f"{SUB}/inner/skipme_a.ts"] = _comp("ts", ["magic", "print"], b + 230, var)
    files[f"{SUB}/plain_{v}.py"] = _comp("py", ["magic"], b + 250, var, header=False)
    # cross-file seed sets: copies inside SUB (so a SUB-only run has findings), in lib/, in tests/ and in the
    # configured-ignore directory
    places = [f"{SUB}/", f"{SUB}/pkg/", "lib/", "tests/", "vendored_zq/"]
    dry_files, str_files = [], []
    ks = sorted(seeds.dry_set("py", b + 5, 5).items())
    for (name, text), where in zip(ks, places):
        files[where + name] = text
        dry_files.append(where + name)
    ks = sorted(seeds.stringly_set("py", b + 7, 4).items())
    for (name, text), where in zip(ks, places):
        files[where + name] = text
        str_files.append(where + name)
    files["lib/junk.tmp"] = "scratch\n"
    files[f"{SUB}/notes.txt"] = "notes\n"

    config = {"dry": {"enabled": True, "ignore": list(IGNORE_PATTERNS)}}
    for sec in ["nesting", "srp", "magic-numbers", "print-statements", "improper-logging", "method-property",
                "stateless-class", "collection-pipeline", "lbyl", "performance", "stringly-typed", "file-header"]:
        config[sec] = {"ignore": list(IGNORE_PATTERNS)}
    config["lazy-ignores"] = {"ignore_patterns": list(IGNORE_PATTERNS)}
    config["file-placement"] = {
        "directories": {
            SUB: {"allow": [r".*\.py$", r".*\.txt$"]},
            "lib": {"deny": [{"pattern": r".*\.py$", "reason": "no python in lib"}]},
            "crate/src": {"allow": [r".*\.rs$"]},
        },
        "global_deny": [{"pattern": r".*\.tmp$", "reason": "no temporary files"}],
    }
    if v % 2 == 0:
        config["ignore"] = list(REPO_IGNORE)
    else:
        files[".thailintignore"] = "# repository-level ignore\n" + "\n".join(REPO_IGNORE_FILE) + "\n"
    targets = {
        "project": ["."],
        "subdir": [SUB],
        "file": [core],
        "dirs": list(DIRS),
        "files": [core, web, f"{SUB}/deep_{v}.ts", f"lib/big_{v}.ts", f"lib/util_{v}.js", f"crate/src/main_{v}.rs", "tests/helper.py", "tests/unit.test.ts",
                  "vendored_zq/thing.py", f"{SUB}/inner/gen_auto.py", "crate/examples/demo.rs", "lib/junk.tmp",
                  dry_files[0], dry_files[2], dry_files[4], str_files[0], str_files[2], str_files[3]],
    }
    # single-file target: a file in which the command has a finding (cross-file commands have none by nature)
    rs = f"crate/src/main_{v}.rs"
    file_for = {"nesting": f"{SUB}/deep_{v}.ts", "srp": f"lib/big_{v}.ts", "unwrap-abuse": rs, "clone-abuse": rs, "blocking-async": rs, "file-placement": web,
                "file-header": f"{SUB}/plain_{v}.py", "dry": dry_files[0], "stringly-typed": str_files[0]}
    meta = {"dry_files": dry_files, "stringly_files": str_files, "file_for": file_for}
    return files, config, targets, meta


def target_paths(targets: dict, meta: dict, kind: str, cmd: str) -> list[str]:
    if kind == "file":
        return [meta["file_for"].get(cmd, targets["file"][0])]
    return list(targets[kind])


def is_dir_target(kind: str) -> bool:
    return kind in ("project", "subdir", "dirs")


def is_mixed(spelling: str) -> bool:
    return "+" in spelling


def spell_all(root: str, cwd: str, trel: list[str], spelling: str, isdir: bool) -> list[str]:
    """The command-line arguments for the targets trel: one spelling for all, or (mixed) one per target in rotation."""
    parts = spelling.split("+")
    return [spell(root, cwd, t, parts[i % len(parts)], isdir) for i, t in enumerate(trel)]


def spell(root: str, cwd: str, t: str, spelling: str, isdir: bool) -> str:
    """How the project-relative target t ('.' = the root) is written on the command line."""
    import os

    a = root if t == "." else os.path.join(root, t)
    r = os.path.relpath(a, cwd)
    if spelling == "abs":
        return a
    if spelling == "abs-slash":
        return a + "/" if isdir else a
    if spelling == "rel":
        return r
    if spelling == "dot":
        return "." if r == "." else "./" + r
    if spelling == "slash":
        return r + "/" if isdir else r
    if spelling == "dotdot":  # "./sub/../sub": a redundant hop that resolves to the same place
        if t == ".":
            return os.path.join(r, SUB, "..")
        d, bn = os.path.split(a)
        if isdir:
            return os.path.join(r, "..", bn)
        return os.path.join(os.path.relpath(d, cwd), "..", os.path.basename(d), bn)
    raise ValueError(spelling)


def spelling_class(spelling: str) -> str:
    if is_mixed(spelling):
        return "mixed"
    return {"abs": "abs", "abs-slash": "abs", "rel": "rel", "dot": "rel", "slash": "rel", "dotdot": "dotdot"}[spelling]
