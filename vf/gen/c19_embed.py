"""C19: embedding a documented example into a larger file (scope, indentation, position, multiplicity, renaming).

`embed(unit_lines, lang, emb, keep)` -> (file_lines, copies) where copies[c] maps the unit's 0-based line index to the
0-based line index in the produced file for copy c. Lines of the leading header (module docstring / JSDoc block, which
only makes sense at the top of a file) stay at the top and belong to copy 0 only.

An embedding is plain data:
  {"scope": [outermost..innermost of SCOPES], "indent": 2|4|8, "k": 1..3, "tags": ["", "x", ...] (rename tag per copy),
   "before": n, "after": n, "inner_before": n, "inner_after": n,
   "inner": None | "if" | "try" | "with" | "for"  (python: one more block around the statements of a function-shaped example),
   "guard": None | "before" | "after"  (a complete script entry-point block at module level before / after the example),
   "rename": None | "defs-only"  (python: copies get distinct function / class names but keep parameter and local names),
   "style": one of STYLES - the SHAPE of the new identifier a renamed name gets from (old name, tag): snake suffix
            (`result_x`, the default), camelCase suffix (`resultX`), PascalCase prefix (`XResult`), snake prefix (`x_result`),
            upper case (`RESULT_X`), or an opaque fresh name unrelated to the old one (`qx3`). Leading underscores are kept.}
"""
from __future__ import annotations

import ast
import builtins
import io
import re
import tokenize

PY_SCOPES = ("function", "method", "class", "if", "try", "with", "for")
TS_SCOPES = ("function", "method", "block", "if", "try", "arrow", "for")
LOOPS = ("for",)
_BUILTINS = set(dir(builtins)) | {"self", "cls"}


# ------------------------------------------------------------------------------------------- python analysis


def py_status(text: str) -> str:
    """module-ok | needs-function (return/yield/await at top level) | unparsable"""
    try:
        compile(text, "<unit>", "exec")
        return "module-ok"
    except SyntaxError:
        pass
    try:
        compile("def _w():\n" + "\n".join("    " + ln if ln.strip() else ln for ln in text.split("\n")) + "\n    pass\n", "<unit>", "exec")
        return "needs-function"
    except SyntaxError:
        return "unparsable"


def py_top_kinds(text: str) -> set:
    try:
        tree = ast.parse(text)
    except SyntaxError:
        return {"?"}
    out = set()
    for n in tree.body:
        if isinstance(n, ast.Expr) and isinstance(n.value, ast.Constant) and isinstance(n.value.value, str):
            continue
        out.add(type(n).__name__)
    return out


class _Bound(ast.NodeVisitor):
    def __init__(self):
        self.names = set()
        self.blocked = set()
        self.stack = []
        self.defs = set()  # names of functions / classes defined at module level

    def _in_class(self):
        return bool(self.stack) and self.stack[-1] == "class"

    def visit_ClassDef(self, node):
        (self.blocked if self._in_class() else self.names).add(node.name)
        if not self.stack:
            self.defs.add(node.name)
        self.stack.append("class")
        self.generic_visit(node)
        self.stack.pop()

    def _func(self, node):
        (self.blocked if self._in_class() else self.names).add(node.name)
        if not self.stack:
            self.defs.add(node.name)
        a = node.args
        for arg in a.posonlyargs + a.args + a.kwonlyargs + ([a.vararg] if a.vararg else []) + ([a.kwarg] if a.kwarg else []):
            self.names.add(arg.arg)
        self.stack.append("func")
        self.generic_visit(node)
        self.stack.pop()

    visit_FunctionDef = _func
    visit_AsyncFunctionDef = _func

    def visit_Lambda(self, node):
        for arg in node.args.args:
            self.names.add(arg.arg)
        self.generic_visit(node)

    def visit_Name(self, node):
        if isinstance(node.ctx, (ast.Store, ast.Del)):
            (self.blocked if self._in_class() else self.names).add(node.id)

    def visit_ExceptHandler(self, node):
        if node.name:
            self.names.add(node.name)
        self.generic_visit(node)

    def visit_keyword(self, node):
        if node.arg:
            self.blocked.add(node.arg)
        self.generic_visit(node)

    def visit_Import(self, node):
        for al in node.names:
            self.blocked.add((al.asname or al.name).split(".")[0])

    visit_ImportFrom = visit_Import

    def visit_Global(self, node):
        self.blocked.update(node.names)

    visit_Nonlocal = visit_Global


def py_def_names(text: str, keep: str | None) -> set:
    """Module-level function / class names only (the subset of py_bound_names that MUST differ between copies)."""
    try:
        tree = ast.parse(text)
    except SyntaxError:
        return set()
    b = _Bound()
    b.visit(tree)
    return py_bound_names(text, keep) & b.defs


def py_bound_names(text: str, keep: str | None) -> set:
    """Locally bound identifiers that may be renamed: module-level function/class names, parameters, locals.
    Never: builtins, self/cls, dunders, imported names, method names and class-body attributes (they are reached through
    attribute access, which is never renamed), names also used as keyword-argument names, names matching `keep`."""
    try:
        tree = ast.parse(text)
    except SyntaxError:
        return set()
    b = _Bound()
    b.visit(tree)
    names = {n for n in b.names - b.blocked if n not in _BUILTINS and not n.startswith("__") and n != "_"}
    if keep:
        rx = re.compile(keep)
        names = {n for n in names if not rx.search(n)}
    return names


STYLES = ("snake", "camel", "pascal", "prefix", "upper", "opaque")


def styled(name: str, tag: str, style: str, idx: int) -> str:
    """The identifier `name` becomes under (tag, style). Leading underscores (privacy convention) are kept in place."""
    core = name.lstrip("_")
    lead = name[: len(name) - len(core)]
    if not core:
        return f"{name}_{tag}"
    if style == "camel":
        new = core + tag[0].upper() + tag[1:]
    elif style == "pascal":
        new = tag[0].upper() + tag[1:] + core[0].upper() + core[1:]
    elif style == "prefix":
        new = f"{tag}_{core}"
    elif style == "upper":
        new = f"{core}_{tag}".upper()
    elif style == "opaque":
        new = f"q{tag}{idx}"
    else:
        new = f"{core}_{tag}"
    return lead + new


def rename_map(text: str, names: set, tag: str, style: str | None) -> dict:
    """old -> new for every name; falls back to the snake suffix when the styled names would not stay distinct from each
    other or from an identifier the text already uses (a renaming must not merge two variables)."""
    order = sorted(names)
    words = set(re.findall(r"[A-Za-z_$][\w$]*", text))
    for sty in (style or "snake", "snake"):
        m = {n: styled(n, tag, sty, i) for i, n in enumerate(order)}
        new = list(m.values())
        if len(set(new)) == len(new) and not (set(new) & words):
            return m
    return m


def py_rename(text: str, names: set, tag: str, style: str | None = None) -> str:
    if not names or not tag:
        return text
    mp = rename_map(text, names, tag, style)
    try:
        toks = list(tokenize.generate_tokens(io.StringIO(text + "\n").readline))
    except (tokenize.TokenError, IndentationError, SyntaxError):
        return text
    lines = (text + "\n").split("\n")
    edits = []  # (row, col_start, col_end, new)
    prev = None
    for t in toks:
        if t.type == tokenize.NAME and t.string in names and not (prev is not None and prev.type == tokenize.OP and prev.string == "."):
            edits.append((t.start[0] - 1, t.start[1], t.end[1], mp[t.string]))
        if t.type not in (tokenize.NL, tokenize.COMMENT):
            prev = t
    for row, a, b, new in sorted(edits, reverse=True):
        lines[row] = lines[row][:a] + new + lines[row][b:]
    out = "\n".join(lines)
    return out[:-1] if out.endswith("\n") else out


# ------------------------------------------------------------------------------------------- ts / js analysis

_TS_DECL = re.compile(r"\b(?:function\s*\*?|class|const|let|var)\s+([A-Za-z_$][\w$]*)")


def ts_module_only(text: str) -> bool:
    return bool(re.search(r"^\s*(import|export)\b", text, re.M))


def ts_bound_names(text: str, keep: str | None) -> set:
    names = set(_TS_DECL.findall(_ts_mask(text)))
    names = {n for n in names if n not in ("console", "undefined", "null")}
    if keep:
        rx = re.compile(keep)
        names = {n for n in names if not rx.search(n)}
    return names


def _ts_mask(text: str) -> str:
    """Same length as text; string/comment characters (not `${...}` parts of templates) replaced by spaces."""
    out = list(text)
    i, n = 0, len(text)
    stack = []  # template nesting: '`' or '{' depth markers

    def blank(a, b):
        for j in range(a, b):
            if out[j] != "\n":
                out[j] = " "

    while i < n:
        c = text[i]
        if stack and stack[-1] == "`":  # inside template text
            if c == "\\":
                blank(i, min(i + 2, n))
                i += 2
                continue
            if c == "`":
                stack.pop()
                i += 1
                continue
            if c == "$" and i + 1 < n and text[i + 1] == "{":
                stack.append("{")
                i += 2
                continue
            blank(i, i + 1)
            i += 1
            continue
        if c == "/" and i + 1 < n and text[i + 1] == "/":
            j = text.find("\n", i)
            j = n if j < 0 else j
            blank(i, j)
            i = j
            continue
        if c == "/" and i + 1 < n and text[i + 1] == "*":
            j = text.find("*/", i + 2)
            j = n if j < 0 else j + 2
            blank(i, j)
            i = j
            continue
        if c in "'\"":
            j = i + 1
            while j < n and text[j] != c and text[j] != "\n":
                j += 2 if text[j] == "\\" else 1
            blank(i + 1, min(j, n))
            i = j + 1
            continue
        if c == "`":
            stack.append("`")
            i += 1
            continue
        if c == "{" and stack:
            stack.append("{")
        elif c == "}" and stack and stack[-1] == "{":
            stack.pop()
        i += 1
    return "".join(out)


def ts_rename(text: str, names: set, tag: str, style: str | None = None) -> str:
    if not names or not tag:
        return text
    mp = rename_map(text, names, tag, style)
    mask = _ts_mask(text)
    rx = re.compile(r"(?<![\w$.])(" + "|".join(sorted(map(re.escape, names), key=len, reverse=True)) + r")(?![\w$])")
    out = []
    last = 0
    for m in rx.finditer(mask):
        out.append(text[last:m.start()])
        out.append(mp[m.group(1)])
        last = m.end()
    out.append(text[last:])
    return "".join(out)


# ------------------------------------------------------------------------------------------- inner block


def py_inner_wrap(core: list, kind: str, counter: list, width: int = 4):
    """If the unit is `[imports/assignments]* + one function`, put the function's statements (after its docstring) inside
    one more block (`if flag:` / `try:` / `with ctx():` / `for x in seq:`). -> (new_lines, {old index -> new index}) or None."""
    text = "\n".join(core)
    try:
        tree = ast.parse(text)
    except SyntaxError:
        return None
    body = [n for n in tree.body]
    if not body or not isinstance(body[-1], (ast.FunctionDef, ast.AsyncFunctionDef)):
        return None
    if any(not isinstance(n, (ast.Import, ast.ImportFrom, ast.Assign, ast.Expr)) for n in body[:-1]):
        return None
    fn = body[-1]
    stmts = list(fn.body)
    if stmts and isinstance(stmts[0], ast.Expr) and isinstance(getattr(stmts[0], "value", None), ast.Constant) and isinstance(stmts[0].value.value, str):
        stmts = stmts[1:]
    if not stmts or stmts[0].lineno == fn.lineno:  # one-line def
        return None
    first, last = stmts[0].lineno - 1, fn.end_lineno - 1
    # comments directly above the first statement stay with it
    ind = " " * stmts[0].col_offset
    counter[0] += 1
    c = counter[0]
    head = {"if": f"if inner_flag_{c}:", "try": "try:", "with": f"with inner_ctx_{c}():", "for": f"for inner_each_{c} in inner_seq_{c}:"}[kind]
    pad = " " * width
    out, m = [], {}
    for i, ln in enumerate(core):
        if i == first:
            out.append(ind + head)
        m[i] = len(out)
        out.append(pad + ln if (first <= i <= last and ln.strip()) else ln)
        if i == last and kind == "try":
            out += [ind + "except Exception:", ind + pad + "raise"]
    return out, m


# ------------------------------------------------------------------------------------------- header split


def split_header(lines: list, lang: str) -> int:
    """Number of leading lines forming a file header (module docstring / leading block comment) that must stay on top."""
    i = 0
    n = len(lines)
    while i < n and not lines[i].strip():
        i += 1
    if i >= n:
        return 0
    first = lines[i].strip()
    if lang == "python":
        for q in ('"""', "'''"):
            if first.startswith(q):
                if first.count(q) >= 2 and len(first) > 3:
                    return i + 1
                for j in range(i + 1, n):
                    if q in lines[j]:
                        return j + 1
                return 0
        return 0
    if first.startswith("/**") or first.startswith("/*"):
        for j in range(i, n):
            if "*/" in lines[j]:
                return j + 1
    return 0


# ------------------------------------------------------------------------------------------- embedding


def _filler(lang, n, counter, inner):
    out = []
    for _ in range(n):
        counter[0] += 1
        c = counter[0]
        kind = c % (2 if inner else 3)
        if lang == "python":
            if kind == 0:
                out += [f"pad_{c} = None"]
            elif kind == 1:
                out += [f"pad_pair_{c} = (pad_left_{c}, pad_right_{c})"]
            else:
                out += [f"def pad_fn_{c}(arg_{c}):", f"    return arg_{c}"]
        else:
            if kind == 0:
                out += [f"const pad{c} = null;"]
            elif kind == 1:
                out += [f"const padPair{c} = [padLeft{c}, padRight{c}];"]
            else:
                out += [f"function padFn{c}(arg{c}) {{", f"    return arg{c};", "}"]
        out.append("")
    return out


def _guard(lang, counter, width):
    """A complete, self-contained script entry point at module level (not around the example)."""
    counter[0] += 1
    c = counter[0]
    ind = " " * width
    if lang == "python":
        return ['if __name__ == "__main__":', f"{ind}pad_main_{c}()", ""]
    return ["if (require.main === module) {", f"{ind}padMain{c}();", "}", ""]


def _wrap(lang, scope, body, width, counter):
    """-> (lines, offset of body's first line, indent prefix added to body)"""
    counter[0] += 1
    c = counter[0]
    ind = " " * width
    b = [ind + ln if ln.strip() else ln for ln in body]
    if lang == "python":
        if scope == "function":
            return [f"def outer_{c}():"] + b, 1, ind
        if scope == "class":
            return [f"class Outer_{c}:"] + b, 1, ind
        if scope == "method":
            b2 = [ind + ln if ln.strip() else ln for ln in b]
            return [f"class Holder_{c}:", f"{ind}def run_{c}(self):"] + b2, 2, ind + ind
        if scope == "if":
            return [f"if flag_{c}:"] + b, 1, ind
        if scope == "with":
            return [f"with ctx_{c}():"] + b, 1, ind
        if scope == "for":
            return [f"for each_{c} in seq_{c}:"] + b, 1, ind
        if scope == "try":
            return ["try:"] + b + ["except Exception:", f"{ind}raise"], 1, ind
    else:
        if scope == "function":
            return [f"async function outer{c}() {{"] + b + ["}"], 1, ind
        if scope == "arrow":
            return [f"const outer{c} = async () => {{"] + b + ["};"], 1, ind
        if scope == "method":
            b2 = [ind + ln if ln.strip() else ln for ln in b]
            return [f"class Holder{c} {{", f"{ind}async run{c}() {{"] + b2 + [f"{ind}}}", "}"], 2, ind + ind
        if scope == "block":
            return ["{"] + b + ["}"], 1, ind
        if scope == "if":
            return [f"if (flag{c}) {{"] + b + ["}"], 1, ind
        if scope == "for":
            return [f"for (const each{c} of seq{c}) {{"] + b + ["}"], 1, ind
        if scope == "try":
            return ["try {"] + b + [f"}} catch (err{c}) {{", f"{ind}throw err{c};", "}"], 1, ind
    raise ValueError(scope)


def embed(unit: list, lang: str, emb: dict, keep: str | None = None, keep_header: bool = True):
    """-> (file_lines, copies, info). lang: 'python' | 'typescript' | 'javascript'."""
    py = lang == "python"
    h = split_header(unit, lang) if keep_header else 0
    header, body = unit[:h], unit[h:]
    # strip leading/trailing blank lines of the body but remember the offset
    lead = 0
    while lead < len(body) and not body[lead].strip():
        lead += 1
    core = body[lead:]
    while core and not core[-1].strip():
        core = core[:-1]
    counter = [0]
    inner_map = None
    if py and emb.get("inner"):
        res = py_inner_wrap(core, emb["inner"], counter, emb.get("indent", 4))
        if res is not None:
            core, inner_map = res
    text = "\n".join(core)
    names = (py_bound_names(text, keep) if py else ts_bound_names(text, keep))
    if py and emb.get("rename") == "defs-only" and py_def_names(text, keep):
        # copies share their parameter and local names (two functions that both build `result`): every copy is still its
        # own function and must be judged on its own; only when the unit consists of definitions
        tree_kinds = py_top_kinds(text)
        if tree_kinds <= {"FunctionDef", "AsyncFunctionDef", "ClassDef", "Import", "ImportFrom"}:
            names = py_def_names(text, keep)
    inner = []
    starts = []
    inner += _filler(lang, emb.get("inner_before", 0), counter, True)
    renamed_any = False
    for c in range(emb["k"]):
        tag = emb["tags"][c]
        t = (py_rename(text, names, tag, emb.get("style")) if py else ts_rename(text, names, tag, emb.get("style"))) if tag else text
        renamed_any = renamed_any or t != text
        cl = t.split("\n")
        if len(cl) != len(core):
            raise AssertionError("renaming changed the number of lines")
        starts.append(len(inner))
        inner += cl + [""]
    inner += _filler(lang, emb.get("inner_after", 0), counter, True)
    off = 0
    block = inner
    for scope in reversed(emb["scope"]):
        block, o, _ = _wrap(lang, scope, block, emb.get("indent", 4), counter)
        off += o
    before = _filler(lang, emb.get("before", 0), counter, False)
    after = _filler(lang, emb.get("after", 0), counter, False)
    if emb.get("guard") == "before":
        before = before + _guard(lang, counter, emb.get("indent", 4))
    elif emb.get("guard") == "after":
        after = _guard(lang, counter, emb.get("indent", 4)) + after
    out = list(header) + ([""] if header else []) + before + block + [""] + after
    base = len(header) + (1 if header else 0) + len(before) + off
    copies = []
    for c in range(emb["k"]):
        m = {}
        if c == 0:
            for i in range(h):
                m[i] = i
        if inner_map is None:
            for i in range(len(core)):
                m[h + lead + i] = base + starts[c] + i
        else:
            for i, j in inner_map.items():
                m[h + lead + i] = base + starts[c] + j
        copies.append(m)
    return out, copies, {"renamed": renamed_any, "names": sorted(names), "header_lines": h, "inner_applied": inner_map is not None}
