"""C09 - (re)generate known/C09.json and replays/C09/known-*.json from the minimal cases below.

Usage (from /verif):  PYTHONPATH=/verif:/repo /venv/bin/python -m vf.oracle.c09_mkknown
Each minimal case is executed; the entry is written only if the case still fails with exactly the listed signature
(so a repaired defect drops out instead of being carried along).
"""
from __future__ import annotations

import json
import os
import re

VERIF = os.path.dirname(os.path.dirname(os.path.dirname(os.path.abspath(__file__))))


def _case(cmd, chain, cwd, spelling, target, variant=0):
    return {"variant": variant, "cmd": cmd, "chain": chain, "cwd": cwd, "spelling": spelling, "target": target, "mode": "P"}


KNOWN = [
    ("hardcoded-exclude-sees-parent-dirs", _case("magic-numbers", ["build"], "root", "abs", "file"),
     "a project checked out below a directory called build, dist, venv, .venv, node_modules, __pycache__, htmlcov, *.egg-info, .tox ... "
     "is not linted at all when the target path passes through that directory (absolute path, or ../build/proj): "
     "orchestrator.core._is_hardcoded_excluded tests every component of the path as given, e.g. `thailint magic-numbers "
     "/w/build/proj/src/core.py` reports nothing while `cd /w/build/proj && thailint magic-numbers src/core.py` reports the finding"),
    ("ts-test-file-substring-on-given-path", _case("magic-numbers", ["test_data"], "root", "abs", "files"),
     "magic-numbers and print-statements/improper-logging drop every TypeScript/JavaScript finding when the path as given contains "
     ".test. .spec. test_ _test. /tests/ or /test/ anywhere, including the directories leading to the project "
     "(`/w/test_data/proj/src/web.ts` is a 'test file'; the same file given as `src/web.ts` is not)"),
    ("stateless-tests-dir-on-given-path", _case("stateless-class", ["tests"], "root", "abs", "file"),
     "stateless-class exempts every file whose path as given contains /tests/: a project below a directory called tests loses all "
     "stateless-class findings with absolute targets and keeps them with relative ones"),
    ("rust-default-ignore-substring-on-given-path", _case("unwrap-abuse", ["examples"], "root", "abs", "file"),
     "unwrap-abuse / clone-abuse / blocking-async apply their default ignore patterns examples/ benches/ tests/ as substring tests on "
     "the path as given (core.linter_utils.is_ignored_path): a crate checked out below .../examples/ or .../tests/ reports nothing "
     "with absolute targets"),
    ("stringly-default-ignore-glob-on-given-path", _case("stringly-typed", ["x"], "root", "abs", "project"),
     "stringly-typed matches its default ignore globs (**/tests/**, **/test/**, **/fixtures/**) with fnmatch on the path as given: "
     "`thailint stringly-typed .` counts tests/x.py (the relative path `tests/x.py` does not match **/tests/**) while "
     "`thailint stringly-typed /abs/proj` ignores it, so the same project gets 4 vs 3 findings with different messages; below a "
     "parent called tests/test/fixtures everything is ignored"),
    ("file-placement-relative-path-as-given", _case("file-placement", ["x"], "sub", "rel", "file"),
     "file-placement judges a relative target path as written instead of relative to the project root "
     "(PathResolver.get_relative_path): `cd proj/src && thailint file-placement web.ts` (or `thailint file-placement proj/src/web.ts` "
     "from the parent) applies no `src` directory rule and reports nothing, `src/../lib/x.py` is judged as a file of src"),
    ("rule-ignore-parser-bound-to-cwd", _case("nesting", ["x"], "unrelated-ignorefile", "abs", "file"),
     "rule objects obtain the repository-ignore parser for Path.cwd() (get_ignore_parser() without a root), so a .thailintignore in "
     "the directory the command is started from - not the linted project's - suppresses findings of nesting, srp, magic-numbers, "
     "print-statements, perf, pipeline, stateless-class, stringly-typed (`cd /other && thailint nesting /w/proj/src/deep.ts` is "
     "silent when /other/.thailintignore contains `*`)"),
    ("repo-ignore-matched-on-given-relative-path", _case("magic-numbers", ["x"], "sub", "rel", "subdir", variant=1),
     "the project's .thailintignore patterns are matched against the path as given when the target is relative "
     "(IgnoreDirectiveParser.is_ignored: relative_to(project_root) fails, falls back to the raw path): the anchored pattern "
     "src/inner/skipme_* ignores src/inner/skipme_a.ts from the root, but `cd src && thailint magic-numbers .` or "
     "`thailint magic-numbers ./src/..` lints it"),
]


def main():
    from vf import runner

    runner.init()
    from vf.props import c09

    findings = []
    os.makedirs(os.path.join(VERIF, "replays", "C09"), exist_ok=True)
    for name, case, what in KNOWN:
        sig = f"dev:{name}"
        res = c09.check(case)
        sigs = [f.sig for f in res.failures]
        if sigs != [sig]:
            print(f"SKIPPED {sig}: case now yields {sigs}")
            continue
        detail = res.failures[0].detail
        # scratch paths are process specific; keep the replay stable
        text = json.dumps(detail, default=str)
        text = re.sub(r"/dev/shm/vf-\d+-\w+/p\d+", "<scratch>", text)
        rel = f"replays/C09/known-{name}.json"
        with open(os.path.join(VERIF, rel), "w") as fh:
            json.dump({"property": "C09", "signature": sig, "detail": json.loads(text), "case": case}, fh, indent=1)
        findings.append({"property": "C09", "signature": sig, "what": what, "replay": rel})
        print("ok", sig)
    os.makedirs(os.path.join(VERIF, "known"), exist_ok=True)
    with open(os.path.join(VERIF, "known", "C09.json"), "w") as fh:
        json.dump({"findings": findings}, fh, indent=1)


if __name__ == "__main__":
    main()
