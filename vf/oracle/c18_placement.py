"""C18: reference verdict function for file-placement rules, written from the property statement.

    Given file-placement rules, a file covered by directory rules is reported iff the most specific directory rule
    containing it has a deny pattern matching its project-relative path, or has an allow list none of whose patterns
    match it (deny before allow); a file not covered by any directory rule is judged the same way by the global deny
    list and the global allow/deny patterns. No rules => nothing reported. Invalid pattern => configuration error.

`devs` switches on modelled deviations of the implementation (see vf/props/c18.py DEVIATIONS); with devs=() this is
the specification.
"""
from __future__ import annotations

import re


def item_pattern(item):
    return item if isinstance(item, str) else item["pattern"]


def all_patterns(cfg):
    """[(where, pattern)] for every pattern of a rule set"""
    out = []
    for key, rule in cfg.get("directories", {}).items():
        out += [("dir-allow", item_pattern(i)) for i in rule.get("allow", [])]
        out += [("dir-deny", item_pattern(i)) for i in rule.get("deny", [])]
    out += [("global_deny", item_pattern(i)) for i in cfg.get("global_deny", [])]
    gp = cfg.get("global_patterns", {})
    out += [("gp-allow", item_pattern(i)) for i in gp.get("allow", [])]
    out += [("gp-deny", item_pattern(i)) for i in gp.get("deny", [])]
    return out


def invalid_patterns(cfg):
    bad = []
    for where, pat in all_patterns(cfg):
        try:
            re.compile(pat)
        except re.error:
            bad.append((where, pat))
    return bad


def _any(items, s, flags):
    return any(re.search(item_pattern(i), s, flags) for i in items)


def covering_key(cfg, s, devs=()):
    """longest directory key containing path s (component-wise)"""
    best, best_depth = None, -1
    for key in cfg.get("directories", {}):
        k = key.rstrip("/")
        if "dir-key-string-prefix" in devs:
            inside = s.startswith(key)
        else:
            inside = s.startswith(k + "/")
        depth = len(k.split("/"))
        if inside and depth > best_depth:
            best, best_depth = key, depth
    return best


def verdict(cfg, rel, devs=(), judged=None):
    """-> (reported: bool, deciding clause: str). rel = project-relative POSIX path.
    judged = the string the implementation looks at under the 'relative-path-as-given' deviation."""
    s = judged if ("relative-path-as-given" in devs and judged is not None) else rel
    flags = re.IGNORECASE if "patterns-case-insensitive" in devs else 0
    key = covering_key(cfg, s, devs)
    if key is not None:
        rule = cfg["directories"][key]
        if "deny" in rule and _any(rule["deny"], s, flags):
            return True, "dir-deny"
        if "allow" in rule and not _any(rule["allow"], s, flags):
            return True, "dir-allow"
        if "global-rules-on-covered-files" not in devs:
            return False, "dir-ok"
    if "global_deny" in cfg and _any(cfg["global_deny"], s, flags):
        return True, "global_deny"
    gp = cfg.get("global_patterns", {})
    if "deny" in gp and _any(gp["deny"], s, flags):
        return True, "gp-deny"
    if "allow" in gp and not _any(gp["allow"], s, flags):
        return True, "gp-allow"
    return False, ("dir-ok" if key is not None else "global-ok" if (gp or "global_deny" in cfg) else "no-rule")


def normalized(cfg):
    """rule set with items reduced to their patterns and lists sorted (identity of the rule set)"""
    out = {}
    if "directories" in cfg:
        out["directories"] = {k: {a: sorted(item_pattern(i) for i in v) for a, v in sorted(r.items())} for k, r in sorted(cfg["directories"].items())}
    if "global_deny" in cfg:
        out["global_deny"] = sorted(item_pattern(i) for i in cfg["global_deny"])
    if "global_patterns" in cfg:
        out["global_patterns"] = {a: sorted(item_pattern(i) for i in v) for a, v in sorted(cfg["global_patterns"].items())}
    return out
