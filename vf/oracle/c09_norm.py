"""C09 - bring the violations of a run into a spelling-independent form.

The statement allows the runs to differ in "the spelling of the file path in the output". So every path the tool
prints - the `file_path` field and paths embedded in messages - is rewritten to the project-relative path of the
file it denotes; everything else (rule id, line, column, message text) is compared verbatim.

A printed path denotes a project file if it is absolute and below the project root, or relative and - resolved
against the working directory of the run or, failing that, against the project root (file-placement prints
project-relative paths) - names an existing file below the project root. Anything else is kept and marked OUTSIDE.
"""
from __future__ import annotations

import os
import re
from collections import Counter

_EXT = r"(?:py|ts|tsx|js|jsx|rs|tmp|txt|yaml)"
# a path-like token: contains a slash, or is a bare file name with a known extension
_TOKEN = re.compile(r"[^\s'\",:;()\[\]<>]*/[^\s'\",:;()\[\]<>]*|(?<![\w./-])[\w.\-]+\." + _EXT + r"\b")
_ALSO = re.compile(r"(Also found in: )(.*?)(\.?)$")


def project_rel(p: str, root: str, cwd: str) -> str | None:
    """Project-relative path of the existing project file that p denotes, else None."""
    rr = os.path.realpath(root)
    cands = [p] if os.path.isabs(p) else [os.path.join(cwd, p), os.path.join(root, p)]
    for c in cands:
        q = os.path.realpath(os.path.normpath(c))
        if q == rr:
            return "."
        if q.startswith(rr + os.sep) and os.path.lexists(q):
            return q[len(rr) + 1:]
    return None


def norm_file(p: str, root: str, cwd: str) -> str:
    r = project_rel(p, root, cwd)
    return r if r is not None else "OUTSIDE:" + p


def norm_message(msg: str, rule_id: str, root: str, cwd: str) -> str:
    # stringly-typed cites the other files by bare basename in every spelling: compared verbatim
    bare_ok = not rule_id.startswith("stringly-typed")

    def rep(m):
        tok = m.group(0)
        if "/" not in tok and not bare_ok:
            return tok
        r = project_rel(tok, root, cwd)
        return f"<{r}>" if r is not None else tok

    out = _TOKEN.sub(rep, msg)
    # "Also found in: a:1-3, b:1-3" is printed in the order of the spelled paths: order is spelling, not content
    m = _ALSO.search(out)
    if m:
        items = sorted(x.strip() for x in m.group(2).split(", "))
        out = out[: m.start()] + m.group(1) + ", ".join(items) + m.group(3)
    return out


def multiset(violations: list[dict], root: str, cwd: str) -> Counter:
    c = Counter()
    for v in violations:
        c[(v["rule_id"], norm_file(v["file_path"], root, cwd), v["line"], v["column"],
           norm_message(v["message"], v["rule_id"], root, cwd))] += 1
    return c
