"""C03 reference model: independent comment/whitespace normaliser + brute-force duplicate-window model.

Nothing here imports thai-lint.  A source file is reduced to its *code lines*: for every physical line the
sequence of lexical tokens on it, with comments removed; lines without tokens (blank, comment-only) vanish.
Two lines are "identical after removing comments and whitespace differences" iff their token sequences are equal.

Python uses the stdlib tokenizer; TypeScript/JavaScript a small scanner that knows // and /* */ comments,
'..', ".." and `..` strings (no ${} nesting, no regex literals - the C03 generator emits neither).

`devs` switches on *modelled deviations* of the tool from that reference (known defects, see vf/props/c03.py);
the reference model is devs = ().
  block-comment-kept     ts/js: /* .. */ comments (other than whole-line JSDoc) count as code
  lone-brace-dropped     ts/js: a line that is only `{` or `}` is not a code line
  cut:py-floor-division  py: the `//` operator starts a comment
  cut:hash-in-string     a `#` inside a string literal starts a comment
  cut:slashes-in-string  a `//` inside a string literal starts a comment
  cut:ts-hash-name       ts/js: the `#` of a private name (this.#x) starts a comment
"""
from __future__ import annotations

import io
import re
import tokenize
from collections import defaultdict

_PY_SKIP = {tokenize.COMMENT, tokenize.NL, tokenize.NEWLINE, tokenize.INDENT, tokenize.DEDENT, tokenize.ENDMARKER, tokenize.ENCODING}

NORMALISER_DEVIATIONS = {
    "py": ("cut:py-floor-division", "cut:hash-in-string", "cut:slashes-in-string"),
    "ts": ("block-comment-kept", "lone-brace-dropped", "cut:hash-in-string", "cut:slashes-in-string", "cut:ts-hash-name"),
}
NORMALISER_DEVIATIONS["js"] = NORMALISER_DEVIATIONS["ts"]


class NormError(Exception):
    pass


def _apply_cuts(toks, devs, lang):
    """toks: [(kind, text)] -> token texts after the enabled string/operator-blind comment cuts."""
    out = []
    for kind, text in toks:
        if kind == "str":
            cut = []
            if "cut:hash-in-string" in devs and "#" in text:
                cut.append(text.index("#"))
            if "cut:slashes-in-string" in devs and "//" in text:
                cut.append(text.index("//"))
            if cut:
                out.append(text[: min(cut)])
                return tuple(out)
        elif kind == "op" and lang == "py" and text in ("//", "//=") and "cut:py-floor-division" in devs:
            return tuple(out)
        elif kind == "id" and lang != "py" and text.startswith("#") and "cut:ts-hash-name" in devs:
            return tuple(out)
        out.append(text)
    return tuple(out)


def py_code_lines(text: str, devs=()):
    """-> [(lineno, (tok, tok, ...))] for lines carrying at least one token."""
    per = defaultdict(list)
    try:
        for tok in tokenize.generate_tokens(io.StringIO(text).readline):
            if tok.type in _PY_SKIP:
                continue
            if tok.start[0] != tok.end[0]:
                raise NormError(f"multi-line token at {tok.start}: the C03 domain has single-line statements only")
            kind = "str" if tok.type == tokenize.STRING else "op" if tok.type == tokenize.OP else "x"
            per[tok.start[0]].append((kind, tok.string))
    except (tokenize.TokenError, IndentationError) as e:  # pragma: no cover - generator bug
        raise NormError(f"python tokenizer rejected generated source: {e}") from e
    out = []
    for ln, toks in sorted(per.items()):
        t = _apply_cuts(toks, devs, "py")
        if t:
            out.append((ln, t))
    return out


_TS_TOKEN = re.compile(
    r"""
    (?P<ws>[ \t\r\f\v]+)
  | (?P<lc>//[^\n]*)
  | (?P<bc_open>/\*)
  | (?P<str>'(?:\\.|[^'\\\n])*'|"(?:\\.|[^"\\\n])*"|`(?:\\.|[^`\\\n])*`)
  | (?P<num>(?:0[xX][0-9a-fA-F_]+|\d[\d_]*\.?[\d_]*(?:[eE][+-]?\d+)?)n?)
  | (?P<id>[\#]?[A-Za-z_$][A-Za-z0-9_$]*)
  | (?P<op>>>>=|\.\.\.|===|!==|\*\*=|<<=|>>=|>>>|&&=|\|\|=|\?\?=|=>|==|!=|<=|>=|&&|\|\||\?\?|\?\.|\+\+|--|\+=|-=|\*=|/=|%=|&=|\|=|\^=|\*\*|<<|>>|[{}()\[\];,<>+\-*/%&|^!~?:=.@])
    """,
    re.X,
)


def ts_code_lines(text: str, devs=()):
    out = []
    in_block = False
    keep_bc = "block-comment-kept" in devs
    for ln, line in enumerate(text.split("\n"), start=1):
        toks = []
        pos = 0
        n = len(line)
        whole_line_jsdoc = line.strip().startswith("/**")
        while pos < n:
            if in_block:
                end = line.find("*/", pos)
                stop = n if end < 0 else end + 2
                if keep_bc and not whole_line_jsdoc:
                    toks.append(("bc", line[pos:stop].strip()))
                pos = stop
                in_block = end < 0
                continue
            m = _TS_TOKEN.match(line, pos)
            if not m:
                raise NormError(f"ts scanner: cannot tokenize line {ln} at col {pos}: {line!r}")
            pos = m.end()
            kind = m.lastgroup
            if kind in ("ws", "lc"):
                continue
            if kind == "bc_open":
                in_block = True
                if keep_bc and not whole_line_jsdoc:
                    toks.append(("bc", "/*"))
                continue
            toks.append((kind, m.group()))
        t = _apply_cuts(toks, devs, "ts")
        if t and "lone-brace-dropped" in devs and t in (("{",), ("}",)):
            continue
        if t:
            out.append((ln, t))
    return out


def code_lines(lang: str, text: str, devs=()):
    return py_code_lines(text, devs) if lang == "py" else ts_code_lines(text, devs)


def is_lone_brace(toks) -> bool:
    return all(x in ("{", "}") for x in toks)


class Model:
    """Brute-force model of one project: files -> code lines; windows; occurrence counting."""

    def __init__(self, files: dict, lang_of, devs=()):
        """files: {relpath: text}; lang_of(relpath) -> 'py' | 'ts' | 'js'."""
        self.text = dict(files)
        self.lines = {f: code_lines(lang_of(f), t, devs) for f, t in files.items()}
        self.nphys = {f: len(t.split("\n")) for f, t in files.items()}

    def content(self, f: str, s: int, e: int):
        """Code lines of file f whose physical line is within [s, e] -> tuple of token tuples."""
        return tuple(toks for ln, toks in self.lines[f] if s <= ln <= e)

    def windows(self, d: int):
        """{content: [(file, idx)]} over all windows of d consecutive code lines (files in sorted order)."""
        out = defaultdict(list)
        for f in sorted(self.lines):
            ls = self.lines[f]
            for i in range(len(ls) - d + 1):
                out[tuple(t for _, t in ls[i:i + d])].append((f, i))
        return out

    def occurrences(self, seq: tuple):
        """All (file, idx) where `seq` occurs as consecutive code lines."""
        k = len(seq)
        res = []
        if k == 0:
            return res
        for f in sorted(self.lines):
            ls = [t for _, t in self.lines[f]]
            for i in range(len(ls) - k + 1):
                if ls[i] == seq[0] and tuple(ls[i:i + k]) == seq:
                    res.append((f, i))
        return res

    @staticmethod
    def nonoverlapping(places, k: int):
        """Maximum set of pairwise non-overlapping places (equal length k => greedy by start is optimal)."""
        kept = []
        last = {}
        for f, i in sorted(places):
            if f in last and i < last[f] + k:
                continue
            last[f] = i
            kept.append((f, i))
        return kept

    def span(self, f: str, idx: int, k: int):
        """Physical (first, last) line of the k code lines starting at code-line index idx."""
        ls = self.lines[f]
        return ls[idx][0], ls[idx + k - 1][0]

    def duplicate_groups(self, d: int, o: int):
        """{content: (count, [all occurrences])} for windows occurring at >= o non-overlapping places."""
        res = {}
        for c, places in self.windows(d).items():
            if len(places) < 2:
                continue
            n = len(self.nonoverlapping(places, d))
            if n >= max(o, 2):
                res[c] = (n, places)
        return res
