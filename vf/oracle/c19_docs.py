"""C19: locating fenced code blocks in docs/*-linter.md by (heading path, fence index).

A fence's address is the path of markdown headings above it ("## A > ### B") plus its 0-based index among the
fences below the innermost heading. `label` is the last non-blank prose line before the fence (what the page
says the block is).
"""
from __future__ import annotations

import re
from dataclasses import dataclass

_FENCE = re.compile(r"^(\s*)(```+|~~~+)\s*([A-Za-z0-9_+-]*)\s*$")
_HEAD = re.compile(r"^(#{1,6})\s+(.*?)\s*#*\s*$")


@dataclass
class Fence:
    heading: str  # "H2 text > H3 text > ..."
    index: int  # among fences under the innermost heading
    lang: str
    code: str
    label: str
    line: int  # 1-based line of the opening fence in the markdown file


def parse_fences(text: str) -> list[Fence]:
    lines = text.split("\n")
    path: list[tuple[int, str]] = []
    out: list[Fence] = []
    count = 0
    last_prose = ""
    i = 0
    n = len(lines)
    while i < n:
        ln = lines[i]
        m = _FENCE.match(ln)
        if m:
            indent, ticks, lang = m.group(1), m.group(2), m.group(3)
            body = []
            j = i + 1
            while j < n:
                m2 = _FENCE.match(lines[j])
                if m2 and m2.group(2)[0] == ticks[0] and len(m2.group(2)) >= len(ticks) and not m2.group(3):
                    break
                body.append(lines[j])
                j += 1
            k = len(indent)
            body = [b[k:] if b[:k].strip() == "" else b.lstrip() for b in body]
            out.append(Fence(" > ".join(t for _, t in path), count, lang.lower(), "\n".join(body), last_prose, i + 1))
            count += 1
            i = j + 1
            continue
        hm = _HEAD.match(ln)
        if hm:
            level = len(hm.group(1))
            while path and path[-1][0] >= level:
                path.pop()
            path.append((level, hm.group(2)))
            count = 0
            last_prose = ""
        elif ln.strip():
            last_prose = ln.strip()
        i += 1
    return out


def slug(heading: str) -> str:
    """Slug of the innermost heading (for failure signatures)."""
    last = heading.split(" > ")[-1]
    return re.sub(r"[^a-z0-9]+", "-", last.lower()).strip("-")
