"""C02 - independent reader of numeric-literal text (Python / TypeScript+JavaScript / Rust).

`value_of(text, lang)` gives the mathematical value of an (unsigned) numeric literal as an int or a
float, written from the language references, not from thai-lint's parsers:

* radix prefixes 0x/0o/0b (upper-case prefix letters too in py/ts), digits with single `_` separators;
* decimal floats `1.5  .5  5.  1e3  2.5E-3  1_0.5`;
* Rust type suffixes, optionally preceded by `_`: an *integer* suffix (u8..usize, i8..isize) may follow any
  integer literal; a *float* suffix (f32/f64) may follow a decimal literal only - in `0x1f32` the `f32`
  are hex digits (Rust reference, "Integer literals": a hex literal is `0x` (HEX_DIGIT|_)* HEX_DIGIT
  (HEX_DIGIT|_)*  followed by an optional integer suffix; f32/f64 are not integer suffixes).

Floats are converted through `decimal.Decimal` (correctly rounded, like every conforming front end).
"""
from __future__ import annotations

import re
from decimal import Decimal

INT_SUFFIXES = ("u8", "u16", "u32", "u64", "u128", "usize", "i8", "i16", "i32", "i64", "i128", "isize")
FLOAT_SUFFIXES = ("f32", "f64")

_RS_INT_SUF = "(?:" + "|".join(INT_SUFFIXES) + ")"
_RS_FLT_SUF = "(?:" + "|".join(FLOAT_SUFFIXES) + ")"

_RADIX = {"x": (16, "0-9a-fA-F"), "o": (8, "0-7"), "b": (2, "01")}


class BadLiteral(ValueError):
    pass


def _digits(s: str, base: int) -> int:
    s = s.replace("_", "")
    if not s:
        raise BadLiteral("no digits")
    return int(s, base)


def _dec_float(mant_int: str, frac: str | None, exp: str | None) -> float:
    txt = (mant_int or "0").replace("_", "")
    if frac is not None:
        txt += "." + (frac.replace("_", "") or "0")
    if exp is not None:
        txt += "E" + exp.replace("_", "")
    return float(Decimal(txt))


def value_of(text: str, lang: str):
    """Value of an unsigned numeric literal. lang in py|ts|js|rs. int for integer literals, float otherwise."""
    t = text
    if lang == "rs":
        for letter, (base, cls) in _RADIX.items():
            # digits (and `_`) are consumed greedily by the lexer, then an optional integer suffix
            m = re.fullmatch(f"0{letter}([{cls}_]+)(" + _RS_INT_SUF + ")?", t)
            if m:
                return _digits(m.group(1), base)
        m = re.fullmatch(r"([0-9][0-9_]*?)_?(" + _RS_INT_SUF + ")", t)
        if m:
            return _digits(m.group(1), 10)
        m = re.fullmatch(r"([0-9][0-9_]*)(?:\.([0-9][0-9_]*)?)?(?:[eE]([+-]?[0-9_]+))?_?(" + _RS_FLT_SUF + ")?", t)
        if m:
            has_dot = "." in t
            if not has_dot and m.group(3) is None and m.group(4) is None:
                return _digits(m.group(1), 10)
            frac = None
            if has_dot:
                frac = m.group(2) or ""
            return _dec_float(m.group(1), frac, m.group(3))
        raise BadLiteral(text)
    # python / typescript / javascript
    m = re.fullmatch(r"0([xXoObB])([0-9a-fA-F_]+)", t)
    if m:
        base, cls = _RADIX[m.group(1).lower()]
        if not re.fullmatch(f"[{cls}_]+", m.group(2)):
            raise BadLiteral(text)
        return _digits(m.group(2), base)
    m = re.fullmatch(r"([0-9][0-9_]*)?(?:(\.)([0-9][0-9_]*)?)?(?:[eE]([+-]?[0-9_]+))?", t)
    if m and (m.group(1) or m.group(3)):
        if m.group(2) is None and m.group(4) is None:
            return _digits(m.group(1), 10)
        frac = (m.group(3) or "") if m.group(2) else None
        return _dec_float(m.group(1) or "0", frac, m.group(4))
    raise BadLiteral(text)


def canon(v):
    """Canonical comparable form of a numeric value: integral values as int, others as float."""
    if isinstance(v, bool):
        return int(v)
    if isinstance(v, float) and v == int(v) and abs(v) < 2**53:
        return int(v)
    return v


def is_hex(text: str) -> bool:
    return text[:2].lower() == "0x"
