"""C09 - explicit models of the KNOWN deviations of thai-lint from location/spelling independence.

The oracle of C09 is plain multiset equality with the canonical run. When a run differs, the difference is handed
to `explain()`: it looks for the smallest set of the deviations below whose *combined prediction* accounts for every
lost and every gained violation. Only then the failure gets the signature `dev:<name>` (one per deviation used),
which known/C09.json lists. Anything a deviation does not predict keeps the generic signature
`<command>|<parent class>|<cwd class>|<spelling class>|<lost/gained>` and is reported as a VIOLATION. When a defect
is repaired in /repo, the runs no longer differ in that way and its entry simply stops being hit.

Each deviation describes the defect's mechanism in terms of the path string the tool *sees* for a file
(`seen`, e.g. `/dev/shm/.../tests/x/proj/src/a.ts` or `../x/proj/src/a.ts`) as opposed to the path inside the
project (`rel`, what the statement says must decide). Predictions per canonical violation:
    "lost"  the deviation says this violation disappears in this run (exact: if it is still there, the deviation
            does not explain the run)
    "any"   the deviation may remove or keep it (approximate models, see each docstring)
    None    not affected
and `gain(cell, v)` says whether a violation absent from the canonical run may appear.
"""
from __future__ import annotations

import fnmatch
import itertools
from pathlib import PurePosixPath

EXCLUDE_DIRS = {"__pycache__", "node_modules", ".git", ".svn", ".hg", ".venv", "venv", ".tox", ".eggs", ".pytest_cache",
                ".mypy_cache", ".ruff_cache", "dist", "build", "htmlcov"}
TEST_MARKERS = [".test.", ".spec.", "test_", "_test.", "/tests/", "/test/"]
RUST_DEFAULT_IGNORE = ["examples/", "benches/", "tests/"]
STRINGLY_DEFAULT_IGNORE = ["**/tests/**", "**/test/**", "**/*_test.py", "**/*_test.ts", "**/*.test.ts", "**/*.test.tsx",
                           "**/*.spec.ts", "**/*.spec.tsx", "**/*.stories.ts", "**/*.stories.tsx", "**/conftest.py",
                           "**/fixtures/**"]


class Cell:
    """One invocation: what the tool sees for every project file."""

    def __init__(self, cmd, cwd_kind, cwd_has_ignorefile, seen, repo_ignore_anchored, stringly_files):
        self.cmd = cmd
        self.cwd_kind = cwd_kind
        self.cwd_has_ignorefile = cwd_has_ignorefile
        self.seen = seen  # project-relative path -> path string the tool works with (None if not covered)
        self.repo_ignore_anchored = repo_ignore_anchored  # anchored patterns of the project's .thailintignore
        self.stringly_files = stringly_files


def _ext(rel):
    return rel.rsplit(".", 1)[-1] if "." in rel else ""


# ------------------------------------------------------------------------------------------ the deviations


def hardcoded_exclude(cell, v):
    """orchestrator.core._is_hardcoded_excluded tests every component of the path as given, including the ones
    leading to the project: a project below build/, dist/, venv/, node_modules/ ... is not linted at all when the
    path the tool sees passes through that directory (absolute targets, `../build/proj`). Exact."""
    s = cell.seen(v[1])
    if s is None:
        return None
    for part in PurePosixPath(s).parts:
        if part in EXCLUDE_DIRS or part.endswith(".egg-info"):
            return "lost"
    return None


def ts_test_file_substring(cell, v):
    """magic-numbers and print-statements decide "is a test file" for TypeScript/JavaScript by substring tests
    (.test. .spec. test_ _test. /tests/ /test/) on the whole path as given: a parent directory called tests, test,
    test_data, x_test.d, a.spec.b ... exempts every ts/js file of the project. Exact."""
    if v[0] not in ("magic-numbers.numeric-literal", "improper-logging.print-statement") or _ext(v[1]) not in ("ts", "tsx", "js", "jsx"):
        return None
    s = cell.seen(v[1])
    if s is not None and any(m in s for m in TEST_MARKERS):
        return "lost"
    return None


def stateless_tests_dir(cell, v):
    """stateless-class exempts files whose path as given contains /tests/ (or starts with tests/): a parent
    directory called tests exempts the whole project. Exact."""
    if v[0] != "stateless-class.violation":
        return None
    s = cell.seen(v[1])
    if s is not None and ("/tests/" in s or s.startswith("tests/")):
        return "lost"
    return None


def rust_default_ignore(cell, v):
    """unwrap-abuse / clone-abuse / blocking-async apply their default ignore patterns examples/ benches/ tests/ as
    substring tests on the path as given: a project below a directory of that name is skipped entirely. Exact."""
    if not v[0].startswith(("unwrap-abuse.", "clone-abuse.", "blocking-async.")):
        return None
    s = cell.seen(v[1])
    if s is not None and any(p in s for p in RUST_DEFAULT_IGNORE):
        return "lost"
    return None


def _stringly_ignored(path):
    return any(fnmatch.fnmatch(path, p) or p in path for p in STRINGLY_DEFAULT_IGNORE)


def _stringly_applies(cell):
    for f in cell.stringly_files:
        s = cell.seen(f)
        if s is not None and _stringly_ignored(s) != _stringly_ignored(f):
            return True
    return False


def stringly_default_ignore(cell, v):
    """stringly-typed matches its default ignore globs (**/tests/**, **/test/**, **/fixtures/** ...) with fnmatch
    against the path as given: `tests/x.py` (relative, from the root) is NOT matched, `/abs/proj/tests/x.py` is, and
    so is every file of a project below a directory called tests, test or fixtures. Because the rule is cross-file,
    which files count changes the remaining findings and their messages. Approximate: applies only when the
    ignore status of at least one participating file differs between the seen and the in-project path; then any
    change among stringly-typed findings is attributed to it."""
    if not v[0].startswith("stringly-typed."):
        return None
    return "any" if _stringly_applies(cell) else None


def stringly_default_ignore_gain(cell, v):
    return v[0].startswith("stringly-typed.") and _stringly_applies(cell)


def _fp_as_given(cell, rel):
    s = cell.seen(rel)
    return s is not None and not s.startswith("/") and s != rel


def file_placement_relative(cell, v):
    """file-placement judges a relative path as it was given instead of relative to the project root
    (PathResolver.get_relative_path returns relative paths unchanged): from a sub-directory `web.ts` is not under
    `src`, from the parent `proj/src/web.ts` is not either, and `src/../lib/x.py` is treated as a file of `src`.
    Approximate: any change of file-placement findings on files whose seen path is relative and differs from the
    in-project path."""
    if v[0] != "file-placement":
        return None
    return "any" if _fp_as_given(cell, v[1]) else None


def file_placement_relative_gain(cell, v):
    return v[0] == "file-placement" and _fp_as_given(cell, v[1])


CWD_PARSER_RULES = ("nesting.", "srp.", "magic-numbers.", "improper-logging.", "performance.", "collection-pipeline.",
                    "stateless-class.", "stringly-typed.")


def rule_ignore_parser_cwd(cell, v):
    """Rule objects fetch the repository-ignore parser with get_ignore_parser() = the parser of Path.cwd(): a
    .thailintignore in the directory the command is started from - not the project's - filters their findings
    (nesting, srp, magic-numbers, print-statements, performance, collection-pipeline, stateless-class,
    stringly-typed on the pinned tree). The generated cwd carries a catch-all .thailintignore, so every finding of
    these rules disappears. Exact."""
    if cell.cwd_has_ignorefile and v[0].startswith(CWD_PARSER_RULES):
        return "lost"
    return None


def repo_ignore_as_given(cell, v):
    """Never predicts a loss (see the gain side)."""
    return None


def repo_ignore_as_given_gain(cell, v):
    """IgnoreDirectiveParser.is_ignored matches the project's .thailintignore patterns against the path as given when
    it is relative (relative_to(project_root) fails): an anchored pattern such as src/inner/skipme_* stops matching
    when the file is reached as inner/skipme_a.ts or proj/src/inner/skipme_a.ts, so ignored files get linted."""
    s = cell.seen(v[1])
    if s is None or s.startswith("/") or s == v[1]:
        return False
    return any(fnmatch.fnmatch(v[1], p) and not fnmatch.fnmatch(s, p) for p in cell.repo_ignore_anchored)


DEVIATIONS = [
    ("hardcoded-exclude-sees-parent-dirs", hardcoded_exclude, None),
    ("ts-test-file-substring-on-given-path", ts_test_file_substring, None),
    ("stateless-tests-dir-on-given-path", stateless_tests_dir, None),
    ("rust-default-ignore-substring-on-given-path", rust_default_ignore, None),
    ("stringly-default-ignore-glob-on-given-path", stringly_default_ignore, stringly_default_ignore_gain),
    ("file-placement-relative-path-as-given", file_placement_relative, file_placement_relative_gain),
    ("rule-ignore-parser-bound-to-cwd", rule_ignore_parser_cwd, None),
    ("repo-ignore-matched-on-given-relative-path", repo_ignore_as_given, repo_ignore_as_given_gain),
]


def _live_first():
    from vf.engine import live_first

    order = live_first("C09", [n for n, _p, _g in DEVIATIONS])
    DEVIATIONS.sort(key=lambda d: order.index(d[0]))


_live_first()


def explain(cell: Cell, canonical, got):
    """-> list of deviation names that together account for canonical -> got exactly, or None."""
    lost = canonical - got
    gained = got - canonical
    kept = canonical & got
    preds = {}
    for name, pred, _gain in DEVIATIONS:
        preds[name] = {v: pred(cell, v) for v in canonical}
    gains = {name: ({v for v in gained if gain(cell, v)} if gain else set()) for name, _p, gain in DEVIATIONS}
    names = [n for n, _p, _g in DEVIATIONS if any(preds[n].values()) or gains[n]]
    from vf.engine import deviation_sets

    for subset in deviation_sets("C09", names):
        if True:
            ok = all(any(preds[n][v] in ("lost", "any") for n in subset) for v in lost)
            # a violation that survived (also partially, for duplicates) must not be predicted lost
            ok = ok and not any(preds[n][v] == "lost" for n in subset for v in kept)
            ok = ok and all(any(v in gains[n] for n in subset) for v in gained)
            # every member must contribute, otherwise a smaller subset would have been found first
            if ok:
                return list(subset)
    return None
