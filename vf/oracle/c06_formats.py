"""C06 oracle pieces: JSON document validator, structural SARIF 2.1.0 validator, text reference renderer.

Nothing here looks at thai-lint's code: the JSON shape comes from docs/cli-reference.md
(`{"violations": [...], "total": N}`), the SARIF subset from the OASIS SARIF 2.1.0 specification
(the sections are quoted next to each test) and docs/sarif-output.md, the text layout from DESIGN.md C06
(`Found N violation(s):`, then per violation `  path[:line[:col]]` / `    [SEVERITY] rule: message`).
"""
from __future__ import annotations

import json
from collections import Counter

REPLACEMENT = "\ufffd"


def sanitize(s: str) -> str:
    """The documented surrogate replacement: bytes that are not UTF-8 (seen by Python as lone surrogates
    U+DC80..U+DCFF) become U+FFFD, one per undecodable byte. Written independently of the tool."""
    out = []
    for ch in s:
        out.append(REPLACEMENT if 0xD800 <= ord(ch) <= 0xDFFF else ch)
    return "".join(out)


def has_surrogate(s: str) -> bool:
    return any(0xD800 <= ord(ch) <= 0xDFFF for ch in s)


def strings_of(obj, path="$"):
    """Yield (json-path, str) for every string (keys and values) of a parsed JSON document."""
    if isinstance(obj, str):
        yield path, obj
    elif isinstance(obj, list):
        for i, x in enumerate(obj):
            yield from strings_of(x, f"{path}[]")
    elif isinstance(obj, dict):
        for k, v in obj.items():
            yield path + ".<key>", k
            yield from strings_of(v, f"{path}.{k}")


def _is_int(x) -> bool:
    return isinstance(x, int) and not isinstance(x, bool)


def parse_json(stdout: str):
    """-> (doc, problem). Strict: one JSON value, nothing else but whitespace; no NaN/Infinity."""

    def _bad_const(c):
        raise ValueError(f"non-standard JSON constant {c}")

    try:
        return json.loads(stdout, parse_constant=_bad_const), None
    except ValueError as e:
        return None, str(e)[:200]


# ------------------------------------------------------------------------------------------ JSON format


def validate_json_doc(doc):
    """-> (violations list or None, [(code, detail)])."""
    problems = []
    if not isinstance(doc, dict) or not isinstance(doc.get("violations"), list):
        return None, [("shape", "top level must be an object with a `violations` array")]
    vs = doc["violations"]
    if "total" not in doc or not _is_int(doc["total"]):
        problems.append(("total-missing", f"total={doc.get('total')!r}"))
    elif doc["total"] != len(vs):
        problems.append(("total-mismatch", f"total={doc['total']} but {len(vs)} violations listed"))
    for i, v in enumerate(vs):
        if not isinstance(v, dict):
            problems.append(("violation-shape", f"violations[{i}] is not an object"))
            return None, problems
        for key, typ in (("rule_id", str), ("file_path", str), ("message", str)):
            if not isinstance(v.get(key), typ):
                problems.append((f"field-{key}", f"violations[{i}].{key}={v.get(key)!r}"))
        for key in ("line", "column"):
            if not _is_int(v.get(key)):
                problems.append((f"field-{key}", f"violations[{i}].{key}={v.get(key)!r}"))
    for p, s in strings_of(doc):
        if has_surrogate(s):
            problems.append(("lone-surrogate", f"{p}: {s!r}"))
            break
    if any(c.startswith("field-") or c == "violation-shape" for c, _ in problems):
        return None, problems
    return vs, problems


# ------------------------------------------------------------------------------------------ SARIF 2.1.0

LEVELS = {"none", "note", "warning", "error"}


def validate_sarif(doc):
    """Structural validation against the subset of SARIF 2.1.0 the property names.
    -> (results as [(rule_id, uri, line, column0, message)] or None, [(code, detail)])."""
    P = []
    if not isinstance(doc, dict):
        return None, [("shape", "sarifLog must be an object (3.13)")]
    # 3.13.2 version: required, "2.1.0"
    if doc.get("version") != "2.1.0":
        P.append(("version", f"version={doc.get('version')!r}"))
    # 3.13.3 $schema: optional in the spec, promised by docs/sarif-output.md; must be a string naming the 2.1.0 schema
    sch = doc.get("$schema")
    if not isinstance(sch, str) or "sarif" not in sch.lower() or "2.1.0" not in sch:
        P.append(("schema", f"$schema={sch!r}"))
    # 3.13.4 runs: required array; docs: one run per invocation
    runs = doc.get("runs")
    if not isinstance(runs, list) or len(runs) != 1 or not isinstance(runs[0], dict):
        P.append(("runs", f"runs must be an array holding exactly one run object, got {type(runs).__name__}"
                  f"{'' if not isinstance(runs, list) else ' of length %d' % len(runs)}"))
        return None, P
    run = runs[0]
    # 3.14.6 tool required; 3.18.2 driver required; 3.19.8 name required
    tool = run.get("tool")
    driver = tool.get("driver") if isinstance(tool, dict) else None
    if not isinstance(driver, dict):
        P.append(("driver", "run.tool.driver missing"))
        return None, P
    if not isinstance(driver.get("name"), str) or not driver["name"]:
        P.append(("driver-name", f"name={driver.get('name')!r}"))
    if "version" in driver and not isinstance(driver["version"], str):
        P.append(("driver-version", f"version={driver.get('version')!r}"))
    if "version" not in driver:
        P.append(("driver-version", "driver.version missing (promised by docs/sarif-output.md)"))
    # 3.19.23 rules: array of unique reportingDescriptor objects; 3.49.3 id required string
    rules = driver.get("rules", [])
    ids = []
    if not isinstance(rules, list):
        P.append(("rules-shape", f"rules is {type(rules).__name__}"))
        rules = []
    for i, r in enumerate(rules):
        if not isinstance(r, dict) or not isinstance(r.get("id"), str) or not r["id"]:
            P.append(("rule-id", f"rules[{i}]={r!r}"[:200]))
            continue
        ids.append(r["id"])
        sd = r.get("shortDescription")
        if sd is not None and not (isinstance(sd, dict) and isinstance(sd.get("text"), str)):
            P.append(("rule-shortDescription", f"rules[{i}].shortDescription={sd!r}"[:200]))  # 3.49.9 / 3.12.3
    if len(set(ids)) != len(ids):
        P.append(("rules-duplicate", f"duplicate ids in {ids}"))
    # 3.14.23 results
    results = run.get("results")
    if not isinstance(results, list):
        P.append(("results-shape", f"results is {type(results).__name__}"))
        return None, P
    out = []
    broken = False
    for i, res in enumerate(results):
        if not isinstance(res, dict):
            P.append(("result-shape", f"results[{i}] is not an object"))
            broken = True
            continue
        rid = res.get("ruleId")
        if not isinstance(rid, str):
            P.append(("ruleId-missing", f"results[{i}].ruleId={rid!r}"))
            broken = True
        elif rid not in ids:
            P.append(("ruleId-undeclared", f"results[{i}].ruleId={rid!r} not in driver.rules ids {ids}"))
        if "ruleIndex" in res:  # 3.27.6
            ri = res["ruleIndex"]
            if not _is_int(ri) or not (0 <= ri < len(rules)) or (isinstance(rules[ri], dict) and rules[ri].get("id") != rid):
                P.append(("ruleIndex", f"results[{i}].ruleIndex={ri!r} does not point at rule {rid!r}"))
        if "level" in res and res["level"] not in LEVELS:  # 3.27.10
            P.append(("level", f"results[{i}].level={res['level']!r}"))
        msg = res.get("message")  # 3.27.11 required, 3.11.8 text
        if not isinstance(msg, dict) or not isinstance(msg.get("text"), str):
            P.append(("message-text", f"results[{i}].message={msg!r}"[:200]))
            broken = True
        locs = res.get("locations")  # 3.27.12
        if not isinstance(locs, list) or len(locs) != 1 or not isinstance(locs[0], dict):
            P.append(("locations", f"results[{i}].locations={locs!r}"[:200]))
            broken = True
            continue
        phys = locs[0].get("physicalLocation")
        art = phys.get("artifactLocation") if isinstance(phys, dict) else None
        uri = art.get("uri") if isinstance(art, dict) else None
        if not isinstance(uri, str):  # 3.4.3
            P.append(("uri", f"results[{i}] artifactLocation.uri={uri!r}"))
            broken = True
        region = phys.get("region") if isinstance(phys, dict) else None
        if not isinstance(region, dict):
            P.append(("region", f"results[{i}] region={region!r}"))
            broken = True
            continue
        line, col = region.get("startLine"), region.get("startColumn")
        if not _is_int(line):  # 3.30.5 positive integer
            P.append(("startLine-type", f"results[{i}] startLine={line!r}"))
            broken = True
        elif line < 1:
            P.append(("startLine<1", f"results[{i}] startLine={line}"))
        if col is None:
            col = 1  # 3.30.6: absent startColumn defaults to 1
        elif not _is_int(col):
            P.append(("startColumn-type", f"results[{i}] startColumn={col!r}"))
            broken = True
        elif col < 1:
            P.append(("startColumn<1", f"results[{i}] startColumn={col}"))
        if not broken:
            out.append((rid, uri, line, col - 1, msg["text"]))
    for p, s in strings_of(doc):
        if has_surrogate(s):
            where = "uri" if p.endswith(".uri") else "message" if p.endswith("message.text") else "other"
            P.append(("lone-surrogate", f"{where} {p}: {s!r}"))
            break
    return (None if broken else out), P


# ------------------------------------------------------------------------------------------ text format


def render_block(v: dict) -> str:
    """One violation in the text layout; a line/column of 0 is omitted (DESIGN C06 soundness)."""
    loc = v["file_path"]
    if v["line"]:
        loc += f":{v['line']}"
    if v["column"]:
        loc += f":{v['column']}"
    sev = v.get("severity", "ERROR")
    return f"  {loc}\n    [{sev}] {v['rule_id']}: {v['message']}\n\n"


def match_text(stdout: str, violations: list[dict], fold=None):
    """Is `stdout` the text rendering of exactly this multiset of violations? -> [(code, detail)].
    `fold`: optional normaliser applied to both sides (the in-process runner folds CRLF).

    The body must be a concatenation of the reference blocks of the violations in SOME order (multiset
    comparison; messages may contain newlines, so the text is matched against blocks instead of being split)."""
    n = len(violations)
    if fold is not None:
        stdout = fold(stdout)
    if n == 0:
        if "No violations found" not in stdout or "Found" in stdout.replace("No violations found", ""):
            return [("empty-run-text", f"expected the 'No violations found' line, got {stdout[:200]!r}")]
        return []
    first, sep, body = stdout.partition("\n\n")
    import re

    m = re.fullmatch(r"Found (\d+) violation\(s\):", first)
    if not m or not sep:
        return [("header", f"first line {first[:120]!r}")]
    problems = []
    if int(m.group(1)) != n:
        problems.append(("header-count", f"header says {m.group(1)}, JSON run lists {n}"))
    blocks = [render_block(v) for v in violations]
    if fold is not None:
        body = fold(body)
        blocks = [fold(b) for b in blocks]
    if body == "".join(blocks):
        return problems
    left = Counter(blocks)
    if _consume(body, left):
        return problems
    # diagnose: which field makes the first unmatched block differ?
    code = "blocks"
    for v, b in zip(violations, blocks):
        if b in body:
            continue
        variants = {
            "column": render_block({**v, "column": 0}),
            "line": render_block({**v, "line": 0, "column": 0}),
        }
        hit = [k for k, alt in variants.items() if alt in body]
        if hit:
            code = f"blocks|{hit[0]}"
        elif f"{v['rule_id']}: " not in body:
            code = "blocks|rule_id"
        elif v["message"] not in body:
            code = "blocks|message"
        elif v["file_path"] not in body:
            code = "blocks|file"
        problems.append((code, f"no block {b!r} in text output {body[:600]!r}"))
        return problems
    problems.append((code, f"text body is not a permutation of the {n} expected blocks: {body[:600]!r}"))
    return problems


def _consume(body: str, left: Counter, depth=0) -> bool:
    if not body:
        return sum(left.values()) == 0
    if depth > 400:
        return False
    for b in sorted(left):
        if left[b] and body.startswith(b):
            left[b] -= 1
            if _consume(body[len(b):], left, depth + 1):
                return True
            left[b] += 1
    return False
