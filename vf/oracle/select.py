"""Reference file-selection model for C14 (also used by C10 for "the files under a directory").

Written from the property statement and docs/how-to-ignore-violations.md ("Ignore Patterns (Repository-Level)"),
not from the implementation:

  a directory target selects the regular files beneath it (direct children only when non-recursive)
  minus files inside an always-excluded directory
  minus compiled artefacts
  minus files matching a repository ignore pattern (gitignore-style glob patterns);
  an excluded / ignored file contributes nothing even when it is named explicitly.

Paths are POSIX paths relative to the project root (cwd of every run). Only the pattern forms that the docs define
are supported by the matcher: `name/`, `**/name/`, `*.ext`, `dir/**`, `**/*_suffix.ext`, `exact/relative/path.ext`,
and file-name patterns with `?` / `[abc]`.

Gitignore semantics for these forms:
  * a trailing `/` restricts the pattern to directories; a matched directory ignores everything inside it;
  * a pattern without any other `/` is matched against a single path component at ANY depth
    (`*.py` "matches all Python files", `legacy/` any directory called legacy);
  * a pattern with a `/` in the middle is anchored at the project root; a leading `**/` means "in all directories",
    zero directories included; a trailing `/**` means everything inside;
  * `*`, `?`, `[..]` never match a `/`.

DEVIATIONS are explicit models of root causes found on the tree (one name = one repair). They are never applied
by the oracle; c14 uses them only to decide whether an observed mismatch is *exactly* a recorded finding.
"""
from __future__ import annotations

import fnmatch
import re
from collections import Counter

# the statement's list: .git, node_modules, __pycache__, .venv, venv, build, dist, caches, *.egg-info
EXCLUDED_DIRS = (".git", "node_modules", "__pycache__", ".venv", "venv", "build", "dist",
                 ".pytest_cache", ".mypy_cache", ".ruff_cache")
EXCLUDED_SUFFIX_DIR = ".egg-info"
COMPILED_EXT = (".pyc", ".pyo", ".pyd", ".so", ".dll", ".dylib", ".class", ".o", ".obj")

DEVIATIONS = ("dirpat-prefix", "globstar-needs-dir", "basename-whole-path", "filename-like-excluded-dir")  # all repaired in /repo; kept to classify regressions


def is_excluded_dirname(name: str) -> bool:
    return name in EXCLUDED_DIRS or name.endswith(EXCLUDED_SUFFIX_DIR)


def in_excluded_dir(rel: str) -> bool:
    return any(is_excluded_dirname(p) for p in rel.split("/")[:-1])


def is_compiled(rel: str) -> bool:
    base = rel.rsplit("/", 1)[-1]
    dot = base.rfind(".")
    return dot > 0 and base[dot:] in COMPILED_EXT


# ------------------------------------------------------------------------------------- pattern matching


def _seg_regex(seg: str) -> str:
    """One path component with *, ?, [..] (never crossing '/')."""
    out, i = [], 0
    while i < len(seg):
        c = seg[i]
        if c == "*":
            out.append("[^/]*")
        elif c == "?":
            out.append("[^/]")
        elif c == "[":
            j = seg.find("]", i + 1)
            if j < 0:
                out.append(re.escape(c))
            else:
                out.append("[" + re.escape(seg[i + 1:j]).replace("\\-", "-") + "]")
                i = j
        else:
            out.append(re.escape(c))
        i += 1
    return "".join(out)


def _core_regex(core: str, globstar_zero: bool = True, float_unanchored: bool = True) -> str:
    segs = core.split("/")
    anchored = len(segs) > 1
    rx = ""
    if segs[0] == "**" and len(segs) > 1:
        rx = "(?:.*/)?" if globstar_zero else "(?:.*/)"
        segs = segs[1:]
    elif not anchored and float_unanchored:
        rx = "(?:.*/)?"
    parts = []
    for k, s in enumerate(segs):
        if s == "**" and k == len(segs) - 1 and k > 0:
            parts.append(".+")
        else:
            parts.append(_seg_regex(s))
    return rx + "/".join(parts)


def pattern_form(pattern: str) -> str:
    core = pattern.rstrip("/")
    if pattern.endswith("/"):
        return "**/name/" if core.startswith("**/") else ("name/" if "/" not in core else "a/b/")
    if core.endswith("/**"):
        return "dir/**"
    if core.startswith("**/"):
        return "**/*_suffix.ext"
    if "/" in core:
        return "exact-path"
    if "?" in core:
        return "?"
    if "[" in core:
        return "[abc]"
    if core.startswith("*."):
        return "*.ext"
    return "exact-path"


def matches(rel: str, pattern: str, devs=()) -> bool:
    """Does the repository ignore pattern cover the FILE rel (directly or through one of its directories)?"""
    dir_only = pattern.endswith("/")
    core = pattern.rstrip("/")
    parts = rel.split("/")
    cands = ["/".join(parts[:k]) for k in range(1, len(parts))]
    if not dir_only:
        cands.append(rel)
    gz = "globstar-needs-dir" not in devs
    if not dir_only and "/" not in core and "basename-whole-path" in devs:
        # root cause: a slash-free file pattern is matched against the whole relative path, wildcards crossing '/'
        return fnmatch.fnmatchcase(rel, core)
    rx = re.compile(_core_regex(core, gz))
    hit = any(rx.fullmatch(c) for c in cands)
    if not hit and dir_only and "dirpat-prefix" in devs:
        # root cause: a directory pattern is matched as a string prefix of the whole relative path
        hit = re.fullmatch(_core_regex(core, gz, float_unanchored=False) + ".*", rel, re.S) is not None
    return hit


def is_ignored(rel: str, patterns, devs=()) -> bool:
    return any(matches(rel, p, devs) for p in patterns)


# ------------------------------------------------------------------------------------- selection


def under(rel: str, target: str, recursive: bool) -> bool:
    if target in (".", ""):
        return recursive or "/" not in rel
    if not rel.startswith(target + "/"):
        return False
    return recursive or "/" not in rel[len(target) + 1:]


def drop_reason(rel: str, patterns, devs=()) -> str | None:
    """Why a file under a target is not linted (None = it is linted)."""
    if in_excluded_dir(rel):
        return "excluded-dir"
    if "filename-like-excluded-dir" in devs and is_excluded_dirname(rel.rsplit("/", 1)[-1]):
        # root cause: the always-excluded directory names are compared with every path component, the file name included
        return "filename-like-excluded-dir"
    if is_compiled(rel):
        return "compiled"
    for p in patterns:
        if matches(rel, p, devs):
            return "ignored:" + pattern_form(p)
    return None


def select(files, targets, recursive: bool, patterns, devs=()) -> Counter:
    """files: all regular files of the project (relative paths); targets: '.', directories or files.
    -> Counter {file: number of times the run lints it} (a file covered by two targets is linted twice)."""
    fileset = set(files)
    out = Counter()
    for t in targets:
        t = t.rstrip("/") or "."
        cands = [t] if t in fileset else [f for f in files if under(f, t, recursive)]
        for f in cands:
            if drop_reason(f, patterns, devs) is None:
                out[f] += 1
    return out
