"""Violation seed library (DESIGN.md 2.4).

seed(family, lang, u, var) -> Snippet(lines, expect=[(rule_id, rel_line0)])
    u   unique integer: all identifiers / literals of the snippet are derived from it, so
        snippets never pair up with each other (no accidental DRY / stringly findings)
    var small integer choosing a surface variant

compose(lang, [snippet...]) stacks snippets into one file and returns the absolute expected
lines. Seeds describe what is *planted*; properties that need ground truth validate the seed
against the tool (or against their own model) - seeds are never the oracle for "does it fire".
"""
from __future__ import annotations

from dataclasses import dataclass, field

EXT = {"py": ".py", "ts": ".ts", "js": ".js", "rs": ".rs"}
COMMENT = {"py": "#", "ts": "//", "js": "//", "rs": "//"}


@dataclass
class Snippet:
    lines: list
    expect: list = field(default_factory=list)  # [(rule_id, rel_line0)]
    family: str = ""
    toplevel: bool = True  # starts at column 0 and may be placed at module level


def _magic(u):
    return 1300 + 7 * u  # never in any default allow-list, distinct per u


# --------------------------------------------------------------------------- python


def py_nesting(u, var):
    kinds = [
        [f"if a{u}:", f"for i{u} in a{u}:", f"while i{u}:", f"if i{u} > a{u}:", f"with open(i{u}) as h{u}:", f"if h{u}:"],
        [f"for i{u} in a{u}:", f"for j{u} in i{u}:", f"if j{u}:", f"while j{u}:", f"try:", f"if i{u}:"],
    ][var % 2]
    lines = [f"def deep_{u}(a{u}):"]
    ind = 1
    for k in kinds:
        lines.append("    " * ind + k)
        ind += 1
    lines.append("    " * ind + f"use_{u}(a{u})")
    if var % 2 == 1:
        lines.append("    " * 5 + "except OSError:")
        lines.append("    " * 6 + f"use_{u}(None)")
    return Snippet(lines, [("nesting.excessive-depth", 0)], "nesting")


def py_srp(u, var):
    n = 8 + var % 3
    lines = [f"class Widget{u}:"]
    lines += [f"    def __init__(self, v{u}):", f"        self.v{u} = v{u}", ""]
    for i in range(n):
        lines += [f"    def act{i}_{u}(self, p{u}):", f"        self.v{u} = p{u} + self.v{u}", f"        return use_{u}(self.v{u}, p{u})", ""]
    return Snippet(lines[:-1], [("srp.violation", 0)], "srp")


def py_magic(u, var):
    m = _magic(u)
    forms = [
        [f"def calc_{u}(a{u}):", f"    return a{u} * {m}"],
        [f"def calc_{u}(a{u}):", f"    b{u} = a{u} + {m}", f"    return b{u}"],
        [f"def calc_{u}(a{u}):", f"    return use_{u}(a{u}, {m})"],
    ]
    f = forms[var % 3]
    return Snippet(f, [("magic-numbers.numeric-literal", 1)], "magic")


def py_print(u, var):
    forms = [
        [f"def show_{u}(a{u}):", f"    print(a{u})", f"    return a{u}"],
        [f"def show_{u}(a{u}):", f"    b{u} = a{u}", f"    print('value', b{u})"],
    ]
    return Snippet(forms[var % 2], [("improper-logging.print-statement", 1 + var % 2)], "print")


def py_methodprop(u, var):
    lines = [f"class Rec{u}:", f"    def __init__(self, n{u}):", f"        self._n{u} = n{u}", "",
             f"    def get_n{u}(self):", f"        return self._n{u}"]
    return Snippet(lines, [("method-property.should-be-property", 4)], "methodprop")


def py_stateless(u, var):
    lines = [f"class Calc{u}:", f"    def add_{u}(self, a{u}, b{u}):", f"        return a{u} + b{u}", "",
             f"    def sub_{u}(self, a{u}, b{u}):", f"        return a{u} - b{u}"]
    return Snippet(lines, [("stateless-class.violation", 0)], "stateless")


def py_pipeline(u, var):
    lines = [f"def pipe_{u}(items{u}):", f"    for it{u} in items{u}:", f"        if not it{u}.ok{u}:", "            continue",
             f"        it{u}.run{u}()"]
    return Snippet(lines, [("collection-pipeline.embedded-filter", 1)], "pipeline")


def py_lbyl(u, var):
    lines = [f"def look_{u}(d{u}, k{u}):", f"    if k{u} in d{u}:", f"        return d{u}[k{u}]", "    return None"]
    return Snippet(lines, [("lbyl.dict-key-check", 1)], "lbyl")


def py_lazy(u, var):
    lines = [f"def lazy_{u}(x{u}):", f"    return compute_{u}(x{u})  # noqa"]
    return Snippet(lines, [("lazy-ignores.unjustified", 1)], "lazy")


def py_concat(u, var):
    lines = [f"def cat_{u}(items{u}):", f'    s{u} = ""', f"    for it{u} in items{u}:", f"        s{u} += str(it{u})", f"    return s{u}"]
    return Snippet(lines, [("performance.string-concat-loop", 3)], "concat")


def py_regex(u, var):
    lines = [f"def rx_{u}(items{u}):", f"    for it{u} in items{u}:", f'        if re.match(r"a{u}+", it{u}):', f"            return it{u}", "    return None"]
    return Snippet(lines, [("performance.regex-in-loop", 2)], "regex")


# --------------------------------------------------------------------------- typescript / javascript


def _ann(lang, t):
    return f": {t}" if lang == "ts" else ""


def ts_nesting(lang, u, var):
    kinds = [
        [f"if (a{u}) {{", f"for (const i{u} of a{u}) {{", f"while (i{u}) {{", f"if (i{u} > a{u}) {{", f"for (const j{u} in i{u}) {{"],
        [f"for (const i{u} of a{u}) {{", f"if (i{u}) {{", f"do {{", f"if (a{u}) {{", f"while (i{u}) {{"],
    ][var % 2]
    lines = [f"function deep_{u}(a{u}{_ann(lang, 'any')}) {{"]
    ind = 1
    for k in kinds:
        lines.append("    " * ind + k)
        ind += 1
    lines.append("    " * ind + f"use_{u}(a{u});")
    for k in reversed(kinds):
        ind -= 1
        lines.append("    " * ind + ("} while (a%d);" % u if k.startswith("do") else "}"))
    lines.append("}")
    return Snippet(lines, [("nesting.excessive-depth", 0)], "nesting")


def ts_srp(lang, u, var):
    n = 8 + var % 3
    lines = [f"class Widget{u} {{"]
    for i in range(n):
        lines += [f"    act{i}_{u}(p{u}{_ann(lang, 'number')}) {{", f"        return use_{u}(p{u}, this);", "    }"]
    lines.append("}")
    return Snippet(lines, [("srp.violation", 0)], "srp")


def ts_magic(lang, u, var):
    m = _magic(u)
    forms = [
        [f"function calc_{u}(a{u}{_ann(lang, 'number')}) {{", f"    return a{u} * {m};", "}"],
        [f"function calc_{u}(a{u}{_ann(lang, 'number')}) {{", f"    const b{u} = a{u} + {m};", f"    return b{u};", "}"],
    ]
    return Snippet(forms[var % 2], [("magic-numbers.numeric-literal", 1)], "magic")


def ts_print(lang, u, var):
    meth = ["log", "warn", "error", "debug", "info"][var % 5]
    lines = [f"function show_{u}(a{u}{_ann(lang, 'number')}) {{", f"    console.{meth}(a{u});", f"    return a{u};", "}"]
    return Snippet(lines, [("improper-logging.print-statement", 1)], "print")


def ts_concat(lang, u, var):
    lines = [f"function cat_{u}(items{u}{_ann(lang, 'string[]')}) {{", f'    let s{u} = "";', f"    for (const it{u} of items{u}) {{",
             f"        s{u} += it{u};", "    }", f"    return s{u};", "}"]
    return Snippet(lines, [("performance.string-concat-loop", 3)], "concat")


def ts_regex(lang, u, var):
    lines = [f"function rx_{u}(items{u}{_ann(lang, 'string[]')}) {{", f"    for (const it{u} of items{u}) {{",
             f'        const r{u} = new RegExp("a{u}+");', f"        use_{u}(r{u}, it{u});", "    }", "}"]
    return Snippet(lines, [("performance.regex-in-loop", 2)], "regex")


def ts_lazy(lang, u, var):
    lines = [f"function lazy_{u}(x{u}{_ann(lang, 'any')}) {{", "    // @ts-ignore", f"    return compute_{u}(x{u});", "}"]
    return Snippet(lines, [("lazy-ignores.unjustified", 1)], "lazy")


# --------------------------------------------------------------------------- rust


def rs_nesting(u, var):
    kinds = [
        [f"if a{u} > 0 {{", f"for i{u} in 0..a{u} {{", f"while i{u} > 0 {{", f"if i{u} > a{u} {{", "loop {"],
        [f"for i{u} in 0..a{u} {{", f"if i{u} > 0 {{", f"match i{u} {{ _ => {{", f"if a{u} > 1 {{", f"while a{u} > 2 {{"],
    ][var % 2]
    lines = [f"fn deep_{u}(a{u}: i32) {{"]
    ind = 1
    for k in kinds:
        lines.append("    " * ind + k)
        ind += 1
    lines.append("    " * ind + f"use_{u}(a{u});")
    for k in reversed(kinds):
        ind -= 1
        lines.append("    " * ind + ("} }" if k.startswith("match") else "}"))
    lines.append("}")
    return Snippet(lines, [("nesting.excessive-depth", 0)], "nesting")


def rs_srp(u, var):
    n = 8 + var % 3
    lines = [f"struct Widget{u} {{", f"    v{u}: i32,", "}", "", f"impl Widget{u} {{"]
    for i in range(n):
        lines += [f"    pub fn act{i}_{u}(&self, p{u}: i32) -> i32 {{", f"        use_{u}(self.v{u}, p{u})", "    }"]
    lines.append("}")
    return Snippet(lines, [("srp.violation", 0)], "srp")


def rs_magic(u, var):
    m = _magic(u)
    lines = [f"fn calc_{u}(a{u}: i32) -> i32 {{", f"    a{u} * {m}", "}"]
    return Snippet(lines, [("magic-numbers.numeric-literal", 1)], "magic")


def rs_unwrap(u, var):
    if var % 2 == 0:
        lines = [f"fn risky_{u}(x{u}: Option<i32>) -> i32 {{", f"    let v{u} = x{u}.unwrap();", f"    v{u}", "}"]
        return Snippet(lines, [("unwrap-abuse.unwrap-call", 1)], "unwrap")
    lines = [f"fn risky_{u}(x{u}: Option<i32>) -> i32 {{", f"    let w{u} = 0;", f"    let v{u} = w{u} + x{u}.unwrap();", f"    v{u}", "}"]
    return Snippet(lines, [("unwrap-abuse.unwrap-call", 2)], "unwrap")


def rs_clone(u, var):
    lines = [f"fn cl_{u}(items{u}: Vec<String>) {{", f"    for it{u} in items{u}.iter() {{", f"        let c{u} = it{u}.clone();",
             f"        use_{u}(c{u});", "    }", "}"]
    return Snippet(lines, [("clone-abuse.clone-in-loop", 2)], "clone")


def rs_blocking(u, var):
    if var % 2 == 0:
        lines = [f"async fn blk_{u}() {{", f'    let s{u} = std::fs::read_to_string("f{u}");', f"    use_{u}(s{u});", "}"]
        return Snippet(lines, [("blocking-async.fs-in-async", 1)], "blocking")
    lines = [f"async fn blk_{u}(d{u}: std::time::Duration) {{", f"    std::thread::sleep(d{u});", "}"]
    return Snippet(lines, [("blocking-async.sleep-in-async", 1)], "blocking")


_PY = {"nesting": py_nesting, "srp": py_srp, "magic": py_magic, "print": py_print, "methodprop": py_methodprop,
       "stateless": py_stateless, "pipeline": py_pipeline, "lbyl": py_lbyl, "lazy": py_lazy, "concat": py_concat, "regex": py_regex}
_TS = {"nesting": ts_nesting, "srp": ts_srp, "magic": ts_magic, "print": ts_print, "concat": ts_concat}
_RS = {"nesting": rs_nesting, "srp": rs_srp, "magic": rs_magic, "unwrap": rs_unwrap, "clone": rs_clone, "blocking": rs_blocking}

# family -> CLI command that reports it, and the rule-id prefix
FAMILY_CMD = {
    "nesting": "nesting", "srp": "srp", "magic": "magic-numbers", "print": "improper-logging", "methodprop": "method-property",
    "stateless": "stateless-class", "pipeline": "pipeline", "lbyl": "lbyl", "lazy": "lazy-ignores", "concat": "perf", "regex": "perf",
    "unwrap": "unwrap-abuse", "clone": "clone-abuse", "blocking": "blocking-async",
}
FAMILY_RULE = {
    "nesting": "nesting.excessive-depth", "srp": "srp.violation", "magic": "magic-numbers.numeric-literal",
    "print": "improper-logging.print-statement", "methodprop": "method-property.should-be-property",
    "stateless": "stateless-class.violation", "pipeline": "collection-pipeline.embedded-filter", "lbyl": "lbyl.dict-key-check",
    "lazy": "lazy-ignores.unjustified", "concat": "performance.string-concat-loop", "regex": "performance.regex-in-loop",
    "unwrap": "unwrap-abuse.unwrap-call", "clone": "clone-abuse.clone-in-loop", "blocking": "blocking-async.fs-in-async",
}


def families(lang):
    return sorted({"py": _PY, "ts": _TS, "js": _TS, "rs": _RS}[lang])


def seed(family, lang, u, var=0) -> Snippet:
    if lang == "py":
        s = _PY[family](u, var)
    elif lang in ("ts", "js"):
        s = _TS[family](lang, u, var)
    else:
        s = _RS[family](u, var)
    s.family = family
    return s


def filler(lang, u):
    """A finding-free function from a pool disjoint from the seeds."""
    if lang == "py":
        return Snippet([f"def quiet_{u}(q{u}):", f"    r{u} = helper_{u}(q{u})", f"    return r{u}"], [], "filler")
    if lang in ("ts", "js"):
        return Snippet([f"function quiet_{u}(q{u}{_ann(lang, 'any')}) {{", f"    const r{u} = helper_{u}(q{u});", f"    return r{u};", "}"], [], "filler")
    return Snippet([f"fn quiet_{u}(q{u}: i32) -> i32 {{", f"    let r{u} = helper_{u}(q{u});", f"    r{u}", "}"], [], "filler")


HEADERS = {
    "py": ['"""', "Purpose: generated module", "", "Scope: verification", "", "Overview: generated by the verification harness for",
           "    thai-lint; contains planted constructs.", "", "Dependencies: none", "", "Exports: functions", "",
           "Interfaces: functions", "", "Implementation: generated", '"""', "import re", ""],
    "ts": ["/**", " * Purpose: generated module", " *", " * Scope: verification", " *", " * Overview: generated by the verification harness for",
           " *     thai-lint; contains planted constructs.", " *", " * Dependencies: none", " *", " * Exports: functions", " *",
           " * Props/Interfaces: functions", " *", " * State/Behavior: generated", " */", ""],
    "rs": ["// generated module", ""],
}
HEADERS["js"] = HEADERS["ts"]


def compose(lang, snippets, header=True, gap=2):
    """-> (text, expected [(rule_id, line1)], spans [(family, first_line1, last_line1)])"""
    lines = list(HEADERS[lang]) if header else []
    expected, spans = [], []
    for s in snippets:
        if lines and lines[-1] != "":
            lines.append("")
        lines.extend([""] * (gap - 1))
        base = len(lines)
        lines.extend(s.lines)
        spans.append((s.family, base + 1, base + len(s.lines)))
        for rid, rel in s.expect:
            expected.append((rid, base + rel + 1))
    return "\n".join(lines) + "\n", expected, spans


# --------------------------------------------------------------------------- cross-file seed sets


def dry_block(lang, u, n=5):
    """n consecutive ordinary statements, unique per u."""
    if lang == "py":
        return [f"    d{u}_{i} = transform_{u}_{i}(src_{u}, d{u}_x{i})" for i in range(n)]
    return [f"    const d{u}_{i} = transform_{u}_{i}(src_{u}, d{u}_x{i});" for i in range(n)]


def dry_set(lang, u, nfiles=2, n=5):
    """-> {relpath: text}: the same n-statement block in nfiles files (rule dry.duplicate-code, needs dry.enabled)."""
    out = {}
    block = dry_block(lang, u, n)
    for k in range(nfiles):
        if lang == "py":
            lines = [f"def host_{u}_{k}(src_{u}):", f"    first_{u}_{k} = begin_{u}_{k}(src_{u})"] + block + [f"    return finish_{u}_{k}(first_{u}_{k})"]
        else:
            lines = [f"function host_{u}_{k}(src_{u}{_ann(lang, 'any')}) {{", f"    const first_{u}_{k} = begin_{u}_{k}(src_{u});"] + block + [f"    return finish_{u}_{k}(first_{u}_{k});", "}"]
        out[f"dup{u}_{k}{EXT[lang]}"] = "\n".join(lines) + "\n"
    return out


def stringly_set(lang, u, nfiles=2):
    """-> {relpath: text}: the same membership validation in nfiles files (stringly-typed.repeated-validation)."""
    out = {}
    for k in range(nfiles):
        if lang == "py":
            lines = [f"def gate_{u}_{k}(env_{u}):", f'    if env_{u} in ("stage{u}", "prod{u}", "dev{u}"):', f"        return go_{u}_{k}(env_{u})", "    return None"]
        else:
            lines = [f"function gate_{u}_{k}(env_{u}{_ann(lang, 'string')}) {{", f'    if (env_{u} === "stage{u}") {{', f"        return go_{u}_{k}(env_{u});",
                     f'    }} else if (env_{u} === "prod{u}") {{', f"        return stop_{u}_{k}(env_{u});", f'    }} else if (env_{u} === "dev{u}") {{',
                     f"        return wait_{u}_{k}(env_{u});", "    }", "    return null;", "}"]
        out[f"str{u}_{k}{EXT[lang]}"] = "\n".join(lines) + "\n"
    return out
