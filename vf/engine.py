"""Engine: tiers, seeds, shards, statistics, known findings, evidence, exits (DESIGN.md 2.5-2.7).

A property module (vf/props/cNN.py) provides
    ID, RULE (non-trivial rule, text), ASSUMPTIONS (list[str]), TECHNIQUE (text)
    run(ctx)            explore; called once per shard process
    replay(case)        re-execute one serialised case, return Case
Cases are plain JSON data; check functions are pure functions of (case, /repo tree).
"""
from __future__ import annotations

import argparse
import hashlib
import importlib
import json
import os
import subprocess
import sys
import time
import traceback
from collections import Counter
from dataclasses import dataclass, field

VERIF = os.path.dirname(os.path.dirname(os.path.abspath(__file__)))
NSHARDS = int(os.environ.get("VERIF_SHARDS", "16"))
MAX_ROOT_CAUSES = 4  # distinct unknown signatures searched for per explore() call


@dataclass
class Failure:
    sig: str
    detail: dict


@dataclass
class Case:
    key: str  # structural identity used for "distinct"
    nontrivial: bool
    labels: list = field(default_factory=list)
    failures: list = field(default_factory=list)
    sample: object = None


def h(obj) -> str:
    return hashlib.sha256(json.dumps(obj, sort_keys=True, default=str).encode()).hexdigest()[:16]


class Known:
    def __init__(self):
        import glob

        self.entries = {}
        paths = [os.path.join(VERIF, "known_findings.json")] + sorted(glob.glob(os.path.join(VERIF, "known", "*.json")))
        for path in paths:
            if not os.path.exists(path):
                continue
            doc = json.load(open(path))
            for e in doc.get("findings", []):
                self.entries.setdefault(e["property"], {})[e["signature"]] = e["what"]

    def what(self, prop, sig):
        return self.entries.get(prop, {}).get(sig)


def live_first(prop, names, key=lambda n: n):
    """Order deviation models so that those still listed in known_findings.json come first.

    Property modules explain a mismatch by the smallest set of modelled deviations, trying candidates in list
    order. Models of defects that have been REPAIRED stay in the modules (so a regression is classified, and then
    reported, because its signature is no longer listed) but must not win over a still-known deviation that
    explains the same mismatch."""
    sigs = Known().entries.get(prop, {})

    def live(n):
        k = key(n)
        return any(k in sig for sig in sigs)

    names = list(names)
    return [n for n in names if live(n)] + [n for n in names if not live(n)]


def deviation_sets(prop, names, max_size=None, key=lambda n: n):
    """Candidate explanations in the order they must be tried: every set of still-known deviations (smallest first),
    and only then sets that contain a repaired one (smallest first). A mismatch that the known deviations explain
    together must never be attributed to a repaired defect just because that explanation needs fewer names."""
    import itertools

    ordered = live_first(prop, names, key)
    sigs = Known().entries.get(prop, {})
    live = [n for n in ordered if any(key(n) in sig for sig in sigs)]
    top = len(ordered) if max_size is None else min(max_size, len(ordered))
    for r in range(1, min(top, len(live)) + 1):
        yield from itertools.combinations(live, r)
    live_set = set(live)
    for r in range(1, top + 1):
        for combo in itertools.combinations(ordered, r):
            if not set(combo) <= live_set:
                yield combo


class _Violation(Exception):
    pass


class Stats:
    def __init__(self):
        self.evaluations = 0
        self.keys = set()
        self.labels = Counter()
        self.samples = []
        self.known = Counter()
        self.violations = []  # {sig, detail, case}
        self.notes = []
        self.truncated = False
        self.exhaustive = None
        self.extra = {}

    def dump(self):
        return {
            "evaluations": self.evaluations,
            "keys": sorted(self.keys),
            "labels": dict(self.labels),
            "samples": self.samples,
            "known": dict(self.known),
            "violations": self.violations,
            "notes": self.notes,
            "truncated": self.truncated,
            "exhaustive": self.exhaustive,
            "extra": self.extra,
        }


class Ctx:
    def __init__(self, prop, shard, nshards, seed, tier, budget_s):
        self.prop = prop
        self.shard = shard
        self.nshards = nshards
        self.seed = seed
        self.tier = tier
        self.quick = tier == "quick"
        self.stats = Stats()
        self.known = Known()
        self.t0 = time.time()
        self.deadline = self.t0 + budget_s
        self._session_sigs = set()
        self.hb_path = None
        self.partial_path = None
        self._since_dump = 0

    def heartbeat(self, value):
        """Tell the parent which case is running (hang detection is the parent's job: a case stuck
        inside C code cannot be interrupted from within the process)."""
        if not self.hb_path:
            return
        try:
            with open(self.hb_path + ".tmp", "w") as fh:
                json.dump({"t": time.time(), "case": value}, fh, default=str)
            os.replace(self.hb_path + ".tmp", self.hb_path)
            self._since_dump += 1
            if self._since_dump >= 25:
                self._since_dump = 0
                with open(self.partial_path + ".tmp", "w") as fh:
                    json.dump({"ok": True, "stats": self.stats.dump()}, fh, default=str)
                os.replace(self.partial_path + ".tmp", self.partial_path)
        except OSError:
            pass

    # ---- helpers for property modules
    def n(self, quick: int, thorough: int) -> int:
        """Per-shard case count for the tier."""
        return quick if self.quick else thorough

    def out_of_time(self) -> bool:
        if time.time() > self.deadline:
            self.stats.truncated = True
            return True
        return False

    def my_cells(self, cells: list) -> list:
        """This shard's slice of a finite matrix (round robin)."""
        return [c for i, c in enumerate(cells) if i % self.nshards == self.shard]

    def record(self, case: Case, value) -> list:
        """Book-keeping for one evaluated case; returns the failures that are NOT known findings."""
        st = self.stats
        st.evaluations += 1
        for lab in case.labels:
            st.labels[lab] += 1
        if case.nontrivial:
            if case.key not in st.keys and len(st.samples) < 3:
                st.samples.append(case.sample if case.sample is not None else value)
            st.keys.add(case.key)
        unknown = []
        for f in case.failures:
            if self.known.what(self.prop, f.sig) is not None:
                st.known[f.sig] += 1
            else:
                unknown.append(f)
        return unknown

    def add_violation(self, f: Failure, value, flaky=False):
        if f.sig in self._session_sigs:
            return
        self._session_sigs.add(f.sig)
        d = dict(f.detail)
        if flaky:
            d["flaky"] = True
        self.stats.violations.append({"sig": f.sig, "detail": d, "case": value})

    def each(self, cells: list, check, exhaustive_label: str | None = None):
        """Enumerate a finite list of cases (already this shard's slice). No shrinking."""
        done = 0
        for value in cells:
            if self.out_of_time():
                break
            self.heartbeat(value)
            case = check(value)
            done += 1
            for f in self.record(case, value):
                self.add_violation(f, value)
        if exhaustive_label is not None:
            self.stats.extra.setdefault("matrix", {})[exhaustive_label] = {"cells": len(cells), "done": done}
        return done

    def explore(self, strategy, check, max_examples: int, salt: int = 0, shrink: bool = True):
        """Hypothesis search: check(value) -> Case. Known failures are counted and skipped,
        the first unknown failure is shrunk under 'same signature' and recorded; the search
        then continues behind it (up to MAX_ROOT_CAUSES signatures)."""
        import hypothesis
        from hypothesis import HealthCheck, Phase, given, settings
        from hypothesis.errors import FailedHealthCheck, Flaky, Unsatisfiable

        try:
            from hypothesis.errors import FlakyFailure  # noqa
        except ImportError:  # pragma: no cover
            FlakyFailure = Flaky

        phases = [Phase.explicit, Phase.generate] + ([Phase.shrink] if shrink else [])
        for attempt in range(MAX_ROOT_CAUSES):
            if self.out_of_time():
                return
            holder = {}

            def body(value):
                if time.time() > self.deadline and "sig" not in holder:
                    self.stats.truncated = True
                    return
                self.heartbeat(value)
                case = check(value)
                for f in self.record(case, value):
                    if f.sig in self._session_sigs:
                        continue
                    if "sig" in holder and f.sig != holder["sig"]:
                        continue
                    holder["sig"] = f.sig
                    holder["last"] = (f, value)
                    raise _Violation(f.sig)

            seed = (self.seed * 1000 + self.shard) * 101 + salt * 13 + attempt
            test = hypothesis.seed(seed)(
                settings(
                    max_examples=max_examples,
                    database=None,
                    deadline=None,
                    derandomize=False,
                    report_multiple_bugs=False,
                    phases=phases,
                    suppress_health_check=[HealthCheck.too_slow, HealthCheck.data_too_large],
                    print_blob=False,
                )(given(strategy)(body))
            )
            try:
                test()
                return
            except _Violation:
                f, value = holder["last"]
                self.add_violation(f, value)
            except (Flaky, FlakyFailure):
                if "last" in holder:
                    f, value = holder["last"]
                    self.add_violation(f, value, flaky=True)
                else:
                    raise
            except (FailedHealthCheck, Unsatisfiable):
                raise
            # continue: search again with this signature excluded
            max_examples = max(10, max_examples // 2)


# --------------------------------------------------------------------------------- shard process


def _shard_main(prop, shard, nshards, seed, tier, budget, out):
    from vf import project, runner

    result = {"ok": False}
    try:
        runner.init()
        mod = importlib.import_module(f"vf.props.{prop.lower()}")
        ctx = Ctx(prop, shard, nshards, seed, tier, budget)
        ctx.hb_path = out + ".hb"
        ctx.partial_path = out + ".partial"
        if shard == 0:
            runner.SELFCHECK["left"] = 5
        if shard == 0 and not os.environ.get("VERIF_NO_REGRESSION"):  # switch for sensitivity experiments: search alone
            _regression_replays(ctx, mod, prop)
        mod.run(ctx)
        ctx.stats.extra["mode_selfcheck_cases"] = runner.SELFCHECK["done"]
        result = {"ok": True, "stats": ctx.stats.dump()}
    except BaseException:  # harness error
        result = {"ok": False, "error": traceback.format_exc()}
    finally:
        project.cleanup_now()
    with open(out, "w") as fh:
        json.dump(result, fh, default=str)


def _regression_replays(ctx, mod, prop):
    """Seconds-long replay tier: the minimal inputs of defects that were repaired (replays/<id>/fixed-*.json)
    are re-judged on every run; a defect that returns is an ordinary violation (it is no longer listed as known)."""
    import glob

    n = 0
    for path in sorted(glob.glob(os.path.join(VERIF, "replays", prop, "fixed-*.json"))):
        if ctx.out_of_time():
            break
        value = json.load(open(path))["case"]
        ctx.heartbeat(value)
        case = mod.replay(value)
        case.labels = list(case.labels) + ["regression-replay"]
        for f in ctx.record(case, value):
            ctx.add_violation(f, value)
        n += 1
    ctx.stats.extra["regression_replays"] = n


# --------------------------------------------------------------------------------- parent


def _budget(mod, tier):
    b = getattr(mod, "BUDGET_S", {"quick": 240, "thorough": 2400})
    return b[tier]


def main(argv=None):
    ap = argparse.ArgumentParser(prog="check")
    ap.add_argument("prop")
    ap.add_argument("--tier", default=os.environ.get("VERIF_TIER", "quick"), choices=["quick", "thorough"])
    ap.add_argument("--replay")
    ap.add_argument("--shard", type=int)
    ap.add_argument("--nshards", type=int, default=NSHARDS)
    ap.add_argument("--out")
    ap.add_argument("--budget", type=float)
    args = ap.parse_args(argv)
    prop = args.prop.upper()
    try:
        seed = int(os.environ.get("VERIF_SEED", "1"))
    except ValueError:
        seed = 1

    sys.path.insert(0, VERIF)
    if args.shard is not None:
        _shard_main(prop, args.shard, args.nshards, seed, args.tier, args.budget, args.out)
        return 0

    from vf import runner

    try:
        runner.init()
        mod = importlib.import_module(f"vf.props.{prop.lower()}")
    except Exception:
        traceback.print_exc()
        print(f"HARNESS-ERROR property={prop} import failed")
        return 2

    if args.replay:
        return _replay(mod, prop, args.replay)

    t0 = time.time()
    budget = _budget(mod, args.tier)
    nshards = args.nshards
    scratch = runner.neutral_dir()
    procs = []
    env = dict(os.environ)
    env.setdefault("PYTHONHASHSEED", "0")
    env["PYTHONDONTWRITEBYTECODE"] = "1"
    env["THAILINT_VERIF"] = "1"
    env["PYTHONPATH"] = VERIF + os.pathsep + runner.REPO
    for i in range(nshards):
        out = os.path.join(scratch, f"shard-{i}.json")
        log = open(os.path.join(scratch, f"shard-{i}.log"), "w")
        p = subprocess.Popen(
            [runner.PYTHON, "-m", "vf.engine", prop, "--tier", args.tier, "--shard", str(i), "--nshards", str(nshards),
             "--out", out, "--budget", str(budget)],
            cwd=scratch, env=env, stdout=log, stderr=subprocess.STDOUT,
        )
        procs.append((p, out, log))
    merged = Stats()
    errors = []
    hard_limit = budget * 1.5 + 600  # shrinking may run past the budget
    case_limit = float(os.environ.get("VERIF_CASE_LIMIT_S") or getattr(mod, "CASE_LIMIT_S", 300))  # env override: harness self-test only
    hung = {}
    pending = set(range(len(procs)))
    while pending:
        time.sleep(1.0)
        for i in sorted(pending):
            p, out, log = procs[i]
            if p.poll() is not None:
                pending.discard(i)
                continue
            hb = None
            try:
                hb = json.load(open(out + ".hb"))
            except (OSError, ValueError):
                pass
            if hb and time.time() - hb["t"] > case_limit:
                p.kill()
                p.wait()
                hung[i] = hb
                pending.discard(i)
            elif time.time() - t0 > hard_limit:
                p.kill()
                p.wait()
                pending.discard(i)
                errors.append(f"shard {i}: killed after hard limit {hard_limit:.0f}s" + (f"; last case: {json.dumps(hb['case'], default=str)[:600]}" if hb else ""))
    for i, (p, out, log) in enumerate(procs):
        log.close()
        if i in hung:
            _judge_hung_case(mod, prop, hung[i]["case"], case_limit, merged)
            out = out + ".partial"  # statistics gathered before the hang
            if not os.path.exists(out):
                continue
        if any(e.startswith(f"shard {i}:") for e in errors):
            continue
        if not os.path.exists(out):
            tail = open(log.name).read()[-2000:]
            errors.append(f"shard {i}: no result (exit {p.returncode})\n{tail}")
            continue
        res = json.load(open(out))
        if not res.get("ok"):
            errors.append(f"shard {i}: {res.get('error')}")
            continue
        s = res["stats"]
        merged.evaluations += s["evaluations"]
        merged.keys.update(s["keys"])
        merged.labels.update(s["labels"])
        merged.samples.extend(s["samples"])
        merged.known.update(s["known"])
        merged.violations.extend(s["violations"])
        merged.notes.extend(s["notes"])
        merged.truncated = merged.truncated or s["truncated"]
        for k, v in s["extra"].items():
            if isinstance(v, dict):
                tgt = merged.extra.setdefault(k, {})
                for kk, vv in v.items():
                    if isinstance(vv, dict) and kk in tgt:
                        for k3, v3 in vv.items():
                            tgt[kk][k3] = tgt[kk].get(k3, 0) + v3 if isinstance(v3, (int, float)) else v3
                    else:
                        tgt[kk] = vv
            elif isinstance(v, (int, float)) and not isinstance(v, bool):
                merged.extra[k] = merged.extra.get(k, 0) + v
            else:
                merged.extra[k] = v
    import shutil

    shutil.rmtree(scratch, ignore_errors=True)

    if errors:
        for e in errors:
            print("HARNESS-ERROR", e)
        return 2

    known = Known()
    for sig, n in sorted(merged.known.items()):
        print(f"KNOWN-FINDING: property={prop} {known.what(prop, sig)} [signature {sig}; {n} generated cases hit it]")

    for note in merged.notes:
        if note.startswith(("inconclusive", "slow under load")):
            print("NOTE " + note)

    # violations: one replay file per signature
    seen = {}
    for v in merged.violations:
        seen.setdefault(v["sig"], v)
    rc = 0
    for sig, v in sorted(seen.items()):
        rel = _write_replay(prop, v)
        print(f"VIOLATION property={prop} replay={rel}")
        print(f"  signature: {sig}")
        print("  detail: " + json.dumps(v["detail"], default=str)[:1500])
        rc = 1

    wall = time.time() - t0
    _write_evidence(mod, prop, args.tier, seed, merged, wall, len(seen))
    status = "VIOLATIONS" if rc else "ok"
    print(f"{prop} {args.tier} seed={seed}: {status}; evaluations={merged.evaluations} distinct_nontrivial={len(merged.keys)} "
          f"known_hits={sum(merged.known.values())} truncated={merged.truncated} wall={wall:.0f}s")
    return rc


def _judge_hung_case(mod, prop, case, case_limit, merged):
    """A shard was killed while `case` ran. The machine may simply have been busy (16 shards, other jobs), so the case
    is run once more, alone, in a child process under the same limit. Still over the limit: a violation where
    termination is part of the property (module sets HANG_IS_VIOLATION, i.e. C11), otherwise an inconclusive note -
    a time budget never decides a property that does not speak about time. Finished alone: it is judged normally."""
    import tempfile

    fd, tmp = tempfile.mkstemp(prefix="vf-hung-", suffix=".json", dir=runner_scratch())
    with os.fdopen(fd, "w") as fh:
        json.dump({"property": prop, "signature": "hang", "detail": {}, "case": case}, fh, default=str)
    t1 = time.time()
    try:
        r = subprocess.run([sys.executable, "-m", "vf.engine", prop, "--replay", tmp], env=dict(os.environ, VF_REPLAY_INNER="1"),
                           capture_output=True, text=True, timeout=case_limit)
        took = time.time() - t1
        sigs = [ln.strip()[len("signature: "):] for ln in r.stdout.splitlines() if ln.strip().startswith("signature: ")]
        if r.returncode == 1 and sigs and "VIOLATION" in r.stdout:
            for sig in sigs:
                merged.violations.append({"sig": sig, "detail": {"note": f"found when the case was re-run alone ({took:.0f}s) after its shard was stopped at the case limit"}, "case": case})
        elif r.returncode not in (0, 1):
            merged.notes.append(f"inconclusive: case stopped at the {case_limit}s limit; re-run alone ended with exit {r.returncode}: {json.dumps(case, default=str)[:300]}")
        else:
            merged.notes.append(f"slow under load: a case ran into the {case_limit}s limit in its shard and took {took:.0f}s alone: {json.dumps(case, default=str)[:300]}")
    except subprocess.TimeoutExpired:
        if getattr(mod, "HANG_IS_VIOLATION", False):
            merged.violations.append({"sig": "hang|case-exceeded-time-limit", "detail": {"limit_s": case_limit, "note": "exceeded the limit in its shard and again when run alone"}, "case": case})
        else:
            merged.notes.append(f"inconclusive: a case exceeded the {case_limit}s limit twice (termination is property C11's subject): {json.dumps(case, default=str)[:300]}")
            merged.truncated = True
    finally:
        try:
            os.unlink(tmp)
        except OSError:
            pass


def runner_scratch():
    d = "/dev/shm" if os.path.isdir("/dev/shm") and os.access("/dev/shm", os.W_OK) else None
    return d


def _write_replay(prop, v) -> str:
    d = os.path.join(VERIF, "replays", prop)
    if os.environ.get("VERIF_NO_EVIDENCE"):
        d = os.path.join("/tmp", "vf-mutant-replays", prop)
    os.makedirs(d, exist_ok=True)
    doc = {"property": prop, "signature": v["sig"], "detail": v["detail"], "case": v["case"]}
    name = h([v["sig"], v["case"]])[:12] + ".json"
    with open(os.path.join(d, name), "w") as fh:
        json.dump(doc, fh, indent=1, default=str)
    return f"replays/{prop}/{name}"


def _replay(mod, prop, path) -> int:
    doc = json.load(open(path))
    if not os.environ.get("VF_REPLAY_INNER"):
        # run the case in a child so that a hanging case is reported instead of hanging the replay
        limit = getattr(mod, "CASE_LIMIT_S", 300)
        try:
            r = subprocess.run([sys.executable, "-m", "vf.engine", prop, "--replay", path], env=dict(os.environ, VF_REPLAY_INNER="1"), timeout=limit)
            return r.returncode
        except subprocess.TimeoutExpired:
            print(f"VIOLATION property={prop} replay={path}")
            print(f"  signature: hang|case-exceeded-time-limit ({limit}s)")
            return 1
    case = mod.replay(doc["case"])
    if not case.failures:
        print(f"{prop} replay {path}: property holds on this case")
        return 0
    known = Known()
    rc = 0
    for f in case.failures:
        w = known.what(prop, f.sig)
        if w is not None:
            print(f"KNOWN-FINDING: property={prop} {w} [signature {f.sig}]")
        else:
            rc = 1
            print(f"VIOLATION property={prop} replay={path}")
            print(f"  signature: {f.sig}")
        print("  detail: " + json.dumps(f.detail, default=str)[:3000])
    return rc


def _write_evidence(mod, prop, tier, seed, st: Stats, wall, nviol):
    if os.environ.get("VERIF_NO_EVIDENCE"):
        return
    os.makedirs(os.path.join(VERIF, "evidence"), exist_ok=True)
    cov = {
        "evaluations": st.evaluations,
        "distinct_nontrivial": len(st.keys),
        "rule": mod.RULE,
        "samples": st.samples[:5] or ["<no non-trivial case was generated>"],
        "label_histogram": dict(sorted(st.labels.items())),
        "known_findings_hit": dict(sorted(st.known.items())),
        "budget_exhausted_before_all_cases": st.truncated,
        "shards": NSHARDS,
    }
    if st.exhaustive is not None:
        cov["exhaustive"] = st.exhaustive
    cov.update(st.extra)
    if st.notes:
        cov["notes"] = st.notes[:20]
    doc = {
        "property_id": prop,
        "tier": tier,
        "seed": seed,
        "level": "exploration",
        "coverage": cov,
        "assumptions": list(getattr(mod, "ASSUMPTIONS", [])),
        "wall_s": round(wall, 1),
        "violations": nviol,
        "technique": getattr(mod, "TECHNIQUE", "property-based testing"),
    }
    with open(os.path.join(VERIF, "evidence", f"{prop}.json"), "w") as fh:
        json.dump(doc, fh, indent=1, default=str)


if __name__ == "__main__":
    sys.exit(main())
