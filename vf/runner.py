"""Three ways of running thai-lint from the harness (DESIGN.md 2.2).

P  in-process CLI   run_cli(args, cwd)           ~10 ms per call
S  subprocess CLI   run_cli_sub(args, cwd, env)  ~0.5 s per call, the faithful mode
L  library          fresh_linter(...) / fresh_orchestrator(...)

All return / expose violations as plain dicts with the keys
rule_id, file_path, line, column, message (+severity, suggestion where available).
"""
from __future__ import annotations

import io
import json
import logging
import os
import subprocess
import sys
import tempfile
from collections import Counter
from dataclasses import dataclass, field
from pathlib import Path

REPO = os.environ.get("VERIF_REPO", "/repo")
PYTHON = "/venv/bin/python"
_NEUTRAL = None
_INIT = False


class HarnessError(Exception):
    """The harness itself is broken (exit 2) - never a property violation."""


def neutral_dir() -> str:
    """An empty directory outside any git checkout; cwd while importing `src`."""
    global _NEUTRAL
    if _NEUTRAL is None or not os.path.isdir(_NEUTRAL):
        base = "/dev/shm" if os.path.isdir("/dev/shm") else tempfile.gettempdir()
        _NEUTRAL = tempfile.mkdtemp(prefix="vf-neutral-", dir=base)
        import atexit
        import shutil

        atexit.register(lambda p=_NEUTRAL, owner=os.getpid(): shutil.rmtree(p, ignore_errors=True) if os.getpid() == owner else None)
    return _NEUTRAL


def init() -> None:
    """Import `src` from $VERIF_REPO (current working tree) with a neutral cwd."""
    global _INIT
    if _INIT:
        return
    os.environ.setdefault("THAILINT_VERIF", "1")
    if sys.path[0] != REPO:
        sys.path.insert(0, REPO)
    old = os.getcwd()
    os.chdir(neutral_dir())
    try:
        import src  # noqa

        where = os.path.realpath(os.path.dirname(src.__file__))
        if not where.startswith(os.path.realpath(REPO) + os.sep):
            raise HarnessError(f"src imported from {where}, expected under {REPO}")
        import src.cli_main  # noqa  (registers all commands)
    finally:
        os.chdir(old)
    _INIT = True


@dataclass
class Result:
    exit: int
    stdout: str
    stderr: str
    swallowed: list = field(default_factory=list)  # [{rule,file,exc_type,exc_msg}]
    exception: str | None = None  # uncaught exception escaping click (mode P)
    _json: object = None

    @property
    def data(self):
        if self._json is None:
            self._json = json.loads(self.stdout)
        return self._json

    @property
    def violations(self) -> list[dict]:
        """Violations of a --format json run."""
        d = self.data
        if not isinstance(d, dict) or "violations" not in d:
            raise HarnessError(f"not a thailint JSON document: {self.stdout[:200]!r}")
        return d["violations"]


class _Tap(logging.Handler):
    def __init__(self):
        super().__init__(level=logging.ERROR)
        self.records = []

    def emit(self, record):
        exc = record.exc_info[1] if record.exc_info else None
        args = record.args if isinstance(record.args, tuple) else ()
        self.records.append(
            {
                "rule": str(args[0]) if len(args) == 2 else "<worker>",
                "file": str(args[-1]) if args else "None",
                "exc_type": type(exc).__name__ if exc else "?",
                "exc_msg": str(exc)[:300] if exc else record.getMessage()[:300],
            }
        )


SELFCHECK = {"left": 0, "done": 0}


def run_cli(args: list[str], cwd: str, env: dict | None = None) -> Result:
    """Mode P with the mode self-check: the first SELFCHECK['left'] calls that report violations
    are repeated in a real subprocess (mode S) and must agree (DESIGN.md 2.2)."""
    res = _run_cli_p(args, cwd, env)
    if SELFCHECK["left"] > 0 and res.exit == 1 and "--format" in args and "json" in args:
        SELFCHECK["left"] -= 1
        sub = run_cli_sub(args, cwd, env)
        same = sub.exit == res.exit
        if same:
            try:
                key = lambda v: json.dumps(v, sort_keys=True)  # noqa: E731
                same = sorted(map(key, sub.violations)) == sorted(map(key, res.violations))
            except Exception:
                same = False
        if not same:
            raise HarnessError(f"mode self-check failed for {args} in {cwd}: in-process exit {res.exit} vs subprocess exit {sub.exit}\n"
                               f"P stdout: {res.stdout[:500]}\nS stdout: {sub.stdout[:500]}\nS stderr: {sub.stderr[-500:]}")
        SELFCHECK["done"] += 1
    return res


def _run_cli_p(args: list[str], cwd: str, env: dict | None = None) -> Result:
    """Mode P: in-process click invocation that behaves like a fresh process."""
    init()
    from click.testing import CliRunner
    from src.cli_main import cli
    from src.linter_config.ignore import clear_ignore_parser_cache

    old_cwd = os.getcwd()
    tap = _Tap()
    core_logger = logging.getLogger("src.orchestrator.core")
    old_prop = core_logger.propagate
    saved_env = {}
    try:
        os.chdir(cwd)
        clear_ignore_parser_cache()
        core_logger.addHandler(tap)
        core_logger.propagate = False
        # the failure tap in /repo writes a file; in mode P the logging handler is enough
        saved_env["THAILINT_VERIF_FAILLOG"] = os.environ.pop("THAILINT_VERIF_FAILLOG", None)
        for k, v in (env or {}).items():
            saved_env[k] = os.environ.get(k)
            os.environ[k] = v
        try:
            runner = CliRunner(mix_stderr=False)
        except TypeError:  # click >= 8.2
            runner = CliRunner()
        res = runner.invoke(cli, args, catch_exceptions=True)
        exc = None
        if res.exception is not None and not isinstance(res.exception, SystemExit):
            exc = f"{type(res.exception).__name__}: {res.exception}"
        try:
            err = res.stderr
        except (ValueError, AttributeError):
            err = ""
        try:
            out = res.stdout
        except (ValueError, AttributeError):
            out = res.output
        return Result(res.exit_code, out, err, tap.records, exc)
    finally:
        core_logger.removeHandler(tap)
        core_logger.propagate = old_prop
        for k, v in saved_env.items():
            if v is None:
                os.environ.pop(k, None)
            else:
                os.environ[k] = v
        os.chdir(old_cwd)
        clear_ignore_parser_cache()


def sub_env(extra: dict | None = None, faillog: str | None = None) -> dict:
    env = {
        "PATH": "/venv/bin:/usr/bin:/bin",
        "HOME": neutral_dir(),
        "PYTHONPATH": REPO,
        "PYTHONHASHSEED": "0",
        "PYTHONDONTWRITEBYTECODE": "1",
        "THAILINT_VERIF": "1",
        "LANG": "C.UTF-8",
        "NO_COLOR": "1",
    }
    if faillog:
        env["THAILINT_VERIF_FAILLOG"] = faillog
    env.update(extra or {})
    return env


def run_cli_sub(args: list[str], cwd: str, env: dict | None = None, timeout: float = 300) -> Result:
    """Mode S: a real `python -m src.cli_main` process."""
    fd, faillog = tempfile.mkstemp(prefix="vf-faillog-", dir=neutral_dir())
    os.close(fd)
    try:
        p = subprocess.run(
            [PYTHON, "-m", "src.cli_main", *args],
            cwd=cwd,
            env=sub_env(env, faillog),
            capture_output=True,
            timeout=timeout,
        )
        swallowed = []
        with open(faillog, encoding="utf-8") as fh:
            for line in fh:
                line = line.strip()
                if line:
                    swallowed.append(json.loads(line))
        return Result(
            p.returncode,
            p.stdout.decode("utf-8", "surrogateescape"),
            p.stderr.decode("utf-8", "surrogateescape"),
            swallowed,
        )
    finally:
        os.unlink(faillog)


# ----------------------------------------------------------------------------- library mode


def vdict(v) -> dict:
    """Violation object -> plain dict (all fields)."""
    return {
        "rule_id": v.rule_id,
        "file_path": str(v.file_path),
        "line": v.line,
        "column": v.column,
        "message": v.message,
        "severity": getattr(v.severity, "name", str(v.severity)),
        "suggestion": v.suggestion,
    }


def fresh_linter(project_root: str, config_file: str | None = None):
    init()
    from src.api import Linter
    from src.linter_config.ignore import clear_ignore_parser_cache

    clear_ignore_parser_cache()
    return Linter(config_file=config_file, project_root=project_root)


def fresh_orchestrator(project_root: str, config: dict | None = None):
    init()
    from src.linter_config.ignore import clear_ignore_parser_cache
    from src.orchestrator.core import Orchestrator

    clear_ignore_parser_cache()
    return Orchestrator(project_root=Path(project_root), config=config)


class capture_swallowed:
    """Context manager collecting swallowed rule failures in library mode."""

    def __enter__(self):
        self.tap = _Tap()
        self.logger = logging.getLogger("src.orchestrator.core")
        self.old = self.logger.propagate
        self.logger.addHandler(self.tap)
        self.logger.propagate = False
        return self.tap.records

    def __exit__(self, *a):
        self.logger.removeHandler(self.tap)
        self.logger.propagate = self.old


# ----------------------------------------------------------------------------- comparing


def norm_path(p: str, root: str, cwd: str | None = None) -> str:
    """Violation file_path -> project-relative POSIX path."""
    if not os.path.isabs(p):
        p = os.path.join(cwd or root, p)
    p = os.path.normpath(p)
    rp = os.path.realpath(root)
    for r in (root, rp):
        if p == r:
            return "."
        if p.startswith(r.rstrip("/") + "/"):
            return p[len(r.rstrip("/")) + 1 :]
    q = os.path.realpath(p)
    if q.startswith(rp.rstrip("/") + "/"):
        return q[len(rp.rstrip("/")) + 1 :]
    return p


def vkey(v: dict, root: str, cwd: str | None = None, fields=("rule_id", "file", "line", "column", "message")):
    out = []
    for f in fields:
        if f == "file":
            out.append(norm_path(v["file_path"], root, cwd))
        elif f == "message":
            out.append(v["message"].replace(os.path.realpath(root) + "/", "").replace(root.rstrip("/") + "/", ""))
        else:
            out.append(v.get(f))
    return tuple(out)


def vmultiset(vs: list[dict], root: str, cwd: str | None = None, fields=("rule_id", "file", "line", "column", "message")) -> Counter:
    return Counter(vkey(v, root, cwd, fields) for v in vs)


def diff_multisets(a: Counter, b: Counter) -> dict:
    """Items only in a / only in b (with multiplicity)."""
    return {"only_left": sorted(map(list, (a - b).elements()), key=repr)[:10],
            "only_right": sorted(map(list, (b - a).elements()), key=repr)[:10]}
