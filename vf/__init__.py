"""thai-lint verification framework (property-based testing / fuzzing). See DESIGN.md."""
