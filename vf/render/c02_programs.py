"""C02 - slot-template programs: abstract file (items -> functions -> statements with literal holes)
rendered to Python / TypeScript / JavaScript / Rust text, with one ground-truth record per literal.

A *slot* record: {file, line, text, neg, value, form, ctx, exempt, lang, attrs...}
  exempt in None | "const" | "enum" | "range" | "enumerate" | "enumerate-kw" | "strrep" | "testcode" | "file"
  ("range"/"enumerate" are value dependent: the literal is exempt iff it is an int with 0 <= v <= max_small_integer;
   the decision is made by the oracle, the renderer only records the position).
A *bait* record: {file, line, bait: "True" | ...} for booleans (strings, comments and identifiers with digits need no
record: anything reported that matches no slot is a failure anyway).

Templates: name -> T(kind, text, holes, ctx, exempt). `{0}`, `{1}` are holes, `{v}` a fresh lower-case variable name
(`v<N>`: identifiers containing digits are bait by themselves). kind "s" = one line, "m" = several lines,
"b" = block header (the statement carries a body).
Hole types: "any" (any literal form, may carry a unary minus), "pos" (any form, no minus), "int" (integer forms, no
minus), "flt" (non-integral float, no minus).
"""
from __future__ import annotations

from collections import namedtuple

T = namedtuple("T", "kind text holes ctx exempt")

EXT = {"py": ".py", "ts": ".ts", "js": ".js", "rs": ".rs"}
INDENT = {"py": "    ", "ts": "  ", "js": "  ", "rs": "    "}


def _s(text, holes, ctx, exempt=None):
    return T("s", text, tuple(holes), ctx, exempt)


def _m(lines, holes, ctx, exempt=None):
    return T("m", tuple(lines), tuple(holes), ctx, exempt)


def _b(text, holes, ctx, exempt=None):
    return T("b", text, tuple(holes), ctx, exempt)


PY = {
    "assign": _s("{v} = {0}", ["any"], "assign"),
    "annassign": _s("{v}: float = {0}", ["any"], "assign"),
    "augassign": _s("acc += {0}", ["any"], "assign"),
    "call1": _s("emit({0})", ["any"], "arg"),
    "call2": _s("emit(acc, {0}, {1})", ["any", "any"], "arg"),
    "callkw": _s("emit(level={0})", ["any"], "kwarg"),
    "method": _s("obj.push({0})", ["any"], "arg"),
    "callml": _m(["emit(", "    acc,", "    {0},", ")"], ["any"], "arg-multiline"),
    "return": _s("return {0}", ["any"], "return"),
    "list": _s("{v} = [{0}, {1}]", ["any", "any"], "collection"),
    "tuple": _s("{v} = ({0}, {1})", ["any", "any"], "collection"),
    "set": _s("{v} = {{{0}, {1}}}", ["any", "any"], "collection"),
    "dict": _s("{v} = {{'k': {0}, {1}: 'w'}}", ["any", "pos"], "collection"),
    "binop_add": _s("{v} = acc + {0}", ["pos"], "binop"),
    "binop_mul": _s("{v} = acc * {0}", ["any"], "binop"),
    "binop_lsub": _s("{v} = {0} - acc", ["pos"], "binop"),
    "binop_mod": _s("{v} = acc % {0}", ["pos"], "binop"),
    "binop_pow": _s("{v} = acc ** {0}", ["pos"], "binop"),
    "binop_fdiv": _s("{v} = acc // {0}", ["pos"], "binop"),
    "cmp_gt": _s("{v} = acc > {0}", ["any"], "compare"),
    "cmp_eq": _s("{v} = acc == {0}", ["any"], "compare"),
    "cmp_lle": _s("{v} = {0} <= acc", ["pos"], "compare"),
    "subscript": _s("{v} = items[{0}]", ["any"], "subscript"),
    "slice": _s("{v} = items[{0}:{1}]", ["pos", "any"], "subscript"),
    "ternary": _s("{v} = {0} if flag else {1}", ["any", "any"], "ternary"),
    "lambda": _s("{v} = lambda q: q + {0}", ["pos"], "lambda"),
    "comp": _s("{v} = [q * {0} for q in items if q > {1}]", ["any", "any"], "comprehension"),
    "assert": _s("assert acc < {0}", ["any"], "compare"),
    "listrep": _s("{v} = [None] * {0}", ["int"], "binop"),
    "strrep_float": _s("{v} = \"ab\" * {0}", ["flt"], "str-times-float"),
    # expressions inside string-building syntax and other less common expression positions (round 7)
    "fstring": _s("{v} = f\"total {{acc * {0}}} of {{items[{1}]}}\"", ["any", "pos"], "interpolation"),
    "fstring_nested": _s("{v} = f\"{{emit(f'{{acc + {0}}}')}}\"", ["pos"], "interpolation"),
    "walrus": _s("emit((w{n} := {0}))", ["any"], "assign"),
    "raise": _s("raise ValueError({0})", ["any"], "arg"),
    "starred": _s("emit(*[{0}], **{{'k': {1}}})", ["any", "any"], "collection"),
    "condexpr_call": _s("emit(acc if acc > {0} else items[{1}])", ["any", "pos"], "ternary"),
    "lambda_default": _s("{v} = lambda q, r={0}: q + r", ["any"], "default"),
    # documented exempt positions
    "range_expr": _s("{v} = list(range({0}))", ["int"], "range", "range"),
    "range2_expr": _s("{v} = list(range({0}, {1}))", ["int", "int"], "range", "range"),
    "enum_expr": _s("{v} = list(enumerate(items, {0}))", ["int"], "enumerate", "enumerate"),
    "enum_kw_expr": _s("{v} = list(enumerate(items, start={0}))", ["int"], "enumerate-kw", "enumerate-kw"),
    "strrep": _s("print(\"-\" * {0})", ["int"], "strrep", "strrep"),
    "strrep_l": _s("{v} = {0} * \"=\"", ["int"], "strrep", "strrep"),
    # blocks
    "if": _b("if acc > {0}:", ["any"], "compare"),
    "while": _b("while acc < {0}:", ["any"], "compare"),
    "for": _b("for q in items:", [], "-"),
    "for_range": _b("for i in range({0}):", ["int"], "range", "range"),
    "for_range3": _b("for i in range({0}, {1}, {2}):", ["int", "int", "int"], "range", "range"),
    "for_enum": _b("for i, q in enumerate(items, {0}):", ["int"], "enumerate", "enumerate"),
    "nested": _b("def inner_{n}(p={0}):", ["any"], "default"),
    # bait (no numeric literal)
    "bait_bool": _s("{v} = {B}", [], "bait"),
    "bait_boolarg": _s("emit(flag={B})", [], "bait"),
    "bait_boolret": _s("return {B}", [], "bait"),
    "bait_str": _s("{v} = \"abc 123 def 4.5\"", [], "bait"),
    "bait_comment": _s("# threshold 42 applies, see 0x2A", [], "bait"),
    "bait_ident": _s("{v} = val_404 + x86", [], "bait"),
}

_TSJS = {
    "let": _s("let {v} = {0};", ["any"], "assign"),
    "constlow": _s("const {v} = {0};", ["any"], "assign"),
    "var": _s("var {v} = {0};", ["any"], "assign"),
    "reassign": _s("acc = {0};", ["any"], "assign"),
    "augassign": _s("acc += {0};", ["any"], "assign"),
    "call1": _s("emit({0});", ["any"], "arg"),
    "call2": _s("emit(acc, {0}, {1});", ["any", "any"], "arg"),
    "method": _s("obj.push({0});", ["any"], "arg"),
    "callml": _m(["emit(", "  acc,", "  {0},", ");"], ["any"], "arg-multiline"),
    "return": _s("return {0};", ["any"], "return"),
    "array": _s("const {v} = [{0}, {1}];", ["any", "any"], "collection"),
    "object": _s("const {v} = {{ key: {0}, 'quoted': {1} }};", ["any", "any"], "collection"),
    "objkey": _s("const {v} = {{ {0}: 'w' }};", ["int"], "collection"),
    "binop_add": _s("const {v} = acc + {0};", ["pos"], "binop"),
    "binop_mul": _s("const {v} = acc * {0};", ["any"], "binop"),
    "binop_lsub": _s("const {v} = {0} - acc;", ["pos"], "binop"),
    "binop_mod": _s("const {v} = acc % {0};", ["pos"], "binop"),
    "cmp_gt": _s("const {v} = acc > {0};", ["any"], "compare"),
    "cmp_eq": _s("const {v} = acc === {0};", ["any"], "compare"),
    "cmp_lle": _s("const {v} = {0} <= acc;", ["pos"], "compare"),
    "subscript": _s("const {v} = items[{0}];", ["pos"], "subscript"),
    "ternary": _s("const {v} = flag ? {0} : {1};", ["any", "any"], "ternary"),
    "arrow": _s("const {v} = (q) => q + {0};", ["pos"], "lambda"),
    "chain": _s("items.map((q) => q * {0}).filter((q) => q > {1});", ["any", "any"], "lambda"),
    # expressions inside template literals and other less common expression positions (round 7)
    "tpl_sub": _s("const {v} = `limit ${{acc * {0}}} of ${{items[{1}]}}`;", ["any", "pos"], "interpolation"),
    "tpl_nested": _s("const {v} = `${{emit(`${{acc + {0}}}`)}}`;", ["pos"], "interpolation"),
    "tpl_tagged": _s("const {v} = tag`a ${{ {0} }} b`;", ["any"], "interpolation"),
    "new": _s("const {v} = new Box({0});", ["any"], "arg"),
    "optchain": _s("obj?.push({0});", ["any"], "arg"),
    "spread": _s("const {v} = [...items, {0}];", ["any"], "collection"),
    "nullish": _s("const {v} = acc ?? {0};", ["any"], "binop"),
    "throw": _s("throw new Error(String({0}));", ["any"], "arg"),
    "comma_seq": _s("acc = (emit({0}), {1});", ["any", "any"], "arg"),
    "constup": _s("const LOCAL_MAX_{n} = {0};", ["any"], "const", "const"),
    "if": _b("if (acc > {0}) {{", ["any"], "compare"),
    "while": _b("while (acc < {0}) {{", ["any"], "compare"),
    "for": _b("for (let i = {0}; i < {1}; i++) {{", ["pos", "any"], "for-header"),
    "forof": _b("for (const q of items) {{", [], "-"),
    "nested": _b("function inner_{n}(p = {0}) {{", ["any"], "default"),
    "arrowblock": _b("const {v} = (p = {0}) => {{", ["any"], "default"),
    "bait_bool": _s("const {v} = {B};", [], "bait"),
    "bait_boolarg": _s("emit({B});", [], "bait"),
    "bait_boolret": _s("return {B};", [], "bait"),
    "bait_str": _s("const {v} = \"abc 123 def 4.5\";", [], "bait"),
    "bait_tpl": _s("const {v} = `n 77 ${{acc}} 0x10`;", [], "bait"),
    "bait_comment": _s("// retry 42 times, mask 0x2A", [], "bait"),
    "bait_blockcomment": _s("/* limit 99 */", [], "bait"),
    "bait_ident": _s("const {v} = val_404 + x86;", [], "bait"),
}
TS = dict(_TSJS)
TS.update({
    "let_typed": _s("let {v}: number = {0};", ["any"], "assign"),
    "arrow_typed": _s("const {v} = (q: number): number => q * {0};", ["pos"], "lambda"),
    "cast": _s("const {v} = {0} as number;", ["pos"], "assign"),
})
JS = dict(_TSJS)

RS = {
    "let": _s("let {v} = {0};", ["any"], "assign"),
    "let_typed": _s("let {v}: i64 = {0};", ["any"], "assign"),
    "let_mut": _s("let mut {v} = {0};", ["any"], "assign"),
    "reassign": _s("acc = {0};", ["any"], "assign"),
    "augassign": _s("acc += {0};", ["any"], "assign"),
    "call1": _s("emit({0});", ["any"], "arg"),
    "call2": _s("emit(acc, {0}, {1});", ["any", "any"], "arg"),
    "method": _s("obj.push({0});", ["any"], "arg"),
    "callml": _m(["emit(", "    acc,", "    {0},", ");"], ["any"], "arg-multiline"),
    "return": _s("return {0};", ["any"], "return"),
    "array": _s("let {v} = [{0}, {1}];", ["any", "any"], "collection"),
    "tuple": _s("let {v} = ({0}, {1});", ["any", "any"], "collection"),
    "struct": _s("let {v} = Point {{ x: {0}, y: {1} }};", ["any", "any"], "collection"),
    "vecmacro": _s("let {v} = vec![{0}, {1}];", ["any", "any"], "macro"),
    "arrayrep": _s("let {v} = [acc; {0}];", ["int"], "collection"),
    "binop_add": _s("let {v} = acc + {0};", ["pos"], "binop"),
    "binop_mul": _s("let {v} = acc * {0};", ["any"], "binop"),
    "binop_lsub": _s("let {v} = {0} - acc;", ["pos"], "binop"),
    "binop_mod": _s("let {v} = acc % {0};", ["pos"], "binop"),
    "cmp_gt": _s("let {v} = acc > {0};", ["any"], "compare"),
    "cmp_eq": _s("let {v} = acc == {0};", ["any"], "compare"),
    "cmp_lle": _s("let {v} = {0} <= acc;", ["pos"], "compare"),
    "index": _s("let {v} = items[{0}];", ["int"], "subscript"),
    "ifexpr": _s("let {v} = if flag {{ {0} }} else {{ {1} }};", ["any", "any"], "ternary"),
    "closure": _s("let {v} = |q: i64| q + {0};", ["pos"], "lambda"),
    "chain": _s("items.iter().map(|q| q * {0}).filter(|q| *q > {1}).count();", ["any", "any"], "lambda"),
    "printmacro": _s("println!(\"{{}} 55\", {0});", ["any"], "macro"),
    "assertmacro": _s("assert_eq!(acc, {0});", ["any"], "macro"),
    "cast": _s("let {v} = {0} as f64;", ["pos"], "assign"),
    "match": _s("let {v} = match acc {{ {0} => emit({1}), _ => emit(acc) }};", ["int", "any"], "match"),
    # less common expression positions (round 7)
    "matchguard": _s("let {v} = match acc {{ q if q > {0} => emit({1}), _ => emit(acc) }};", ["any", "any"], "match"),
    "some": _s("let {v} = Some({0});", ["any"], "arg"),
    "iflet": _s("if let Some(q) = items.get({0}) {{ emit(*q); }}", ["int"], "arg"),
    "formatmacro": _s("let {v} = format!(\"{{}} / {{}}\", acc * {0}, {1});", ["any", "any"], "macro"),
    "shift": _s("let {v} = acc << {0};", ["int"], "binop"),
    "rangeincl": _s("let {v} = ({0}..={1}).count();", ["int", "int"], "collection"),
    "constup": _s("const LOCAL_MAX_{n}: {ty0} = {0};", ["any"], "const", "const"),
    "staticup": _s("static LOCAL_LIMIT_{n}: {ty0} = {0};", ["any"], "const", "const"),
    "staticmutup": _s("static mut LOCAL_COUNT_{n}: {ty0} = {0};", ["any"], "const", "const"),
    "if": _b("if acc > {0} {{", ["any"], "compare"),
    "while": _b("while acc < {0} {{", ["any"], "compare"),
    "loop": _b("loop {{", [], "-"),
    "for_range": _b("for i in {0}..{1} {{", ["int", "int"], "for-header"),
    "nested": _b("fn inner_{n}(p: i64) -> i64 {{", [], "-"),
    "closureblock": _b("let {v} = |p: i64| {{", [], "-"),
    "bait_bool": _s("let {v} = {B};", [], "bait"),
    "bait_boolarg": _s("emit({B});", [], "bait"),
    "bait_boolret": _s("return {B};", [], "bait"),
    "bait_str": _s("let {v} = \"abc 123 def 4.5\";", [], "bait"),
    "bait_char": _s("let {v} = '7';", [], "bait"),
    "bait_comment": _s("// retry 42 times, mask 0x2A", [], "bait"),
    "bait_blockcomment": _s("/* limit 99 */", [], "bait"),
    "bait_ident": _s("let {v} = val_404 + x86;", [], "bait"),
}

TEMPLATES = {"py": PY, "ts": TS, "js": JS, "rs": RS}
BLOCK_CLOSE = {"py": None, "ts": "}", "js": "}", "rs": "}"}
# blocks whose closing line needs a `;` (expression statements)
CLOSE_SEMI = {"arrowblock", "closureblock"}

BOOLS = {"py": ("True", "False"), "ts": ("true", "false"), "js": ("true", "false"), "rs": ("true", "false")}

# rust function attributes: (lines before `fn`, is the function test code per the docs?)
RS_ATTRS = {
    None: ([], False),
    "test": (["#[test]"], True),
    "test_ignore": (["#[test]", "#[ignore]"], True),
    "ignore_test": (["#[ignore]", "#[test]"], True),
    "test_comment": (["#[test]", "// exercises the slow path"], True),
    "inline": (["#[inline]"], False),
    "allow": (["#[allow(dead_code)]"], False),
    "cfg_not_test": (["#[cfg(not(test))]"], False),
}

# file-name kinds: kind -> (stem builder, whole-file exempt per the docs?)
FILE_KINDS = {
    "py": {
        "plain": ("mod_{i}.py", False),
        "plain2": ("service_{i}.py", False),
        "near_contest": ("contest_{i}.py", False),
        "near_latest": ("latest_value_{i}.py", False),
        "near_constants": ("myconstants{i}.py", False),
        "near_codes": ("barcodes{i}.py", False),
        "test_prefix": ("test_mod_{i}.py", True),
        "test_suffix": ("mod_{i}_test.py", True),
        "constants": ("constants.py", True),
        "x_constants": ("app{i}_constants.py", True),
        "x_codes": ("status{i}_codes.py", True),
    },
    "ts": {
        "plain": ("mod_{i}.ts", False),
        "plain2": ("service_{i}.ts", False),
        "plain_tsx": ("view_{i}.tsx", False),
        "near_contest": ("contest{i}.ts", False),
        "near_latest": ("latest_value_{i}.ts", False),
        "near_constants": ("constants.ts", False),
        "near_spectrum": ("spectrum{i}.ts", False),
        "dot_test": ("mod_{i}.test.ts", True),
        "dot_spec": ("mod_{i}.spec.ts", True),
        "dot_test_tsx": ("view_{i}.test.tsx", True),
    },
    "js": {
        "plain": ("mod_{i}.js", False),
        "plain2": ("service_{i}.js", False),
        "plain_jsx": ("view_{i}.jsx", False),
        "near_contest": ("contest{i}.js", False),
        "near_latest": ("latest_value_{i}.js", False),
        "dot_test": ("mod_{i}.test.js", True),
        "dot_spec": ("mod_{i}.spec.js", True),
    },
    "rs": {
        "plain": ("mod_{i}.rs", False),
        "plain2": ("service_{i}.rs", False),
        "lib": ("lib.rs", False),
        "main": ("main.rs", False),
    },
}


def file_name(lang, kind, i):
    return FILE_KINDS[lang][kind][0].format(i=i)


class _W:
    def __init__(self, lang, fname, file_exempt):
        self.lang = lang
        self.fname = fname
        self.file_exempt = file_exempt
        self.lines = []
        self.slots = []
        self.baits = []
        self.n = 0

    def fresh(self):
        self.n += 1
        return self.n

    def emit(self, depth, text):
        self.lines.append(INDENT[self.lang] * depth + text if text else "")
        return len(self.lines)

    def slot(self, line, lit, ctx, exempt, scope, extra=None):
        why = exempt
        if scope.get("testcode") and why is None:
            why = "testcode"
        if self.file_exempt and why is None:
            why = "file"
        rec = {
            "file": self.fname, "lang": self.lang, "line": line, "text": lit["text"], "neg": bool(lit.get("neg")),
            "form": lit.get("form", "?"), "ctx": ctx, "exempt": why, "pos_exempt": exempt,
            "in_test_scope": bool(scope.get("testcode")), "tool_test_scope": bool(scope.get("tool_testcode")),
            "file_exempt": self.file_exempt,
        }
        if extra:
            rec.update(extra)
        self.slots.append(rec)


def lit_src(lit):
    return ("-" if lit.get("neg") else "") + lit["text"]


def _is_float_text(text):
    t = text.lower()
    if t.startswith(("0x", "0o", "0b")):
        return False
    return "." in t or "e" in t or t.endswith(("f32", "f64"))


def _fill(w, tpl, lits, extra_fmt):
    """-> list of (line_text, [hole indexes on that line])"""
    fmt = dict(extra_fmt)
    for i, l in enumerate(lits):
        fmt[f"ty{i}"] = "f64" if _is_float_text(l["text"]) else "i64"
    srcs = [lit_src(l) for l in lits]
    texts = tpl.text if tpl.kind == "m" else (tpl.text,)
    out = []
    for t in texts:
        on = [i for i in range(len(lits)) if "{" + str(i) + "}" in t]
        out.append((t.format(*srcs, **fmt), on))
    return out


def _stmt(w, st, depth, scope):
    lang = w.lang
    tpl = TEMPLATES[lang][st["t"]]
    lits = st.get("lits", [])
    if len(lits) != len(tpl.holes):
        raise ValueError(f"template {st['t']} wants {len(tpl.holes)} literals, got {len(lits)}")
    n = w.fresh()
    fmt = {"v": f"v{n}", "n": n, "B": st.get("bait", BOOLS[lang][0])}
    for text, on in _fill(w, tpl, lits, fmt):
        line = w.emit(depth, text)
        for i in on:
            w.slot(line, lits[i], tpl.ctx, tpl.exempt, scope, {"tpl": st["t"]})
        if st["t"].startswith("bait_bool"):
            w.baits.append({"file": w.fname, "line": line, "bait": fmt["B"], "lang": lang,
                            "file_exempt": w.file_exempt, "in_test_scope": bool(scope.get("testcode")),
                            "tool_test_scope": bool(scope.get("tool_testcode"))})
    if tpl.kind == "b":
        _body(w, st.get("body", []), depth + 1, scope)
        close = BLOCK_CLOSE[lang]
        if close:
            w.emit(depth, close + (";" if st["t"] in CLOSE_SEMI else ""))


def _body(w, stmts, depth, scope):
    if w.lang == "py" and all(st["t"] == "bait_comment" for st in stmts):
        w.emit(depth, "pass")
    for st in stmts:
        _stmt(w, st, depth, scope)


def _func(w, fn, depth, scope, method=False):
    lang = w.lang
    n = w.fresh()
    name = f"{'m' if method else 'fn'}_{n}"
    defaults = fn.get("defaults", [])
    srcs = [lit_src(d) for d in defaults]
    if lang == "py":
        params = (["self"] if method else []) + ["a"] + [f"p{i}={s}" for i, s in enumerate(srcs)]
        line = w.emit(depth, f"def {name}({', '.join(params)}):")
    elif lang in ("ts", "js"):
        typed = lang == "ts" and fn.get("typed")
        params = ["a" + (": number" if typed else "")] + [f"p{i}{': number' if typed else ''} = {s}" for i, s in enumerate(srcs)]
        head = f"{name}({', '.join(params)})" + (": number" if typed else "") + " {"
        line = w.emit(depth, head if method else "function " + head)
    else:
        attr_lines, is_test = RS_ATTRS[fn.get("attr")]
        for a in attr_lines:
            w.emit(depth, a)
        if is_test:
            scope = dict(scope, testcode=True)
        # what the implementation is KNOWN to treat as test code (only used by the deviation model)
        a = fn.get("attr")
        tool = scope.get("tool_testcode") or a in ("test", "test_ignore", "ignore_test", "cfg_not_test")
        scope = dict(scope, tool_testcode=tool)
        params = (["&self"] if method else []) + ["a: i64"]
        line = w.emit(depth, f"fn {name}({', '.join(params)}) -> i64 {{")
    for d in defaults:
        w.slot(line, d, "default", None, scope, {"tpl": "func-default"})
    _body(w, fn.get("body", []), depth + 1, scope)
    if lang != "py":
        w.emit(depth, "}")


def _item(w, it, scope):
    lang = w.lang
    k = it["k"]
    n = w.fresh()
    if k == "const":
        lit = it["lit"]
        src = lit_src(lit)
        # UPPER_CASE name styles: plain, private (leading underscore), with digits, short
        cname = ["MAX_LIMIT_{n}", "_MAX_LIMIT_{n}", "MAXLIMIT{n}", "HTTP2_PORT_{n}", "_POOL_{n}"][it.get("name_style", 0) % 5].format(n=n)
        typed = it.get("typed", 0)  # 0 untyped | 1, 2: with a type annotation (still an UPPER_CASE constant definition)
        if lang == "py":
            ann = ["", ": float" if _is_float_text(lit["text"]) else ": int", ": Final"][typed % 3]
            line = w.emit(0, f"{cname}{ann} = {src}")
        elif lang in ("ts", "js"):
            kw = "export const" if it.get("export") else "const"
            ann = ": number" if typed and lang == "ts" else ""
            line = w.emit(0, f"{kw} {cname}{ann} = {src};")
        else:
            # const / static items in their spellings (visibility, mutability): all are "const or static items"
            kw = ["const", "static", "static mut", "pub static", "pub const", "pub(crate) static"][int(it.get("static") or 0) % 6]
            ty = "f64" if _is_float_text(lit["text"]) else "i64"
            line = w.emit(0, f"{kw} {cname}: {ty} = {src};")
        w.slot(line, lit, "const", "const", scope, {"tpl": "module-const"})
    elif k == "global":
        lit = it["lit"]
        src = lit_src(lit)
        if lang == "py":
            line = w.emit(0, f"setting_{n} = {src}")
        else:
            line = w.emit(0, f"{it.get('kw', 'let')} setting_{n} = {src};")
        w.slot(line, lit, "assign", None, scope, {"tpl": "module-global"})
    elif k == "enum":
        w.emit(0, ("const enum" if it.get("constenum") else "enum") + f" Kind_{n} {{")
        for j, lit in enumerate(it["lits"]):
            line = w.emit(1, f"{'ACTIVE' if j % 2 == 0 else 'Idle'}_{j} = {lit_src(lit)},")
            w.slot(line, lit, "enum", "enum", scope, {"tpl": "enum-member"})
        w.emit(0, "}")
    elif k == "class":
        if lang == "py":
            w.emit(0, f"class Config_{n}:")
            empty = True
            for j, lit in enumerate(it.get("consts", [])):
                cname = ["NETWORK_TIMEOUT_{j}", "_NETWORK_TIMEOUT_{j}", "RETRIES{j}"][(j + it.get("name_style", 0)) % 3].format(j=j)
                line = w.emit(1, f"{cname} = {lit_src(lit)}")
                w.slot(line, lit, "const", "const", scope, {"tpl": "class-const"})
                empty = False
            for j, lit in enumerate(it.get("attrs", [])):
                line = w.emit(1, f"attr_{j} = {lit_src(lit)}")
                w.slot(line, lit, "assign", None, scope, {"tpl": "class-attr"})
                empty = False
            for m in it.get("methods", []):
                _func(w, m, 1, scope, method=True)
                empty = False
            if empty:
                w.emit(1, "pass")
        elif lang in ("ts", "js"):
            w.emit(0, f"class Config_{n} {{")
            for j, lit in enumerate(it.get("attrs", [])):
                mod = "private " if lang == "ts" and j % 2 == 0 else ""
                line = w.emit(1, f"{mod}field_{j} = {lit_src(lit)};")
                w.slot(line, lit, "assign", None, scope, {"tpl": "class-field"})
            for m in it.get("methods", []):
                _func(w, m, 1, scope, method=True)
            w.emit(0, "}")
        else:
            w.emit(0, f"struct Config_{n};")
            w.emit(0, f"impl Config_{n} {{")
            for j, lit in enumerate(it.get("consts", [])):
                ty = "f64" if _is_float_text(lit["text"]) else "i64"
                line = w.emit(1, f"const LIMIT_{j}: {ty} = {lit_src(lit)};")
                w.slot(line, lit, "const", "const", scope, {"tpl": "assoc-const"})
            for m in it.get("methods", []):
                _func(w, m, 1, scope, method=True)
            w.emit(0, "}")
    elif k == "func":
        _func(w, it, 0, scope)
    elif k == "testmod":
        w.emit(0, "#[cfg(test)]")
        w.emit(0, f"mod tests_{n} {{")
        inner = dict(scope, testcode=True, tool_testcode=True)
        for f in it.get("funcs", []):
            _func(w, f, 1, inner)
        w.emit(0, "}")
    else:
        raise ValueError(k)
    w.emit(0, "")


def render_file(lang, fname, file_exempt, items):
    """-> (text, slots, baits)"""
    w = _W(lang, fname, file_exempt)
    if lang in ("ts", "js"):
        w.emit(0, "// generated module")
    elif lang == "py":
        w.emit(0, '"""generated module"""')
    else:
        w.emit(0, "// generated module")
    w.emit(0, "")
    for it in items:
        _item(w, it, {})
    return "\n".join(w.lines) + "\n", w.slots, w.baits


_PARSERS = {}


def syntax_ok(lang, fname, text) -> bool:
    """Is the rendered file syntactically valid? (Python: ast; ts/js/rs: tree-sitter grammars, used as third-party
    parsers - a generated file the tool could not parse would silently yield no findings.)"""
    if lang == "py":
        import ast

        try:
            ast.parse(text)
            return True
        except SyntaxError:
            return False
    from tree_sitter import Language, Parser

    key = "rs" if lang == "rs" else ("tsx" if fname.endswith("x") else "ts")
    if key not in _PARSERS:
        if key == "rs":
            import tree_sitter_rust as g

            _PARSERS[key] = Parser(Language(g.language()))
        else:
            import tree_sitter_typescript as g

            _PARSERS[key] = Parser(Language(g.language_tsx() if key == "tsx" else g.language_typescript()))
    return not _PARSERS[key].parse(text.encode()).root_node.has_error
