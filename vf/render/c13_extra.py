"""C13 - extra program parts not in vf/seeds.py.

srploc(lang, u, m, b): a class / struct+impl with m public methods (m <= 6, below the default method limit) whose
number of code lines (docs/srp-linter.md: "lines of code (excluding blank lines and comments)") is known by
construction; used with `srp.max_loc` set right at / next to that number, so that an edit which wrongly changes the
LOC count flips the verdict or changes the count quoted in the message.

decoy(lang, u): a suppression directive that covers a finding-free line which is directly followed by a violating line.
The documented scope of `ignore-next-line` is the next line only, so the violation is reported; inserting blank or
comment lines *below the covered line* changes nothing a rule is documented to look at.

stmtlimit(lang, u, limit, shape): Python class whose getter-like methods have bodies that sit at / next to a documented
STATEMENT-count limit (docs/method-property-linter.md: "short body (1-3 statements)", `max_body_statements`): `limit`
statements, `limit + 1` statements, and a body whose last statement is a parenthesised multi-line expression. A
statement count is a fact about the program; the number of physical lines the body occupies is not, so blank or
comment lines inserted between the body statements (or inside the parentheses) must change nothing.
"""
from __future__ import annotations

from vf.seeds import Snippet, _ann, _magic


def srploc(lang: str, u: int, m: int, b: int):
    """-> (Snippet, code_loc)"""
    if lang == "py":
        lines = [f"class Box{u}:", f"    def __init__(self, v{u}):", f"        self.v{u} = v{u}"]
        for i in range(m):
            lines.append(f"    def act{i}_{u}(self, p{u}):")
            for j in range(b):
                lines.append(f"        self.v{u} = step{j}_{u}(self.v{u}, p{u})")
            lines.append(f"        return use_{u}(self.v{u})")
        loc = len(lines)
    elif lang in ("ts", "js"):
        lines = [f"class Box{u} {{"]
        for i in range(m):
            lines.append(f"    act{i}_{u}(p{u}{_ann(lang, 'number')}) {{")
            for j in range(b):
                lines.append(f"        this.v{u} = step{j}_{u}(this.v{u}, p{u});")
            lines.append(f"        return use_{u}(this.v{u});")
            lines.append("    }")
        lines.append("}")
        loc = len(lines)
    else:
        lines = [f"struct Box{u} {{", f"    v{u}: i32,", "}", "", f"impl Box{u} {{"]
        for i in range(m):
            lines.append(f"    pub fn act{i}_{u}(&self, p{u}: i32) -> i32 {{")
            for j in range(b):
                lines.append(f"        let w{j}_{u} = step{j}_{u}(self.v{u}, p{u});")
            lines.append(f"        use_{u}(self.v{u})")
            lines.append("    }")
        lines.append("}")
        loc = len([ln for ln in lines if ln.strip()])
    return Snippet(lines, [], "srploc"), loc


def decoy(lang: str, u: int):
    """ignore-next-line over a quiet line, violation on the line after it."""
    m = _magic(u)
    if lang == "py":
        lines = [f"def calc_{u}(a{u}):", "    # thailint: ignore-next-line[magic-numbers]", f"    b{u} = helper_{u}(a{u})", f"    return b{u} * {m}"]
        return Snippet(lines, [("magic-numbers.numeric-literal", 3)], "decoy")
    if lang in ("ts", "js"):
        lines = [f"function calc_{u}(a{u}{_ann(lang, 'number')}) {{", "    // thailint: ignore-next-line[magic-numbers]", f"    const b{u} = helper_{u}(a{u});",
                 f"    return b{u} * {m};", "}"]
        return Snippet(lines, [("magic-numbers.numeric-literal", 3)], "decoy")
    lines = [f"fn calc_{u}(a{u}: i32) -> i32 {{", "    // thailint: ignore-next-line[magic-numbers]", f"    let b{u} = helper_{u}(a{u});", f"    b{u} * {m}", "}"]
    return Snippet(lines, [("magic-numbers.numeric-literal", 3)], "decoy")


def exempt(lang: str, u: int):
    """Literals that are quiet only because of where they stand (an UPPERCASE constant definition; Python: also a
    small `range()` argument and a string-repetition factor) next to one reported use of another literal. An edit that
    moves or lengthens lines elsewhere must change neither the exemptions nor the reported one."""
    m = _magic(u)
    k = 23 + u % 60
    if lang == "py":
        lines = [f"MAX_RETRIES_{u} = {k}", "", f"def scale_{u}(a{u}):", f"    for step{u} in range(4):", f"        a{u} = widen_{u}(a{u}, step{u})", f"    return a{u} * {m}"]
        return Snippet(lines, [("magic-numbers.numeric-literal", 5)], "exempt")
    if lang in ("ts", "js"):
        lines = [f"const MAX_RETRIES_{u} = {k};", "", f"function scale_{u}(a{u}{_ann(lang, 'number')}) {{", f"    const b{u} = widen_{u}(a{u}, MAX_RETRIES_{u});", f"    return b{u} * {m};", "}"]
        return Snippet(lines, [("magic-numbers.numeric-literal", 4)], "exempt")
    lines = [f"const MAX_RETRIES_{u}: i32 = {k};", "", f"fn scale_{u}(a{u}: i32) -> i32 {{", f"    let b{u} = widen_{u}(a{u}, MAX_RETRIES_{u});", f"    b{u} * {m}", "}"]
    return Snippet(lines, [("magic-numbers.numeric-literal", 4)], "exempt")


def cloneuse(lang: str, u: int):
    """Rust: `let b = a.clone()` with the source never used afterwards (reported as unnecessary clone) and the same
    shape with the source used in a later statement (not reported). Whether a name is *used afterwards* is a fact
    about identifiers, not about words in comments or about longer names that contain the name."""
    if lang != "rs":
        return None
    lines = [f"fn keep_{u}(item{u}: String) -> usize {{", f"    let copy{u} = item{u}.clone();", f"    let total{u} = measure_{u}(copy{u});", f"    total{u}", "}", "",
             f"fn reuse_{u}(elem{u}: String) -> usize {{", f"    let dup{u} = elem{u}.clone();", f"    let first{u} = measure_{u}(dup{u});", f"    first{u} + elem{u}.len()", "}"]
    return Snippet(lines, [("clone-abuse.unnecessary-clone", 1)], "cloneuse")


STMT_SHAPES = ("flat", "paren", "doc")


def stmtlimit(lang: str, u: int, limit: int, shape: int):
    """Python only. `limit` = the max_body_statements the file is linted with (2..5).
    flat : `limit` one-line statements                      + a sibling with limit+1 statements (outside the limit)
    paren: limit-1 statements, the return spread over 2 lines in parentheses (limit physical lines)
    doc  : a one-line docstring followed by `limit` one-line statements
    Every body is side-effect free, call free and control-flow free; each method takes only self and returns a value."""
    if lang != "py":
        return None
    lines = [f"class Acct{u}:", f"    def __init__(self, a{u}, b{u}):", f"        self._a{u} = a{u}", f"        self._b{u} = b{u}", ""]
    expect = []

    def method(name, nstmts, paren=False, doc=False):
        expect.append(("method-property.should-be-property", len(lines)))
        lines.append(f"    def {name}_{u}(self):")
        if doc:
            lines.append(f'        """Sum of the parts of {name}."""')
        prev = f"self._a{u}"
        for j in range(nstmts - 1):
            lines.append(f"        w{j}_{u} = {prev} * self._b{u}")
            prev = f"w{j}_{u}"
        if paren:
            lines.append(f"        return ({prev}")
            lines.append(f"                + self._b{u})")
        else:
            lines.append(f"        return {prev} + self._b{u}")
        lines.append("")

    kind = STMT_SHAPES[shape % len(STMT_SHAPES)]
    if kind == "flat":
        method("total", limit)
        method("ratio", limit + 1)
        expect.pop()
    elif kind == "paren":
        method("total", max(1, limit - 1), paren=True)
        method("ratio", limit)
    else:
        method("total", limit, doc=True)
        method("ratio", max(1, limit - 1))
    return Snippet(lines[:-1], expect, "stmtlimit")
