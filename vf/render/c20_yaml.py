"""C20: render an abstract "existing .thailint.yaml" description to YAML text with chosen style features.

doc = {
  "start_marker": bool,     leading `---`
  "doc_flow": bool,         whole document as one flow mapping  {a: {...}, b: ...}
  "crlf": bool, "final_newline": bool, "indent": 2 | 4,
  "head": [comment, ...],   full-line comments before the first key
  "tail": [comment, ...],   full-line comments after the last key
  "items": [ {"key": str, "quote": "" | "'" | '"', "style": "block" | "flow" | "literal-keep" (str value, last item only), "value": json value,
              "before": [comment, ...], "trail": comment | None,
              "inner": [[after_entry_index, "indented" | "col0", comment], ...],
              "anchor": name          the value carries the anchor `&name` (key: &name {...})
              "merge_from": name      (mapping value) the section's first entry is the merge key `<<: *name`
             }
             | {"key": k, "style": "alias", "ref": name}            key: *name       (value = the anchored value)
             | {"key": "<<", "style": "merge", "refs": [name, ...], "as_list": bool}   top-level merge key  <<: *a  /  <<: [*a, *b]
           ]
}
Anchors must be defined by an earlier item. Merge keys follow the YAML 1.1 merge-key type as yaml.safe_load applies it:
explicit keys of the mapping win over merged-in ones, an earlier alias of a list wins over a later one.
A comment is the text after `#` (may contain newlines: one comment line per piece).
`render(doc) -> (text, expected_mapping, comment_lines)`; the caller self-validates text against the mapping.
"""
from __future__ import annotations

import json
import re

_PLAIN = re.compile(r"^[A-Za-z_][A-Za-z0-9_./*-]*$")
_WORDS = {"true", "false", "null", "yes", "no", "on", "off", "y", "n", "none", "nan", "inf"}


def scalar(v) -> str:
    if v is None:
        return "null"
    if v is True:
        return "true"
    if v is False:
        return "false"
    if isinstance(v, (int, float)):
        return repr(v)
    if isinstance(v, str):
        if _PLAIN.match(v) and v.lower() not in _WORDS and not v.endswith(("-", ".")):
            return v
        return json.dumps(v, ensure_ascii=False)
    raise TypeError(v)


def key_text(k: str, quote: str = "") -> str:
    if quote == "'":
        return "'" + k.replace("'", "''") + "'"
    if quote == '"':
        return json.dumps(k, ensure_ascii=False)
    return scalar(k)


def flow(v) -> str:
    if isinstance(v, dict):
        return "{" + ", ".join(f"{key_text(k)}: {flow(x)}" for k, x in v.items()) + "}"
    if isinstance(v, list):
        return "[" + ", ".join(flow(x) for x in v) + "]"
    return scalar(v)


def _block(v, ind: int, step: int) -> list[str]:
    """Lines for a non-empty dict or list value in block style, indented by ind."""
    pad = " " * ind
    out = []
    if isinstance(v, dict):
        for k, x in v.items():
            if isinstance(x, (dict, list)) and x:
                out.append(f"{pad}{key_text(k)}:")
                out.extend(_block(x, ind + step, step))
            else:
                out.append(f"{pad}{key_text(k)}: {flow(x)}")
    else:
        for x in v:
            if isinstance(x, dict) and x:
                sub = _block(x, ind + 2, step)
                out.append(f"{pad}- {sub[0].lstrip()}")
                out.extend(sub[1:])
            else:
                out.append(f"{pad}- {flow(x)}")
    return out


def _flow_with_merge(v: dict, merge_from: str | None) -> str:
    if not merge_from:
        return flow(v)
    return "{" + ", ".join([f"<<: *{merge_from}"] + [f"{key_text(k)}: {flow(x)}" for k, x in v.items()]) + "}"


def _merge_text(it) -> str:
    refs = it["refs"]
    return "[" + ", ".join(f"*{r}" for r in refs) + "]" if (len(refs) > 1 or it.get("as_list")) else f"*{refs[0]}"


def _item_key(it) -> str:
    # the merge key is the PLAIN scalar << (a quoted "<<" would be an ordinary string key)
    return "<<" if it.get("style") == "merge" else key_text(it["key"], it.get("quote", ""))


def _inline_value(it) -> str:
    """Text of an item's value when it is written on the key's line."""
    if it.get("style") == "alias":
        return f"*{it['ref']}"
    if it.get("style") == "merge":
        return _merge_text(it)
    anchor = f"&{it['anchor']} " if it.get("anchor") else ""
    v = it["value"]
    return anchor + (_flow_with_merge(v, it.get("merge_from")) if isinstance(v, dict) else flow(v))


def _comment_lines(c: str, pad: str = "") -> list[str]:
    return [f"{pad}#{piece}" for piece in c.split("\n")]


def render(doc) -> tuple[str, dict, list[str]]:
    step = doc.get("indent", 2)
    lines: list[str] = []
    comments: list[str] = []
    expected: dict = {}
    anchors: dict = {}
    merged: dict = {}

    def expect(it):
        """Record the parsed value of one top-level item (anchors / aliases / merge keys resolved)."""
        if it.get("style") == "merge":
            for ref in it["refs"]:
                for mk, mv in anchors[ref].items():
                    merged.setdefault(mk, mv)
            return
        if it.get("style") == "alias":
            val = anchors[it["ref"]]
        else:
            val = it["value"]
            if it.get("merge_from"):
                val = {**anchors[it["merge_from"]], **val}
            if it.get("anchor"):
                anchors[it["anchor"]] = val
        expected[it["key"]] = val

    def add_comment(c, pad=""):
        ls = _comment_lines(c, pad)
        lines.extend(ls)
        comments.extend(x.strip() for x in ls)

    if doc.get("start_marker"):
        lines.append("---")
    for c in doc.get("head", []):
        add_comment(c)
    items = doc["items"]
    if doc.get("doc_flow"):
        for it in items:
            expect(it)
        body = ", ".join(f"{_item_key(it)}: {_inline_value(it)}" for it in items)
        lines.append("{" + body + "}")
    else:
        for n, it in enumerate(items):
            expect(it)
            if n and doc.get("blank_between", True):
                lines.append("")
            for c in it.get("before", []):
                add_comment(c)
            k = _item_key(it)
            v = it.get("value")
            trail = it.get("trail")
            tr = f"  #{trail}" if trail else ""
            if trail:
                comments.append(f"#{trail}".strip())
            if it.get("style") == "literal-keep" and isinstance(v, str) and v.endswith("\n"):
                # block scalar with keep chomping: trailing blank lines belong to the value (only used for the last item)
                lines.append(f"{k}: |+{tr}")
                lines.extend((" " * step + ln) if ln else "" for ln in v.split("\n")[:-1])
                continue
            if it.get("style") in ("flow", "alias", "merge") or not isinstance(v, (dict, list)) or not v:
                lines.append(f"{k}: {_inline_value(it)}{tr}")
                continue
            lines.append(f"{k}:" + (f" &{it['anchor']}" if it.get("anchor") else "") + tr)
            body = _block(v, step if isinstance(v, dict) else 2, step)
            if it.get("merge_from") and isinstance(v, dict):
                body.insert(0, " " * step + f"<<: *{it['merge_from']}")
            # inner comments: after the n-th top-level entry line of this section
            inner = {}
            for pos, mode, c in it.get("inner", []):
                inner.setdefault(pos, []).append((mode, c))
            entry = -1
            base = step if isinstance(v, dict) else 2
            # place comments before the entry line with index pos (0 = before first entry)
            result = []
            for ln in body:
                if len(ln) - len(ln.lstrip()) == base:
                    entry += 1
                    for mode, c in inner.get(entry, []):
                        ls = _comment_lines(c, " " * base if mode == "indented" else "")
                        result.extend(ls)
                        comments.extend(x.strip() for x in ls)
                result.append(ln)
            lines.extend(result)
    for mk, mv in merged.items():
        expected.setdefault(mk, mv)  # explicit keys win over merged-in ones
    for c in doc.get("tail", []):
        add_comment(c)
    nl = "\r\n" if doc.get("crlf") else "\n"
    text = nl.join(lines)
    if doc.get("final_newline", True):
        text += nl
    return text, expected, comments
