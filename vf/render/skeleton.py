"""Control-structure skeletons -> py / ts / js / rs source with a map name -> header line.

A function: {"name": str, "container": "top"|"method"|"arrow"|"funcexpr"|"curried"|"callback"|"defparam"|"generator"|"genexpr"|"asyncfn"|"objmethod"|"classfield", "body": forest}
            (curried / callback / defparam: ts/js forms in which the function sits behind an expression-bodied arrow function or in
            a parameter default; rendered as plain functions in py/rs)
A forest:   list of nodes;  a node: {"k": kind, "b": [forest, ...], ...}
Kinds (b = branches):
  common   if (b=[then, elif.., else?], "else": bool)   for   while   match (b = cases)
  py       with, awith, afor (async for), try (b=[body, handler, final?]),
           forelse / whileelse / aforelse (b=[body, else-clause]), tryelse (b=[body, handler, else-clause, final?])
  ts/js    dowhile, forin, forof, try
  rs       loop, whilelet, iflet, closure, asyncblock (`async { ... }`, listed by the docs as "async blocks")
Every block holds one unique leaf statement of its own (leaf="first": before its control structures, "last": after
them) or - leaf="omit" - only blocks without control structures do, so that a control structure can be the ONLY
statement of the block around it (function body, loop body, else clause, handler, case, closure ...). Either way
every control structure encloses a statement and the control-structure tree is the same. One exception: a Python
`else:` of an if whose only content is an `if` keeps its leaf, because `else:` + sole `if` IS `elif` in Python.
"""
from __future__ import annotations

COMMON = ("if", "for", "while", "match")
ONLY = {
    "py": ("with", "awith", "afor", "try", "forelse", "whileelse", "aforelse", "tryelse"),
    "ts": ("dowhile", "forin", "forof", "try"),
    "js": ("dowhile", "forin", "forof", "try"),
    "rs": ("loop", "whilelet", "iflet", "closure", "asyncblock"),
}
LANGS = ("py", "ts", "js", "rs")
LEAF_MODES = ("first", "last", "omit")
# kinds with a fixed / bounded number of branches other than one (min, max); `if` has 1..4 and the else flag
BRANCHES = {"match": (1, 3), "try": (2, 3), "forelse": (2, 2), "whileelse": (2, 2), "aforelse": (2, 2), "tryelse": (3, 4)}
EXT = {"py": ".py", "ts": ".ts", "js": ".js", "rs": ".rs"}


def kinds_in(forest) -> set:
    out = set()
    for n in forest:
        out.add(n["k"])
        for b in n["b"]:
            out |= kinds_in(b)
    return out


def langs_for(funcs) -> list:
    ks = set()
    for f in funcs:
        ks |= kinds_in(f["body"])
    out = []
    for lang in LANGS:
        if all(k in COMMON or k in ONLY[lang] for k in ks):
            if lang == "rs" and any(f["container"] in ("arrow", "funcexpr", "curried", "callback", "defparam") for f in funcs):
                pass  # rendered as plain fn in rust
            out.append(lang)
    return out


class _W:
    def __init__(self, terse=False, leaf="first"):
        self.lines = []
        self.n = 0
        self.terse = terse  # blocks that hold only their leaf statement are written without a block where the language allows it
        if leaf not in LEAF_MODES:
            raise ValueError(leaf)
        self.leaf = leaf

    def leaf_at(self, forest, keep=False):
        """where this block's own leaf statement goes: "first" | "last" | None (block of control structures only)"""
        if not forest:
            return "first"
        if self.leaf == "omit":
            return "first" if keep else None
        return self.leaf

    def add(self, indent, text):
        self.lines.append("    " * indent + text)

    def fresh(self):
        self.n += 1
        return self.n


# ---------------------------------------------------------------- python


def _py_block(w, head, br, ind, keep=False):
    if w.terse and not br:
        i = w.fresh()
        w.add(ind, f"{head} v{i} = f{i}()")
    else:
        w.add(ind, head)
        _py_forest(w, br, ind + 1, keep)


def _py_forest(w, forest, ind, keep=False):
    at = w.leaf_at(forest, keep)
    if at == "first":
        i = w.fresh()
        w.add(ind, f"v{i} = f{i}()")
    _py_nodes(w, forest, ind)
    if at == "last":
        i = w.fresh()
        w.add(ind, f"v{i} = f{i}()")


def _py_nodes(w, forest, ind):
    for n in forest:
        k, b = n["k"], n["b"]
        j = w.fresh()
        if k == "if":
            has_else = n.get("else") and len(b) >= 2
            conds = b[:-1] if has_else else b
            for idx, br in enumerate(conds):
                _py_block(w, ("if" if idx == 0 else "elif") + f" c{j}_{idx}:", br, ind)
            if has_else:
                # `else:` whose only statement is an `if` would BE an elif link: that block keeps its leaf
                _py_block(w, "else:", b[-1], ind, keep=len(b[-1]) == 1 and b[-1][0]["k"] == "if")
        elif k in ("for", "forelse"):
            _py_block(w, f"for i{j} in xs{j}:", b[0], ind)
            if k == "forelse":
                _py_block(w, "else:", b[1], ind)
        elif k in ("while", "whileelse"):
            _py_block(w, f"while c{j}:", b[0], ind)
            if k == "whileelse":
                _py_block(w, "else:", b[1], ind)
        elif k == "match":
            w.add(ind, f"match m{j}:")
            for idx, br in enumerate(b):
                pat = "_" if idx == len(b) - 1 and idx > 0 else str(idx + 1)
                _py_block(w, f"case {pat}:", br, ind + 1)
        elif k == "with":
            _py_block(w, f"with ctx{j}() as r{j}:", b[0], ind)
        elif k == "awith":
            _py_block(w, f"async with ctx{j}() as r{j}:", b[0], ind)
        elif k in ("afor", "aforelse"):
            _py_block(w, f"async for i{j} in xs{j}:", b[0], ind)
            if k == "aforelse":
                _py_block(w, "else:", b[1], ind)
        elif k == "try":
            _py_block(w, "try:", b[0], ind)
            _py_block(w, "except Exception:", b[1], ind)
            if len(b) > 2:
                _py_block(w, "finally:", b[2], ind)
        elif k == "tryelse":
            _py_block(w, "try:", b[0], ind)
            _py_block(w, "except Exception:", b[1], ind)
            _py_block(w, "else:", b[2], ind)
            if len(b) > 3:
                _py_block(w, "finally:", b[3], ind)
        else:
            raise ValueError(k)


def render_py(funcs, terse=False, leaf="first"):
    w = _W(terse, leaf)
    w.add(0, '"""generated skeleton"""')
    headers = {}
    in_class = False
    for f in funcs:
        is_async = bool({"awith", "afor", "aforelse"} & kinds_in(f["body"]))
        kw = "async def" if is_async else "def"
        if f["container"] == "method":
            if not in_class:
                w.add(0, "")
                w.add(0, f"class K{w.fresh()}:")
                in_class = True
            w.add(0, "")
            w.add(1, f"{kw} {f['name']}(self, a):")
            headers[f["name"]] = len(w.lines)
            _py_forest(w, f["body"], 2)
        else:
            in_class = False
            w.add(0, "")
            w.add(0, "")
            w.add(0, f"{kw} {f['name']}(a):")
            headers[f["name"]] = len(w.lines)
            _py_forest(w, f["body"], 1)
    return "\n".join(w.lines) + "\n", headers


# ---------------------------------------------------------------- typescript / javascript


def _ts_single(w, head, br, ind, tail=None):
    """`head {` body `}` (+ tail on the closing line), or head + one expression statement when terse and leaf-only."""
    if w.terse and not br:
        i = w.fresh()
        w.add(ind, f"{head} f{i}();")
        if tail:
            w.add(ind, tail)
        return
    w.add(ind, head + " {")
    _ts_forest(w, br, ind + 1)
    w.add(ind, "}" + (" " + tail if tail else ""))


def _ts_forest(w, forest, ind):
    at = w.leaf_at(forest)
    if at == "first":
        i = w.fresh()
        w.add(ind, f"const v{i} = f{i}();")
    _ts_nodes(w, forest, ind)
    if at == "last":
        i = w.fresh()
        w.add(ind, f"const v{i} = f{i}();")


def _ts_nodes(w, forest, ind):
    for n in forest:
        k, b = n["k"], n["b"]
        j = w.fresh()
        if k == "if":
            has_else = n.get("else") and len(b) >= 2
            conds = b[:-1] if has_else else b
            if w.terse and all(not br for br in b):
                for idx, br in enumerate(conds):
                    w.add(ind, ("if" if idx == 0 else "else if") + f" (c{j}_{idx}) f{w.fresh()}();")
                if has_else:
                    w.add(ind, f"else f{w.fresh()}();")
                continue
            for idx, br in enumerate(conds):
                w.add(ind, ("if" if idx == 0 else "} else if") + f" (c{j}_{idx}) {{")
                _ts_forest(w, br, ind + 1)
            if has_else:
                w.add(ind, "} else {")
                _ts_forest(w, b[-1], ind + 1)
            w.add(ind, "}")
        elif k == "for":
            _ts_single(w, f"for (let i{j} = 0; i{j} < n{j}; i{j}++)", b[0], ind)
        elif k == "forin":
            _ts_single(w, f"for (const k{j} in obj{j})", b[0], ind)
        elif k == "forof":
            _ts_single(w, f"for (const x{j} of xs{j})", b[0], ind)
        elif k == "while":
            _ts_single(w, f"while (c{j})", b[0], ind)
        elif k == "dowhile":
            _ts_single(w, "do", b[0], ind, tail=f"while (c{j});")
        elif k == "match":
            w.add(ind, f"switch (m{j}) {{")
            for idx, br in enumerate(b):
                lab = "default:" if idx == len(b) - 1 and idx > 0 else f"case {idx + 1}:"
                w.add(ind + 1, lab)
                _ts_forest(w, br, ind + 2)
                w.add(ind + 2, "break;")
            w.add(ind, "}")
        elif k == "try":
            w.add(ind, "try {")
            _ts_forest(w, b[0], ind + 1)
            w.add(ind, f"}} catch (e{j}) {{")
            _ts_forest(w, b[1], ind + 1)
            if len(b) > 2:
                w.add(ind, "} finally {")
                _ts_forest(w, b[2], ind + 1)
            w.add(ind, "}")
        else:
            raise ValueError(k)


def render_ts(funcs, typed=True, terse=False, leaf="first"):
    w = _W(terse, leaf)
    w.add(0, "// generated skeleton")
    headers = {}
    in_class = False
    ann = ": number" if typed else ""
    for f in funcs:
        c = f["container"]
        if c == "method":
            if not in_class:
                w.add(0, "")
                w.add(0, f"class K{w.fresh()} {{")
                in_class = True
            w.add(1, f"{f['name']}(a{ann}) {{")
            headers[f["name"]] = len(w.lines)
            _ts_forest(w, f["body"], 2)
            w.add(1, "}")
            continue
        if in_class:
            w.add(0, "}")
            in_class = False
        w.add(0, "")
        if c == "arrow" and terse and not f["body"]:
            # expression-bodied arrow function: a function of depth 1 without a block
            w.add(0, f"const {f['name']} = (a{ann}) => f{w.fresh()}(a);")
            headers[f["name"]] = len(w.lines)
            continue
        if c in ("objmethod", "classfield"):
            # a method of an object literal / an arrow function assigned to a class field: one holder per function
            k = w.fresh()
            w.add(0, f"const holder{k} = {{" if c == "objmethod" else f"class Holder{k} {{")
            w.add(1, f"{f['name']}(a{ann}) {{" if c == "objmethod" else f"{f['name']} = (a{ann}) => {{")
            headers[f["name"]] = len(w.lines)
            _ts_forest(w, f["body"], 2)
            w.add(1, "}," if c == "objmethod" else "};")
            w.add(0, "};" if c == "objmethod" else "}")
            continue
        if c == "arrow":
            w.add(0, f"const {f['name']} = (a{ann}) => {{")
        elif c == "generator":
            w.add(0, f"function* {f['name']}(a{ann}) {{")
        elif c == "genexpr":
            w.add(0, f"const {f['name']} = function* (a{ann}) {{")
        elif c == "asyncfn":
            w.add(0, f"export async function {f['name']}(a{ann}) {{")
        elif c == "curried":  # the block-bodied function is only reachable through an expression-bodied arrow function
            w.add(0, f"const {f['name']} = (z{ann}) => (a{ann}) => {{")
        elif c == "callback":  # ... or is an argument of the call that an expression-bodied arrow function returns
            w.add(0, f"const {f['name']} = () => xs{w.fresh()}.map((a{ann}) => {{")
        elif c == "defparam":  # ... or is the default value of a parameter
            w.add(0, f"function {f['name']}(cb = function (a{ann}) {{")
        elif c == "funcexpr":
            w.add(0, f"const {f['name']} = function (a{ann}) {{")
        else:
            w.add(0, f"function {f['name']}(a{ann}) {{")
        headers[f["name"]] = len(w.lines)
        _ts_forest(w, f["body"], 1)
        if c == "callback":
            w.add(0, "});")
        elif c == "defparam":
            w.add(0, "}) {")
            w.add(1, "return cb;")
            w.add(0, "}")
        else:
            w.add(0, "};" if c in ("arrow", "funcexpr", "curried", "genexpr") else "}")
    if in_class:
        w.add(0, "}")
    return "\n".join(w.lines) + "\n", headers


# ---------------------------------------------------------------- rust


def _rs_forest(w, forest, ind):
    at = w.leaf_at(forest)
    if at == "first":
        i = w.fresh()
        w.add(ind, f"let v{i} = f{i}();")
    _rs_nodes(w, forest, ind)
    if at == "last":
        i = w.fresh()
        w.add(ind, f"let v{i} = f{i}();")


def _rs_nodes(w, forest, ind):
    for n in forest:
        k, b = n["k"], n["b"]
        j = w.fresh()
        if k == "if":
            has_else = n.get("else") and len(b) >= 2
            conds = b[:-1] if has_else else b
            for idx, br in enumerate(conds):
                w.add(ind, ("if" if idx == 0 else "} else if") + f" c{j}_{idx} {{")
                _rs_forest(w, br, ind + 1)
            if has_else:
                w.add(ind, "} else {")
                _rs_forest(w, b[-1], ind + 1)
            w.add(ind, "}")
        elif k == "iflet":
            w.add(ind, f"if let Some(y{j}) = opt{j} {{")
            _rs_forest(w, b[0], ind + 1)
            w.add(ind, "}")
        elif k == "for":
            w.add(ind, f"for i{j} in 0..n{j} {{")
            _rs_forest(w, b[0], ind + 1)
            w.add(ind, "}")
        elif k == "while":
            w.add(ind, f"while c{j} {{")
            _rs_forest(w, b[0], ind + 1)
            w.add(ind, "}")
        elif k == "whilelet":
            w.add(ind, f"while let Some(y{j}) = it{j}.next() {{")
            _rs_forest(w, b[0], ind + 1)
            w.add(ind, "}")
        elif k == "loop":
            w.add(ind, "loop {")
            _rs_forest(w, b[0], ind + 1)
            w.add(ind + 1, "break;")
            w.add(ind, "}")
        elif k == "match":
            w.add(ind, f"match m{j} {{")
            for idx, br in enumerate(b):
                pat = "_" if idx == len(b) - 1 and idx > 0 else str(idx + 1)
                if w.terse and not br:
                    w.add(ind + 1, f"{pat} => f{w.fresh()}(),")  # bare-expression arm
                    continue
                w.add(ind + 1, f"{pat} => {{")
                _rs_forest(w, br, ind + 2)
                w.add(ind + 1, "}")
            w.add(ind, "}")
        elif k == "asyncblock":
            w.add(ind, f"let fut{j} = async move {{")
            _rs_forest(w, b[0], ind + 1)
            w.add(ind, "};")
        elif k == "closure":
            if w.terse and not b[0]:
                w.add(ind, f"let g{j} = |p{j}: i32| f{w.fresh()}(p{j});")  # closure without a block
                continue
            w.add(ind, f"let g{j} = |p{j}: i32| {{")
            _rs_forest(w, b[0], ind + 1)
            w.add(ind, "};")
        else:
            raise ValueError(k)


def render_rs(funcs, terse=False, leaf="first"):
    w = _W(terse, leaf)
    w.add(0, "// generated skeleton")
    headers = {}
    in_impl = False
    for f in funcs:
        if f["container"] == "method":
            if not in_impl:
                w.add(0, "")
                k = w.fresh()
                w.add(0, f"struct K{k};")
                w.add(0, "")
                w.add(0, f"impl K{k} {{")
                in_impl = True
            w.add(1, f"fn {f['name']}(&self, a: i32) {{")
            headers[f["name"]] = len(w.lines)
            _rs_forest(w, f["body"], 2)
            w.add(1, "}")
            continue
        if in_impl:
            w.add(0, "}")
            in_impl = False
        w.add(0, "")
        qual = {"asyncfn": "pub async fn", "generator": "pub(crate) fn", "genexpr": "pub unsafe fn"}.get(f["container"], "fn")
        w.add(0, f"{qual} {f['name']}(a: i32) {{")
        headers[f["name"]] = len(w.lines)
        _rs_forest(w, f["body"], 1)
        w.add(0, "}")
    if in_impl:
        w.add(0, "}")
    return "\n".join(w.lines) + "\n", headers


def compact(text, headers):
    """Re-layout brace languages: every top-level function / class on ONE physical line (blocks opened on the same
    line); -> (text, headers). Comment lines are dropped, statements already end in ';' or '}'."""
    out, new_headers, cur, start = [], {}, [], None
    inv = {ln: name for name, ln in headers.items()}
    depth = 0
    for i, line in enumerate(text.split("\n"), start=1):
        s = line.strip()
        if not s or s.startswith("//"):
            continue
        if depth == 0:
            start = len(out) + 1
        if i in inv:
            new_headers[inv[i]] = start
        cur.append(s)
        depth += s.count("{") - s.count("}")
        if depth == 0:
            out.append(" ".join(cur))
            cur = []
    if cur:
        out.append(" ".join(cur))
    return "\n".join(out) + "\n", new_headers


def render(funcs, lang, layout="lines", leaf="first"):
    """leaf: first | last | omit - where a block that holds control structures has its own leaf statement (module docstring).
    layout: lines | compact (brace languages: one physical line per top-level item) | terse (blocks that hold only
    their leaf statement are written without a block: `if c: stmt`, `if (c) stmt;`, `pat => expr,`, `|p| expr`,
    `(a) => expr`) - the control-structure tree, and with it the documented depth, is the same in every layout."""
    if layout == "compact" and lang != "py":
        return compact(*render(funcs, lang, "lines", leaf))
    terse = layout == "terse"
    if lang == "py":
        return render_py(funcs, terse, leaf)
    if lang == "ts":
        return render_ts(funcs, True, terse, leaf)
    if lang == "js":
        return render_ts(funcs, False, terse, leaf)
    if lang == "rs":
        return render_rs(funcs, terse, leaf)
    raise ValueError(lang)
