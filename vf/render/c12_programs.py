"""C12 - programs with constructs at recorded ground-truth positions.

A Unit is a block of source lines plus Truths: for every planted construct the line of its header / literal / call
(relative to the unit), the last line of the construct (multi-line calls, chains), the key token (function / class name,
literal value) and the placement class that produced it. Units are built from the seed library (vf/seeds.py) by
*placement transformations* that never change what the construct is, only where it sits:

  deco       decorator / attribute / doc-comment lines above a function or class header
  multisig   header split over several lines (parameters / base classes on their own lines)
  modifier   keywords in front of the header (async, export, export default, pub, pub(crate))
  block      wrapped in an `if` block (py, ts, js) or a `mod` (rs): indentation level +1, column > 0
  method     function turned into a method of a host class / impl block
  arrow      ts/js: `const name = (params) => {` form

plus hand-written variants of the call / literal families with the construct in a multi-line call, a multi-line
collection literal, a multi-line method chain, or preceded by other code on the same line (prefix); and, for the call
families, call_layout(): the same call in every layout over physical lines (ARG_LAYOUTS / METHOD_LAYOUTS).
"""
from __future__ import annotations

import re
from dataclasses import dataclass, field

from vf import seeds
from vf.seeds import _ann, _magic

HEADER_FAMS = ("nesting", "srp", "stateless")  # the reported line must be the def/function/fn/class/struct header
CALL_FAMS = ("print", "unwrap", "clone", "blocking")  # the reported line must lie within the call expression
FUNC_FAMS = ("nesting", "magic", "print", "pipeline", "lbyl", "concat", "regex", "unwrap", "clone", "blocking", "lazy")
CLASS_FAMS = ("srp", "stateless", "methodprop")


@dataclass
class Truth:
    fam: str
    rule: str
    rel: int  # 0-based line in the unit (after compose: 1-based line in the file)
    last: int  # last line of the construct (== rel for single-line constructs)
    name: str | None = None
    value: float | None = None
    place: str = "plain"
    callee: int = -1  # line that holds the called name when it is not the first line of the call expression (method of a chain); -1: rel


@dataclass
class Unit:
    lines: list
    truths: list = field(default_factory=list)
    fam: str = ""
    places: list = field(default_factory=list)

    def shift(self, at, n):
        """n lines were inserted before unit line `at`"""
        for t in self.truths:
            if t.rel >= at:
                t.rel += n
            if t.last >= at:
                t.last += n
            if t.callee >= 0 and t.callee >= at:
                t.callee += n


NAME = re.compile(r"(?:def|class|function|fn|struct)\s+([A-Za-z_]\w*)")


def from_seed(fam, lang, u, var) -> Unit:
    s = seeds.seed(fam, lang, u, var)
    m = NAME.search(s.lines[0])
    name = m.group(1) if m else None
    truths = []
    for rule, rel in s.expect:
        t = Truth(fam, rule, rel, rel)
        if fam in HEADER_FAMS:
            t.name = name
        if fam == "magic":
            t.value = _magic(u)
        truths.append(t)
    return Unit(list(s.lines), truths, fam)


# ------------------------------------------------------------------------------------ call / literal variants


def variant(fam, lang, u, var) -> Unit | None:
    """Hand-written multi-line / prefix / chain forms. None when the family has no variant in that language."""
    m = _magic(u)
    a = f"a{u}"
    T = lambda rel, last, place, **kw: Truth(fam, RULES[fam], rel, last, place=place, **kw)  # noqa: E731
    if lang == "py":
        hdr = f"def fn_{u}({a}):"
        forms = {
            "magic": [
                ([hdr, f"    b{u} = use_{u}(", f"        {a},", f"        {m},", "    )", f"    return b{u}"], [T(3, 3, "multiline-call", value=m)]),
                ([hdr, f"    q{u} = helper_{u}({a}); r{u} = q{u} + {m}", f"    return r{u}"], [T(1, 1, "prefix", value=m)]),
                ([hdr, f"    vals{u} = [", f"        {a},", f"        {m}.5,", "    ]", f"    return vals{u}"], [T(3, 3, "multiline-literal", value=m + 0.5)]),
                ([hdr, f"    if {a}:", f"        for i{u} in {a}:", f"            {a} = i{u} + {m}", f"    return {a}"], [T(3, 3, "deep", value=m)]),
                ([hdr, f"    return ({a}", f"            * {m}", f"            + {a})"], [T(2, 2, "continuation", value=m)]),
            ],
            "print": [
                ([hdr, "    print(", "        'value',", f"        {a},", "    )", f"    return {a}"], [T(1, 4, "multiline-call")]),
                ([hdr, f"    b{u} = {a}; print(b{u})", f"    return b{u}"], [T(1, 1, "prefix")]),
                ([hdr, f"    for i{u} in {a}:", f"        if i{u}:", f"            print(i{u})", f"    return {a}"], [T(3, 3, "deep")]),
                ([hdr, f"    print({a})"], [T(1, 1, "last-line")]),
            ],
        }
    elif lang in ("ts", "js"):
        hdr = f"function fn_{u}({a}{_ann(lang, 'any')}) {{"
        forms = {
            "magic": [
                ([hdr, f"    const b{u} = use_{u}(", f"        {a},", f"        {m},", "    );", f"    return b{u};", "}"], [T(3, 3, "multiline-call", value=m)]),
                ([hdr, f"    const q{u} = helper_{u}({a}); const r{u} = q{u} + {m};", f"    return r{u};", "}"], [T(1, 1, "prefix", value=m)]),
                ([hdr, f"    const vals{u} = [", f"        {a},", f"        {m}.5,", "    ];", f"    return vals{u};", "}"], [T(3, 3, "multiline-literal", value=m + 0.5)]),
                ([hdr, f"    if ({a}) {{", f"        for (const i{u} of {a}) {{", f"            use_{u}(i{u} + {m});", "        }", "    }", "}"], [T(3, 3, "deep", value=m)]),
                ([hdr, f"    return ({a}", f"        * {m}", f"        + {a});", "}"], [T(2, 2, "continuation", value=m)]),
            ],
            "print": [
                ([hdr, "    console.log(", "        'value',", f"        {a},", "    );", f"    return {a};", "}"], [T(1, 4, "multiline-call")]),
                ([hdr, f"    const b{u} = {a}; console.log(b{u});", f"    return b{u};", "}"], [T(1, 1, "prefix")]),
                ([hdr, f"    for (const i{u} of {a}) {{", f"        if (i{u}) {{", f"            console.error(i{u});", "        }", "    }", "}"], [T(3, 3, "deep")]),
                ([hdr, "    console", f"        .warn({a});", "}"], [T(1, 2, "chain", callee=2)]),
            ],
        }
    else:
        forms = {
            "magic": [
                ([f"fn fn_{u}({a}: i32) -> i32 {{", f"    let b{u} = use_{u}(", f"        {a},", f"        {m},", "    );", f"    b{u}", "}"], [T(3, 3, "multiline-call", value=m)]),
                ([f"fn fn_{u}({a}: i32) -> i32 {{", f"    let q{u} = helper_{u}({a}); let r{u} = q{u} + {m};", f"    r{u}", "}"], [T(1, 1, "prefix", value=m)]),
                ([f"fn fn_{u}({a}: f64) -> f64 {{", f"    let vals{u} = [", f"        {a},", f"        {m}.5,", "    ];", f"    vals{u}[0]", "}"], [T(3, 3, "multiline-literal", value=m + 0.5)]),
                ([f"fn fn_{u}({a}: i32) -> i32 {{", f"    if {a} > 0 {{", f"        for i{u} in 0..{a} {{", f"            use_{u}(i{u} + {m});", "        }", "    }", f"    {a}", "}"], [T(3, 3, "deep", value=m)]),
            ],
            "unwrap": [
                ([f"fn fn_{u}(x{u}: Option<i32>) -> i32 {{", f"    let v{u} = x{u}", f"        .map(|q{u}| q{u})", "        .unwrap();", f"    v{u}", "}"], [T(1, 3, "chain", callee=3)]),
                ([f"fn fn_{u}(x{u}: Option<i32>) -> i32 {{", f"    let w{u} = 0; let v{u} = x{u}.unwrap();", f"    v{u} + w{u}", "}"], [T(1, 1, "prefix")]),
                ([f"fn fn_{u}(x{u}: Option<i32>) -> i32 {{", f"    if x{u}.is_some() {{", f"        for i{u} in 0..3 {{", f"            use_{u}(i{u}, x{u}.unwrap());", "        }", "    }", "    0", "}"], [T(3, 3, "deep")]),
                ([f"fn fn_{u}(x{u}: Option<i32>) -> i32 {{", f"    x{u}.unwrap()", "}"], [T(1, 1, "tail-expression")]),
                # the receiver starts far to the right of where the continuation lines end (a column taken from one line
                # and applied to another falls outside the line)
                ([f"fn fn_{u}(x{u}: Option<i32>) -> i32 {{", f"    let resolved_value_with_a_long_name_{u} = compute_the_optional_{u}(x{u}, x{u})", "    .unwrap();",
                  f"    resolved_value_with_a_long_name_{u}", "}"], [T(1, 2, "chain-long-receiver", callee=2)]),
                ([f"fn fn_{u}(x{u}: Option<i32>) -> i32 {{", f"    let v{u} = x{u}.expect(\"present{u}\");", f"    v{u}", "}"], [Truth(fam, "unwrap-abuse.expect-call", 1, 1, place="plain")]),
            ],
            "clone": [
                ([f"fn fn_{u}(items{u}: Vec<String>) {{", f"    for it{u} in items{u}.iter() {{", f"        let c{u} = it{u}", "            .clone();", f"        use_{u}(c{u});", "    }", "}"], [T(2, 3, "chain", callee=3)]),
                ([f"fn fn_{u}(items{u}: Vec<String>) {{", f"    for it{u} in items{u}.iter() {{", f"        let n{u} = 0; let c{u} = it{u}.clone();", f"        use_{u}(c{u}, n{u});", "    }", "}"], [T(2, 2, "prefix")]),
                ([f"fn fn_{u}(items{u}: Vec<String>) {{", f"    for it{u} in items{u}.iter() {{", f"        let copy_of_the_current_item_{u} = select_the_item_{u}(it{u}, it{u})", "  .clone();",
                  f"        use_{u}(copy_of_the_current_item_{u});", "    }", "}"], [T(2, 3, "chain-long-receiver", callee=3)]),
                ([f"fn fn_{u}(items{u}: Vec<String>) {{", f"    while more_{u}() {{", f"        if ready_{u}() {{", f"            use_{u}(items{u}.clone());", "        }", "    }", "}"], [T(3, 3, "deep")]),
            ],
            "blocking": [
                ([f"async fn fn_{u}() {{", f"    let s{u} = std::fs::read_to_string(", f"        \"f{u}\",", "    );", f"    use_{u}(s{u});", "}"], [T(1, 3, "multiline-call")]),
                ([f"async fn fn_{u}() {{", f"    let n{u} = 0; let s{u} = std::fs::read_to_string(\"f{u}\");", f"    use_{u}(s{u}, n{u});", "}"], [T(1, 1, "prefix")]),
                ([f"async fn fn_{u}(d{u}: std::time::Duration) {{", f"    if ready_{u}() {{", f"        std::thread::sleep(d{u});", "    }", "}"], [Truth(fam, "blocking-async.sleep-in-async", 2, 2, place="deep")]),
            ],
        }
    if fam not in forms:
        return None
    lines, truths = forms[fam][var % len(forms[fam])]
    return Unit(list(lines), truths, fam, [truths[0].place])


RULES = dict(seeds.FAMILY_RULE)


# ------------------------------------------------------------------------------------ layouts of a call over physical lines

# How a call is laid out over physical lines, independent of which call it is.  Calls with an argument list:
ARG_LAYOUTS = (
    "exploded",       # head( / one argument per line / closing parenthesis on its own line
    "hanging",        # head(arg0, / further arguments aligned under arg0 / the last one carries the closing parenthesis
    "dedent-close",   # behind other code on its line; continuation lines shorter than the column where the call starts
    "nested-arg",     # exploded call that is itself an argument of an exploded outer call (starts on a continuation line)
    "nested-single",  # single-line call on a continuation line of an exploded outer call
    "string-arg",     # the call spans two lines only because a string argument does
)
# Method calls (receiver.method()):
METHOD_LAYOUTS = (
    "receiver-args",  # the receiver is a call whose arguments continue on the next line: pick(x, / x).method()
    "nested-single",  # single-line call on a continuation line of an exploded outer call
    "nested-chain",   # receiver / .method() on two continuation lines of an exploded outer call
    "chain-dedent",   # long first line, `.method()` alone at column 0 of the next line
)


def layouts(fam, lang):
    if fam == "print" and lang in ("py", "ts", "js") or fam == "blocking" and lang == "rs":
        return ARG_LAYOUTS
    if fam in ("unwrap", "clone") and lang == "rs":
        return METHOD_LAYOUTS
    return ()


def call_layout(fam, lang, u, layout, tail=True) -> Unit | None:
    """The family's call in layout number `layout` (index into layouts(fam, lang)); `tail`: a statement follows the call
    inside the function.  Truth: rel = first line of the call expression, last = its last line, callee = line of the
    called name when that is a different line."""
    names = layouts(fam, lang)
    if not names:
        return None
    name = names[layout % len(names)]
    a = f"a{u}"
    ind = "    "
    place = "layout-" + name
    if names is ARG_LAYOUTS:
        if lang == "py":
            hdr, close, pre, head, post = [f"def fn_{u}({a}):"], [], "", "print", ""
            args, plain, other = [f"'value{u}'", a, "sep=' '"], a, f"chosen_value_with_a_long_name_{u} = {a}; "
            tails = [f"{ind}return {a}"]
            strarg = (f'"""first{u}', f'second{u}"""')
        elif lang in ("ts", "js"):
            hdr, close, pre, post = [f"function fn_{u}({a}{_ann(lang, 'any')}) {{"], ["}"], "", ";"
            head = "console." + ("log", "error", "warn", "info", "debug", "log")[layout % 6]
            args, plain, other = [f"'value{u}'", a, f"{a} + 1"], a, f"const chosen_value_with_a_long_name_{u} = {a}; "
            tails = [f"{ind}return {a};"]
            strarg = (f"`first{u}", f"second{u}`")
        else:
            hdr, close, pre, head, post = [f"async fn fn_{u}(d{u}: String) {{"], ["}"], f"let s{u} = ", "std::fs::write", ";"
            args, plain, other = [f'"f{u}"', f"d{u}"], "0", f"let chosen_value_with_a_long_name_{u} = 0; "
            tails = [f"{ind}use_{u}(s{u});"]
            strarg = (f'"first{u}', f'second{u}"')
        k = len(hdr)
        if name == "exploded":
            body = [f"{ind}{pre}{head}("] + [f"{ind}    {x}," for x in args] + [f"{ind}){post}"]
            rel, last = k, k + len(args) + 1
        elif name == "hanging":
            first = f"{ind}{pre}{head}("
            al = " " * len(first)
            body = [f"{first}{args[0]},"] + [f"{al}{x}," for x in args[1:-1]] + [f"{al}{args[-1]}){post}"]
            rel, last = k, k + len(args) - 1
        elif name == "dedent-close":
            body = [f"{ind}{other}{pre}{head}({args[0]},", "  " + ", ".join(args[1:]), f"){post}"]
            rel, last = k, k + 2
        elif name == "nested-arg":
            body = [f"{ind}{pre}use_{u}(", f"{ind}    {plain},", f"{ind}    {head}("] + [f"{ind}        {x}," for x in args] + [f"{ind}    ),", f"{ind}){post}"]
            rel, last = k + 2, k + 2 + len(args) + 1
        elif name == "nested-single":
            body = [f"{ind}{pre}use_{u}(", f"{ind}    {plain},", f"{ind}    {head}({', '.join(args)}),", f"{ind}){post}"]
            rel = last = k + 2
        else:
            body = [f"{ind}{pre}{head}({strarg[0]}", f"{strarg[1]}, {', '.join(args[1:])}){post}"]
            rel, last = k, k + 1
        callee = -1
    else:
        if fam == "unwrap":
            hdr, close = [f"fn fn_{u}(x{u}: Option<i32>) {{"], ["}"]
            recv, meth, var = f"x{u}", ".unwrap()", f"v{u}"
        else:
            hdr, close = [f"fn fn_{u}(items{u}: Vec<String>) {{", f"    for it{u} in items{u}.iter() {{"], ["    }", "}"]
            recv, meth, var, ind = f"it{u}", ".clone()", f"c{u}", "        "
        tails = [f"{ind}use_{u}({var});"]
        k = len(hdr)
        if name == "receiver-args":
            body = [f"{ind}let {var} = pick_{u}({recv},", f"{ind}    {recv}){meth};"]
            rel, last, callee = k, k + 1, k + 1
        elif name == "nested-single":
            body = [f"{ind}let {var} = wrap_{u}(", f"{ind}    0,", f"{ind}    {recv}{meth},", f"{ind});"]
            rel, last, callee = k + 2, k + 2, -1
        elif name == "nested-chain":
            body = [f"{ind}let {var} = wrap_{u}(", f"{ind}    0,", f"{ind}    {recv}", f"{ind}        {meth},", f"{ind});"]
            rel, last, callee = k + 2, k + 3, k + 3
        else:
            body = [f"{ind}let resolved_value_with_a_long_name_{u} = pick_{u}({recv}, {recv})", f"{meth};"]
            tails = [f"{ind}use_{u}(resolved_value_with_a_long_name_{u});"]
            rel, last, callee = k, k + 1, k + 1
    lines = hdr + body + (tails if tail else []) + close
    return Unit(lines, [Truth(fam, RULES[fam], rel, last, place=place, callee=callee)], fam, [place])


def has_variant(fam, lang):
    return fam in ("magic", "print") if lang != "rs" else fam in ("magic", "unwrap", "clone", "blocking")


# ------------------------------------------------------------------------------------ placement transformations


def _mark(unit, place):
    unit.places.append(place)
    for t in unit.truths:
        if t.fam in HEADER_FAMS or place in ("block", "method"):
            t.place = place if t.place == "plain" else t.place + "+" + place


def deco(unit: Unit, lang, u, n) -> Unit:
    """n decorator / attribute / doc-comment lines directly above the header (line 0 of the unit)."""
    if lang == "py":
        pool = [f"@wrap_{u}", f"@registry_{u}.add", f"@configure_{u}(flag_{u})"]
    elif lang == "rs":
        pool = ["#[inline]", "#[allow(dead_code)]", f"/// Documented item {u}."] if not unit.lines[0].lstrip().startswith(("struct", "pub struct")) else \
               ["#[derive(Debug)]", "#[allow(dead_code)]", f"/// Documented item {u}."]
    else:
        if lang != "ts" or "class" not in unit.lines[0]:
            return unit
        pool = [f"@sealed_{u}", f"@component_{u}({{ tag: 'x{u}' }})"]
        if (u + n) % 4 == 3:  # decorator on the header line itself
            ind = unit.lines[0][: len(unit.lines[0]) - len(unit.lines[0].lstrip())]
            unit.lines[0] = ind + f"@sealed_{u} " + unit.lines[0].lstrip()
            _mark(unit, "deco-sameline")
            return unit
    new = [pool[i % len(pool)] for i in range(n)]
    if (u + n) % 4 == 1 and lang in ("py", "ts"):  # a decorator call spread over several lines
        if lang == "py":
            new = new[:-1] + [f"@configure_{u}(", f"    flag_{u},", f"    mode_{u}=None,", ")"]
        else:
            new = new[:-1] + [f"@component_{u}({{", f"    tag: 'x{u}',", f"    kind: 'k{u}',", "})"]
        _mark(unit, "deco-multiline")
    ind = unit.lines[0][: len(unit.lines[0]) - len(unit.lines[0].lstrip())]
    new = [ind + ln if not ln.startswith(ind) or not ind else ln for ln in new]
    unit.lines[0:0] = new
    unit.shift(0, len(new))
    _mark(unit, "deco")
    return unit


def _header_index(unit):
    for i, ln in enumerate(unit.lines):
        if NAME.search(ln) or "=> {" in ln:
            return i
    return 0


def multisig(unit: Unit, lang, u) -> Unit:
    """Split the header over several lines; the header line stays the one with the keyword and the name."""
    i = _header_index(unit)
    h = unit.lines[i]
    ind = h[: len(h) - len(h.lstrip())]
    new = None
    m = re.match(r"^(\s*(?:async\s+)?def \w+\()(.*)(\):)$", h) if lang == "py" else None
    if m and m.group(2):
        new = [m.group(1)] + [f"{ind}    {p.strip()}," for p in m.group(2).split(",")] + [ind + m.group(3)]
    if lang == "py" and new is None:
        m = re.match(r"^(\s*class \w+)(:)$", h)
        if m:
            new = [m.group(1) + "(", f"{ind}    Base_{u},", f"{ind}    Mixin_{u},", ind + "):"]
    if lang in ("ts", "js"):
        m = re.match(r"^(.*\bfunction \w+\()(.+)(\) \{)$", h)
        if m:
            new = [m.group(1)] + [f"{ind}    {p.strip()}," for p in m.group(2).split(",")] + [ind + m.group(3)]
        else:
            m = re.match(r"^(.*\bclass \w+)( \{)$", h)
            if m:
                new = [m.group(1), f"{ind}    extends Base_{u} {{"]
    if lang == "rs":
        m = re.match(r"^(.*\bfn \w+\()(.+?)(\)(?: -> [\w<>]+)? \{)$", h)
        if m:
            new = [m.group(1)] + [f"{ind}    {p.strip()}," for p in m.group(2).split(", ")] + [ind + m.group(3)]
    if new is None:
        return unit
    unit.lines[i:i + 1] = new
    unit.shift(i + 1, len(new) - 1)
    _mark(unit, "multisig")
    return unit


def modifier(unit: Unit, lang, var) -> Unit:
    i = _header_index(unit)
    h = unit.lines[i]
    ind = h[: len(h) - len(h.lstrip())]
    body = h.lstrip()
    if lang == "py":
        if not body.startswith("def "):
            return unit
        pre = "async "
    elif lang in ("ts", "js"):
        if not body.startswith(("function ", "class ")):
            return unit
        pre = ["export ", "export default ", "export async ", "abstract "][var % 4]
        if pre == "export async " and not body.startswith("function "):
            pre = "export "
        if pre == "abstract " and not (lang == "ts" and body.startswith("class ")):
            pre = "export "
    else:
        if not body.startswith(("fn ", "struct ", "async fn ")):
            return unit
        pre = ["pub ", "pub(crate) "][var % 2]
    unit.lines[i] = ind + pre + body
    _mark(unit, "modifier")
    return unit


def arrow(unit: Unit, lang) -> Unit:
    if lang not in ("ts", "js"):
        return unit
    m = re.match(r"^function (\w+)\((.*)\) \{$", unit.lines[0])
    if not m or unit.lines[-1] != "}":
        return unit
    unit.lines[0] = f"const {m.group(1)} = ({m.group(2)}) => {{"
    unit.lines[-1] = "};"
    _mark(unit, "arrow")
    return unit


def block(unit: Unit, lang, u) -> Unit:
    """One more indentation level: if-block (py/ts/js) or mod (rs)."""
    inner = [("    " + ln if ln else ln) for ln in unit.lines]
    if lang == "py":
        unit.lines = [f"if flag_{u}:"] + inner
    elif lang in ("ts", "js"):
        if any(ln.lstrip().startswith("export") for ln in unit.lines):
            return unit
        unit.lines = [f"if (flag_{u}) {{"] + inner + ["}"]
    else:
        unit.lines = [f"mod inner_{u} {{"] + inner + ["}"]
    unit.shift(0, 1)
    _mark(unit, "block")
    return unit


def method(unit: Unit, lang, u, ndeco=0) -> Unit:
    """Turn the function (header on line 0) into a method of a host class / impl, optionally with decorator / attribute
    lines above the method."""
    h = unit.lines[0]
    pool = {"py": [f"@wrap_{u}", f"@registry_{u}.add"], "ts": [f"@logged_{u}", f"@bound_{u}()"], "js": [], "rs": ["#[inline]", f"/// Documented method {u}."]}[lang]
    decos = [pool[i % len(pool)] for i in range(ndeco)] if pool else []
    if lang == "py":
        m = re.match(r"^((?:async )?def \w+\()(.*)(\):)$", h)
        if not m:
            return unit
        unit.lines[0] = m.group(1) + "self" + (", " + m.group(2) if m.group(2) else "") + m.group(3)
        inner = ["    " + ln if ln else ln for ln in decos + unit.lines]
        unit.lines = [f"class Host{u}:", f"    kind_{u} = None", ""] + inner
        unit.shift(0, 3 + len(decos))
    elif lang in ("ts", "js"):
        m = re.match(r"^function (\w+\(.*\) \{)$", h)
        if not m:
            return unit
        unit.lines[0] = m.group(1)
        inner = ["    " + ln if ln else ln for ln in decos + unit.lines]
        unit.lines = [f"class Host{u} {{"] + inner + ["}"]
        unit.shift(0, 1 + len(decos))
    else:
        m = re.match(r"^((?:async )?fn \w+\()(.*)(\).*\{)$", h)
        if not m:
            return unit
        unit.lines[0] = m.group(1) + "&self" + (", " + m.group(2) if m.group(2) else "") + m.group(3)
        inner = ["    " + ln if ln else ln for ln in decos + unit.lines]
        unit.lines = [f"struct Host{u};", "", f"impl Host{u} {{"] + inner + ["}"]
        unit.shift(0, 3 + len(decos))
    if decos:
        _mark(unit, "deco")
    _mark(unit, "method")
    return unit


def build_unit(spec, lang, u) -> Unit:
    """spec: {fam, var, form: seed|variant, deco, multisig, modifier, wrap: top|block|method, arrow}"""
    fam = spec["fam"]
    unit = None
    if spec.get("form") == "variant" and has_variant(fam, lang):
        unit = variant(fam, lang, u, spec.get("var", 0))
    elif spec.get("form") == "layout":
        unit = call_layout(fam, lang, u, spec.get("layout", 0), spec.get("tail", True))
    if unit is None:
        unit = from_seed(fam, lang, u, spec.get("var", 0))
    is_func = fam in FUNC_FAMS
    if spec.get("arrow") and is_func and lang in ("ts", "js"):
        unit = arrow(unit, lang)
    if spec.get("wrap") == "method" and is_func and "arrow" not in unit.places:
        unit = method(unit, lang, u, spec.get("deco", 0))
        return unit
    if spec.get("multisig"):
        unit = multisig(unit, lang, u)
    if spec.get("modifier") and "arrow" not in unit.places:
        unit = modifier(unit, lang, spec.get("var", 0))
    if spec.get("deco") and "arrow" not in unit.places and not (lang in ("ts", "js") and "modifier" in unit.places):
        unit = deco(unit, lang, u, spec["deco"])
    if spec.get("wrap") == "block":
        unit = block(unit, lang, u)
    return unit


def compose(lang, units, header, gap, final_nl=True):
    """-> (text, truths with absolute 1-based lines)"""
    lines = list(seeds.HEADERS[lang]) if header else []
    truths = []
    for k, un in enumerate(units):
        if lines and lines[-1] != "":
            lines.append("")
        lines.extend([""] * (gap if (k or header) else gap - 1))
        base = len(lines)
        lines.extend(un.lines)
        for t in un.truths:
            truths.append(Truth(t.fam, t.rule, base + t.rel + 1, base + t.last + 1, t.name, t.value, t.place, base + t.callee + 1 if t.callee >= 0 else -1))
    return "\n".join(lines) + ("\n" if final_nl else ""), truths


# ------------------------------------------------------------------------------------ DRY sets with noise


def dry_files(lang, u, nfiles, n, noise):
    """nfiles files holding the same n-statement run; per file: leading comment lines, a docstring / JSDoc of varying
    length, blank and comment lines interleaved in the run. noise: list (per file) of dicts
    {lead, doc, inside: [positions]}.  -> ({name: text}, {name: (first_run_line1, last_run_line1, [line1 of run statements])})"""
    c = seeds.COMMENT[lang]
    files, runs = {}, {}
    stmts = seeds.dry_block(lang, u, n)
    for k in range(nfiles):
        nz = noise[k % len(noise)]
        lines = [f"{c} note {i} for file {k}" for i in range(nz.get("lead", 0))]
        if lang == "py" and nz.get("sep"):
            # a character that str.splitlines() treats as a line boundary but the language does not (only "\n" ends a
            # line): line numbers must not be counted with splitlines()
            ch = ["\x0c", "\x0b", "\x1c", "\x1d", "\x1e", "\x85", "\u2028", "\u2029"][nz["sep"] % 8]
            lines.append(f"{c} section{ch}break {k}")
        b = nz.get("blockc", 0)
        if b and lang != "py":
            # a plain (non-JSDoc) block comment over b lines above the code, and a string spanning b lines in Python:
            # whoever strips it must keep the line count
            lines += ["/* overview of file %d" % k] + [f"   continued line {i}" for i in range(b - 2)] + ["   end of overview */"]
        elif b:
            lines += [f'banner_{u}_{k} = """overview of file {k}'] + [f"continued line {i}" for i in range(b - 2)] + ['end of overview"""']
        if lines:
            lines.append("")
        d = nz.get("doc", 0)
        if lang == "py":
            lines.append(f"def host_{u}_{k}(src_{u}):")
            if d:
                lines.append('    """Explain host %d.' % k)
                lines.extend([f"    detail line {i} of host {k}" for i in range(d - 1)])
                lines.append('    """')
            lines.append(f"    first_{u}_{k} = begin_{u}_{k}(src_{u})")
        else:
            if d:
                lines.append("/**")
                lines.extend([f" * detail line {i} of host {k}" for i in range(d)])
                lines.append(" */")
            lines.append(f"function host_{u}_{k}(src_{u}{_ann(lang, 'any')}) {{")
            lines.append(f"    const first_{u}_{k} = begin_{u}_{k}(src_{u});")
        at = []
        inside = nz.get("inside", [])
        for i, s in enumerate(stmts):
            for pos in inside:
                if pos % n == i and i > 0:
                    if pos // n % 2 == 0:
                        lines.append("")
                    elif lang != "py" and nz.get("blockc") and pos % 2:
                        lines += [f"    /* remark {pos} in file {k}", "       over two lines */"]
                    else:
                        lines.append(f"    {c} remark {pos} in file {k}")
            at.append(len(lines) + 1)
            lines.append(s)
        if lang == "py":
            lines.append(f"    return finish_{u}_{k}(first_{u}_{k})")
        else:
            lines.append(f"    return finish_{u}_{k}(first_{u}_{k});")
            lines.append("}")
        name = f"dup{u}_{k}{seeds.EXT[lang]}"
        files[name] = "\n".join(lines) + "\n"
        runs[name] = (at[0], at[-1], at)
    return files, runs


# ------------------------------------------------------------------------------------ constant sets (DRY's duplicate / similar constants)


def const_files(lang, u, nfiles, forms, leads):
    """nfiles files that each define the module constants API_TIMEOUT_<u>_SECONDS and MAX_RETRY_<u>_COUNT (values differ per
    file) in one of several declaration layouts, below a varying number of comment lines.
    -> ({name: text}, {name: {constant name: 1-based line of its declarator}})"""
    c = seeds.COMMENT[lang]
    a, b = f"API_TIMEOUT_{u}_SECONDS", f"MAX_RETRY_{u}_COUNT"
    files, at = {}, {}
    for k in range(nfiles):
        lines = [f"{c} note {i} for file {k}" for i in range(leads[k % len(leads)])]
        if lines:
            lines.append("")
        form = forms[k % len(forms)] % 4
        va, vb = 30 + k, 5 + k
        pos = {}
        if lang == "py":
            if form == 0:
                pos[a] = len(lines) + 1
                lines.append(f"{a} = {va}")
                pos[b] = len(lines) + 1
                lines.append(f"{b} = {vb}")
            elif form == 1:
                pos[a] = len(lines) + 1
                lines += [f"{a} = (", f"    {va}", ")"]
                pos[b] = len(lines) + 1
                lines.append(f"{b} = {vb}")
            elif form == 2:
                pos[a] = len(lines) + 1
                lines.append(f"{a}: int = {va}")
                pos[b] = len(lines) + 1
                lines.append(f"{b}: int = {vb}")
            else:
                lines.append(f"import os  {c} first statement of file {k}")
                lines.append("")
                pos[a] = len(lines) + 1
                lines.append(f"{a} = {va}  {c} seconds")
                lines.append("")
                pos[b] = len(lines) + 1
                lines.append(f"{b} = {vb}")
            lines += ["", "", f"def use_{u}_{k}(x):", f"    return x * {a} + {b}"]
        else:
            if form == 0:
                pos[a] = len(lines) + 1
                lines.append(f"export const {a} = {va};")
                pos[b] = len(lines) + 1
                lines.append(f"const {b} = {vb};")
            elif form == 1:
                pos[a] = len(lines) + 1
                lines.append(f"const {a} = {va},")
                pos[b] = len(lines) + 1
                lines.append(f"    {b} = {vb};")
            elif form == 2:
                lines.append("export const")
                pos[a] = len(lines) + 1
                lines.append(f"    {a} = {va};")
                lines.append("const")
                pos[b] = len(lines) + 1
                lines.append(f"    {b} = {vb};")
            else:
                pos[a] = len(lines) + 1
                lines += [f"const {a} =", f"    {va};"]
                pos[b] = len(lines) + 1
                lines.append(f"const {b} = {vb};  {c} attempts")
            lines += ["", f"export function use_{u}_{k}(x{_ann(lang, 'number')}) {{", f"    return x * {a} + {b};", "}"]
        name = f"consts{u}_{k}{seeds.EXT[lang]}"
        files[name] = "\n".join(lines) + "\n"
        at[name] = pos
    return files, at
