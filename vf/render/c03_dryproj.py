"""C03 renderer: abstract DRY project (statement pools + planted runs) -> {relpath: text}.

All statements are single physical lines.  Every non-pool line (function/class/block headers, filler, tails) carries
a project-unique number, so a window of >= 2 code lines that touches one of them can never be shared.  Lone closing
braces (ts/js) are always directly preceded and followed by such a unique line.

Statement identity is a function of (k, alt) only, so two runs that use the same k share that statement text.
"""
from __future__ import annotations

EXT = {"py": ".py", "ts": ".ts", "js": ".js"}
ORDINARY = 18           # k in 0..17 -> 6 ordinary statement shapes
TRICKY_BASE = 100       # k = 100 + 4*j + kind ; kinds below
TRICKY_KINDS = ("floordiv", "hashstr", "urlstr", "private")


def is_tricky(k: int) -> bool:
    return k >= TRICKY_BASE


def tricky_kind(k: int) -> str:
    return TRICKY_KINDS[(k - TRICKY_BASE) % 4]


def stmt(lang: str, k: int, alt: int, in_class: bool) -> str:
    """One pool statement (without indentation)."""
    py = lang == "py"
    end = "" if py else ";"
    if not is_tricky(k):
        shape = k % 6
        if shape == 0:
            s = f"v{k} = fn{k}(a{k}, {k + 2})"
        elif shape == 1:
            s = f"obj{k}.m{k}(v{k})"
        elif shape == 2:
            s = f"v{k} = u{k} + {k + 10}"
        elif shape == 3:
            s = f"w{k}[{k}] = fn{k}(u{k})"
        elif shape == 4:
            s = f"c{k} = mk{k}(a{k})" if py else f"const c{k} = mk{k}(a{k})"
        else:
            s = f"v{k}.q{k} = a{k} * {k + 3}"
        return s + end
    kind = tricky_kind(k)
    if kind == "floordiv":
        s = f"v{k} = a{k} // {alt + 2}" if py else f"v{k} = Math.floor(a{k} / {alt + 2})"
    elif kind == "hashstr":
        s = f'v{k} = g{k}("x#{alt}")'
    elif kind == "urlstr":
        s = f"v{k} = g{k}('http://h{alt}')"
    else:  # private
        if py:
            s = f"self._p{alt} = a{k}"
        elif in_class:
            s = f"this.#p{alt} = a{k}"
        else:
            s = f"this._p{alt} = a{k}"
    return s + end


class _Out:
    def __init__(self, lang, eol):
        self.lang = lang
        self.lines = []
        self.eol = eol

    def add(self, indent, text):
        self.lines.append(" " * indent + text if text else "")

    def text(self):
        return self.eol.join(self.lines) + self.eol


def comment(lang: str, style: int, n: int, trailing: bool) -> str:
    """style 0: line comment; 1: /* */ (ts/js); 2: /** */ JSDoc for whole-line comments (ts/js)."""
    if lang == "py":
        return f"# note {n}"
    if style == 1:
        return f"/* note {n} */"
    if style == 2 and not trailing:
        return f"/** note {n} */"
    return f"// note {n}"


def file_lang(case_lang: str, f: dict) -> str:
    if case_lang == "tsjs":
        return "js" if f.get("ext") else "ts"
    return case_lang


def file_name(case_lang: str, i: int, f: dict) -> str:
    lang = file_lang(case_lang, f)
    base = f"m{i}{EXT[lang]}"
    return f"pkg{i % 2}/{base}" if f.get("dir") else base


def render(case: dict):
    """-> ({relpath: text}, {relpath: lang}, occurrences[{run, file, first, last, n, cs}])"""
    uid = [0]

    def nxt():
        uid[0] += 1
        return uid[0]

    files, langs, occs = {}, {}, []
    runs = case["runs"]
    for fi, f in enumerate(case["files"]):
        lang = file_lang(case["lang"], f)
        py = lang == "py"
        name = file_name(case["lang"], fi, f)
        out = _Out(lang, "\r\n" if f.get("eol") else "\n")
        in_class = bool(f.get("cls"))
        base = 0
        if in_class:
            n = nxt()
            out.add(0, f"class K{n}:" if py else f"class K{n} {{")
            base = 4
        for fn in f["funcs"]:
            n = nxt()
            hdr = fn.get("hdr", True) or in_class
            ind = base
            if hdr:
                if py:
                    out.add(base, f"def f{n}(self, p{n}):" if in_class else f"def f{n}(p{n}):")
                elif in_class:
                    out.add(base, f"f{n}(p{n}) {{")
                else:
                    out.add(base, f"function f{n}(p{n}) {{")
                ind = base + 4
            for it in fn["items"]:
                if it["k"] == "fill":
                    m = nxt()
                    out.add(ind, f"t{m} = step{m}(p{n})" if py else f"step{m}(p{n});")
                    continue
                run = runs[it["r"] % len(runs)]
                a = it["a"] % len(run)
                seg = run[a:a + max(1, it["n"])]
                rep = max(1, it.get("rep", 1))
                if rep > 1:  # the same statements again and again: windows of one content overlap themselves
                    seg = (seg * rep)[:12]
                nest = it.get("nest", 0)
                split = it.get("split", 0) if nest else 0
                split = split if 0 < split < len(seg) else 0
                deco = it.get("deco") or [0]
                cs = it.get("cs", 0)
                cur = ind
                opened = []
                for _ in range(nest):
                    m = nxt()
                    if py:
                        out.add(cur, f"if flag{m}:" if m % 2 else f"for it{m} in seq{m}:")
                    else:
                        out.add(cur, f"if (flag{m}) {{" if m % 2 else f"for (const it{m} of seq{m}) {{")
                    opened.append(m)
                    cur += 4
                first = last = None
                for j, (k, alt) in enumerate(seg):
                    if split and j == split:
                        # innermost block ends in the middle of the run (py: dedent; ts/js: a lone closing brace)
                        cur -= 4
                        opened.pop()
                        if not py:
                            out.add(cur, "}")
                    dc = deco[j % len(deco)]
                    if dc & 1:
                        out.add(0, "")
                    if dc & 2:
                        out.add(cur, comment(lang, cs, nxt(), False))
                    s = stmt(lang, k, alt, in_class)
                    if dc & 8:
                        s = s.replace(" ", "  ")
                    if dc & 4:
                        s += "  " + comment(lang, 0 if cs == 2 else cs, nxt(), True)
                    if dc & 16:
                        s += "   "
                    out.add(cur, s)
                    ln = len(out.lines)
                    first = first or ln
                    last = ln
                occs.append({"run": it["r"] % len(runs), "file": name, "first": first, "last": last, "n": len(seg), "a": a})
                while opened:
                    m = opened.pop()
                    cur -= 4
                    if not py:
                        # unique line, closer, unique line: a lone brace never borders pool statements
                        out.add(cur + 4, f"tail{m}(p{n});")
                        out.add(cur, "}")
                        out.add(cur, f"after{m}(p{n});")
            tail = fn.get("tail", True) or not fn["items"]  # a body needs a statement; otherwise the unique tail is optional
            if tail:
                m = nxt()
                out.add(ind, (f"done{m}(p{n})" if hdr else f"done{m}(0)") + ("" if py else ";"))
            if hdr and not py:
                out.add(base, "}")
        if in_class and not py:
            m = nxt()
            out.add(4, f"tag{m} = {m};")
            out.add(0, "}")
        files[name] = out.text()
        langs[name] = lang
    return files, langs, occs
