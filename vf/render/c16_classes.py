"""C16: abstract classes/structs -> py / ts / js / rs source with ground-truth metrics per class.

A file:   {"lang": "py"|"ts"|"js"|"rs", "ext": ".py"|".ts"|".tsx"|".js"|".jsx"|".rs", "path": rel, "classes": [cls],
           "noise": bool (a free function between the classes), "order": "grouped"|"structs-first"|"impls-first" (rs)}
A class:  {"name": str, "members": [member], "pad": int (extra field lines), "nested": [cls] (py),
           "in_func": bool (py: class defined inside a function), "abstract": bool (ts), "generic": bool (ts, rs),
           "export": bool (ts/js: `export`; rs: `pub`), "nimpl": int (rs: number of impl blocks, 0..3), "unit": bool (rs)}
A member: {"kind": K, "body": n (0 = one-liner, n>=1 = block with n body lines), "blank": bool, "comment": None|"line"|"block",
           "inner": bool (a comment line inside a block body), "impl": int (rs: index of the impl block)}
Kinds counted as public methods per docs/srp-linter.md "Method Counting Rules":
    pub, async, static, classmethod (py), public (ts: explicit `public` modifier), assoc (rs: `pub fn f() -> ..` without self)
not counted: priv (`_name`), dunder (py), prop (py @property), ctor (ts/js constructor)

render(file) -> (text, [info]) with info = {name, line (1-based header line), m, loc (documented: non-blank,
non-comment lines of the class; rs: struct + its impl blocks), phys (physical lines of the same spans),
loc_block (loc + block-comment lines), struct_loc/struct_phys (rs: struct item only), flags}
"""
from __future__ import annotations

COUNTED = {"pub", "async", "static", "classmethod", "public", "assoc", "quoted", "numeric", "computed", "generator"}
NOT_COUNTED = {"priv", "dunder", "prop", "ctor"}
KINDS = {
    "py": {"counted": ["pub", "async", "static", "classmethod"], "other": ["priv", "dunder", "prop"]},
    # quoted / numeric / computed / generator: public methods whose name is not a plain identifier (`'act-1'()`, `7()`,
    # `[key]()`, `*act()`); TS `private` / `#name` / accessors are not generated: the docs define "private" for
    # TypeScript by the underscore prefix only, so whether those count is not stated
    "ts": {"counted": ["pub", "async", "static", "public", "quoted", "numeric", "computed", "generator"], "other": ["priv", "ctor"]},
    "js": {"counted": ["pub", "async", "static", "quoted", "numeric", "computed", "generator"], "other": ["priv", "ctor"]},
    "rs": {"counted": ["pub", "async", "assoc"], "other": ["priv"]},
}
DUNDERS = ["__init__", "__str__", "__repr__", "__len__", "__hash__", "__bool__"]
LANG_KEY = {"py": "python", "ts": "typescript", "js": "javascript", "rs": "rust"}

CODE, BLANK, LINEC, BLOCKC = "code", "blank", "comment-line", "comment-block"


class _Out:
    def __init__(self):
        self.lines = []  # (text, tag)

    def add(self, indent, text, tag=CODE):
        self.lines.append(("    " * indent + text if text else "", tag))

    def pos(self):
        return len(self.lines)


def _pre(out, ind, mem, lang):
    """blank / comment lines in front of a member"""
    if mem.get("blank"):
        out.add(0, "", BLANK)
    c = mem.get("comment")
    if c == "line" or (c == "block" and lang == "py"):
        out.add(ind, ("# note" if lang == "py" else "// note"), LINEC)
    elif c == "block":
        out.add(ind, "/* note */", BLOCKC)


def _count(spans, lines):
    loc = phys = blockc = 0
    for a, b in spans:
        for text, tag in lines[a:b]:
            phys += 1
            if tag == CODE:
                loc += 1
            elif tag == BLOCKC:
                blockc += 1
    return loc, phys, blockc


# ------------------------------------------------------------------------------------ python


def _py_member(out, ind, mem, i, dunder_i):
    k, n = mem["kind"], mem["body"]
    _pre(out, ind, mem, "py")
    if k == "dunder":
        name, args = DUNDERS[dunder_i % len(DUNDERS)], "self"
    elif k == "priv":
        name, args = f"_hid_{i}", "self"
    elif k == "prop":
        name, args = f"val_{i}", "self"
        out.add(ind, "@property")
    elif k == "static":
        name, args = f"act_{i}", ""
        out.add(ind, "@staticmethod")
    elif k == "classmethod":
        name, args = f"act_{i}", "cls"
        out.add(ind, "@classmethod")
    else:
        name, args = f"act_{i}", "self"
    kw = "async def" if k == "async" else "def"
    ret = {"__init__": "None", "__str__": "'s'", "__repr__": "'r'", "__len__": "1", "__hash__": "1", "__bool__": "True"}.get(name, str(i))
    if n == 0:
        out.add(ind, f"{kw} {name}({args}): return {ret}")
        return
    out.add(ind, f"{kw} {name}({args}):")
    if mem.get("inner"):
        out.add(ind + 1, "# inner note", LINEC)
    for j in range(n - 1):
        out.add(ind + 1, f"v{j} = {j}")
    out.add(ind + 1, f"return {ret}")


_PY_BRANCH = {
    "if": ["if FLAG_{n}:"],
    "else": ["if FLAG_{n}:", "    x_{n} = 1", "else:"],
    "elif": ["if FLAG_{n}:", "    x_{n} = 1", "elif OTHER_{n}:"],
    "try": ["try:"],
    "except": ["try:", "    import mod_{n}", "except ImportError:"],
    "try-else": ["try:", "    import mod_{n}", "except ImportError:", "    mod_{n} = None", "else:"],
    "finally": ["try:", "    x_{n} = 1", "finally:"],
    "case": ["match MODE_{n}:", "    case 1:", "        x_{n} = 1", "    case _:"],
    "with": ["with ctx_{n}():"],
    "for-else": ["for i_{n} in ITEMS_{n}:", "    x_{n} = i_{n}", "else:"],
}
_PY_BRANCH_TAIL = {"try": ["except ImportError:", "    pass"]}


def _py_class(out, ind, cls, infos):
    branch = cls.get("branch")
    if branch:
        n = cls["name"].lower()
        for ln in _PY_BRANCH[branch]:
            out.add(ind, ln.format(n=n))
        ind += 2 if branch == "case" else 1
    if cls.get("in_func"):
        out.add(ind, f"def make_{cls['name'].lower()}():")
        ind += 1
    start = out.pos()
    out.add(ind, f"class {cls['name']}:")
    for i in range(cls.get("pad", 0)):
        out.add(ind + 1, f"f_{i} = {i}")
    d = 0
    for i, mem in enumerate(cls["members"]):
        _py_member(out, ind + 1, mem, i, d)
        d += mem["kind"] == "dunder"
    info = {"name": cls["name"], "line": start + 1, "cls": cls}
    infos.append(info)
    for sub in cls.get("nested", []):
        _py_class(out, ind + 1, dict(sub, in_func=False), infos)
    if not cls.get("pad") and not cls["members"] and not cls.get("nested"):
        out.add(ind + 1, "pass")
    info["spans"] = [(start, out.pos())]
    if cls.get("in_func"):
        out.add(ind, f"return {cls['name']}")
    if branch:
        ind -= 2 if branch == "case" else 1
        for ln in _PY_BRANCH_TAIL.get(branch, []):
            out.add(ind, ln)


# ------------------------------------------------------------------------------------ ts / js


def _ts_member(out, ind, mem, i, lang):
    k, n = mem["kind"], mem["body"]
    _pre(out, ind, mem, lang)
    if k == "ctor":
        head = "constructor()"
    elif k == "priv":
        head = f"_hid_{i}()"
    elif k == "static":
        head = f"static act_{i}()"
    elif k == "async":
        head = f"async act_{i}()"
    elif k == "public":
        head = f"public act_{i}()"
    elif k == "quoted":
        head = f"'act-{i}'()"
    elif k == "numeric":
        head = f"{700 + i}()"
    elif k == "computed":
        head = f"[KEY_{i}]()"
    elif k == "generator":
        head = f"*act_{i}()"
    else:
        head = f"act_{i}()"
    if n == 0:
        out.add(ind, head + (" {}" if k == "ctor" else f" {{ return {i}; }}"))
        return
    out.add(ind, head + " {")
    if mem.get("inner"):
        out.add(ind + 1, "// inner note", LINEC)
    for j in range(n - 1):
        out.add(ind + 1, f"const v{j} = {j};")
    out.add(ind + 1, "const last = 0;" if k == "ctor" else f"return {i};")
    out.add(ind, "}")


def _ts_class(out, cls, infos, lang):
    form = cls.get("form", "decl")  # decl | expr (`const Name = class {`) | returned (`return class Name {` inside a function)
    ind = 1 if form == "returned" else 0
    if form == "returned":
        out.add(0, f"function make_{cls['name'].lower()}() {{")
    start = out.pos()
    head = ("export " if cls.get("export") else "") + ("abstract " if cls.get("abstract") and lang == "ts" else "")
    gen = "<T>" if cls.get("generic") and lang == "ts" else ""
    if form == "expr":
        out.add(0, ("export " if cls.get("export") else "") + f"const {cls['name']} = class {{")
    elif form == "returned":
        out.add(1, f"return class {cls['name']} {{")
    else:
        out.add(0, f"{head}class {cls['name']}{gen} {{")
    for i in range(cls.get("pad", 0)):
        out.add(ind + 1, f"f_{i} = {i};")
    for i, mem in enumerate(cls["members"]):
        _ts_member(out, ind + 1, mem, i, lang)
    out.add(ind, "}" if form == "decl" else "};")
    infos.append({"name": cls["name"], "line": start + 1, "spans": [(start, out.pos())], "cls": cls})
    if form == "returned":
        out.add(0, "}")


# ------------------------------------------------------------------------------------ rust


def _rs_member(out, ind, mem, i):
    k, n = mem["kind"], mem["body"]
    _pre(out, ind, mem, "rs")
    if k == "priv":
        head = f"fn _hid_{i}(&self) -> i32"
    elif k == "assoc":
        head = f"pub fn make_{i}() -> i32"
    elif k == "async":
        head = f"pub async fn act_{i}(&self) -> i32"
    else:
        head = f"pub fn act_{i}(&self) -> i32"
    if n == 0:
        out.add(ind, f"{head} {{ {i} }}")
        return
    out.add(ind, head + " {")
    if mem.get("inner"):
        out.add(ind + 1, "// inner note", LINEC)
    for j in range(n - 1):
        out.add(ind + 1, f"let _v{j} = {j};")
    out.add(ind + 1, f"{i}")
    out.add(ind, "}")


def _rs_struct(out, cls):
    start = out.pos()
    vis = "pub " if cls.get("export") else ""
    gen = "<T>" if cls.get("generic") else ""
    pad = cls.get("pad", 0)
    if cls.get("unit") and not gen and pad == 0:
        out.add(0, f"{vis}struct {cls['name']};")
    else:
        out.add(0, f"{vis}struct {cls['name']}{gen} {{")
        if gen:
            out.add(1, "v: T,")
        for i in range(pad):
            out.add(1, f"f_{i}: i32,")
        out.add(0, "}")
    return (start, out.pos())


def _rs_impl(out, cls, k):
    start = out.pos()
    gen = "<T>" if cls.get("generic") else ""
    mems = [(i, m) for i, m in enumerate(cls["members"]) if m.get("impl", 0) % max(1, cls.get("nimpl", 1)) == k]
    if not mems:
        out.add(0, f"impl{gen} {cls['name']}{gen} {{}}")
    else:
        out.add(0, f"impl{gen} {cls['name']}{gen} {{")
        for i, m in mems:
            _rs_member(out, 1, m, i)
        out.add(0, "}")
    return (start, out.pos())


# ------------------------------------------------------------------------------------ entry


def effective_members(cls, lang):
    """members that are actually rendered (rs: none when there is no impl block)"""
    if lang == "rs" and cls.get("nimpl", 1) == 0:
        return []
    return cls["members"]


def render(file):
    lang = file["lang"]
    out = _Out()
    infos = []
    classes = file["classes"]
    noise = file.get("noise")

    def noise_fn(i):
        if lang == "py":
            out.add(0, f"def free_{i}(): return {i}")
        elif lang == "rs":
            out.add(0, f"pub fn free_{i}() -> i32 {{ {i} }}")
        else:
            out.add(0, f"function free_{i}() {{ return {i}; }}")

    if lang == "py":
        for i, c in enumerate(classes):
            _py_class(out, 0, c, infos)
            if noise and i == 0:
                noise_fn(i)
    elif lang in ("ts", "js"):
        for i, c in enumerate(classes):
            _ts_class(out, c, infos, lang)
            if noise and i == 0:
                noise_fn(i)
    else:
        spans = {c["name"]: {"struct": None, "impls": []} for c in classes}
        order = file.get("order", "grouped")

        def do_struct(c):
            spans[c["name"]]["struct"] = _rs_struct(out, c)

        def do_impls(c):
            for k in range(c.get("nimpl", 1)):
                spans[c["name"]]["impls"].append(_rs_impl(out, c, k))

        if order == "grouped":
            for i, c in enumerate(classes):
                do_struct(c)
                if noise and i == 0:
                    noise_fn(i)
                do_impls(c)
        elif order == "structs-first":
            for c in classes:
                do_struct(c)
            if noise:
                noise_fn(0)
            # impl blocks round robin
            kmax = max([c.get("nimpl", 1) for c in classes] + [0])
            for k in range(kmax):
                for c in classes:
                    if k < c.get("nimpl", 1):
                        spans[c["name"]]["impls"].append(_rs_impl(out, c, k))
        else:  # impls-first
            for c in reversed(classes):
                do_impls(c)
            if noise:
                noise_fn(0)
            for c in classes:
                do_struct(c)
        for c in classes:
            s = spans[c["name"]]
            infos.append({"name": c["name"], "line": s["struct"][0] + 1, "spans": [s["struct"]] + s["impls"], "struct_span": s["struct"]})

    by_name = {}

    def walk(cs):
        for c in cs:
            by_name[c["name"]] = c
            walk(c.get("nested", []))

    walk(classes)
    for info in infos:
        c = info.pop("cls", None) or by_name[info["name"]]  # (several classes of a file may share a name)
        loc, phys, blockc = _count(info["spans"], out.lines)
        info["loc"], info["phys"], info["loc_block"] = loc, phys, loc + blockc
        info["m"] = sum(1 for mem in effective_members(c, lang) if mem["kind"] in COUNTED)
        if "struct_span" in info:
            sl, sp, _ = _count([info["struct_span"]], out.lines)
            info["struct_loc"] = sl
            del info["struct_span"]
        info["abstract"] = bool(c.get("abstract")) and lang == "ts"
        info["generic"] = bool(c.get("generic")) and lang in ("ts", "rs")
        info["kinds"] = sorted({mem["kind"] for mem in effective_members(c, lang)})
        info["has_blank_or_comment"] = phys != loc
        info["nested"] = bool(c.get("nested"))
        del info["spans"]
    text = "\n".join(t for t, _ in out.lines) + "\n"
    return text, infos
