"""C17 - abstract Rust file (JSON) -> source text + planted-call records with ground truth.

The abstract file is a tree of items (fn / async fn / impl / mod) whose bodies are trees of statements:
planted *atoms* (one expression in one host statement, single line unless host == "ml"), `clet` groups
(`let c = v.clone();` with a controlled use-before / use-after of the source), control structures (loops,
non-loops, closures, spawn_blocking-style wrappers), nested fns and filler.

Every planted call carries what the STATEMENT needs to decide it (never what the tool does):
  unwrap   kind unwrap | expect | look
  clone    chain (receiver is itself a .clone() call), unnec (bound directly by a let, simple source never
           mentioned again in that block), look
  blocking kind fs | sleep | net | look, form full | short | mid | bare | leading, std (is it really a std call,
           given the file's `use` flavour)
and its context: enclosing items (attributes, comment position), async fn, loop, wrapper, closure, macro.

The renderer *normalises* combinations the statement/docs leave open (see vf/props/c17.py ASSUMPTIONS), so
every rendered plant has one documented verdict; `norm_key` parts are reported for the distinctness key.
"""
from __future__ import annotations

FS_FUNCS = ["read_to_string", "read", "write", "create_dir", "create_dir_all", "remove_file", "remove_dir",
            "remove_dir_all", "rename", "copy", "metadata", "read_dir", "canonicalize", "read_link"]
FS_TWO_ARGS = {"write", "rename", "copy"}
NET = [("TcpStream", "connect"), ("TcpListener", "bind"), ("UdpSocket", "bind")]

ATTR_TEXT = {
    # test-making attributes on functions (path ends in `test`)
    "test": "#[test]",
    "tokio_test": "#[tokio::test]",
    "tokio_test_args": '#[tokio::test(flavor = "multi_thread")]',
    # companions / neutral
    "should_panic": "#[should_panic]",
    "ignore": "#[ignore]",
    "inline": "#[inline]",
    "allow_dead": "#[allow(dead_code)]",
    "must_use": "#[must_use]",
    "cfg_feature": '#[cfg(feature = "extra")]',
    "cfg_feature_bytes": '#[cfg(feature = "bytes")]',  # contains "tes" but not "test"
    # attributes that mention the word but do not make test code
    "cfg_not_test": "#[cfg(not(test))]",
    "doc_test": '#[doc = "Shared by the test helpers."]',
    "cfg_feature_testing": '#[cfg(feature = "testing")]',
    # module attribute
    "cfg_test": "#[cfg(test)]",
}
FN_TEST_ATTRS = ("test", "tokio_test", "tokio_test_args")
FN_DECOY_ATTRS = ("cfg_not_test", "doc_test", "cfg_feature_testing")
FN_NEUTRAL_ATTRS = ("inline", "allow_dead", "must_use", "cfg_feature", "cfg_feature_bytes")
FN_COMPANION_ATTRS = ("should_panic", "ignore")
MOD_ATTRS = ("cfg_test", "allow_dead", "cfg_not_test", "cfg_feature")

LOOPS = ("for", "while", "loop", "whilelet", "labeled")
PLAIN_CTRL = ("if", "else", "iflet", "match", "block", "unsafe")
CLOSURE_CTRL = ("closure", "cbarg")
WRAPPERS = ("w.task_spawn_blocking", "w.spawn_blocking", "w.block_in_place", "w.task_block_in_place", "w.asyncify",
            "w.let_await", "w.method", "w.custom")
# per docs: spawn_blocking / block_in_place / asyncify ("w.host" = single-expression closure passed to spawn_blocking)
RECOGNISED_WRAPPERS = tuple(w for w in WRAPPERS if w != "w.custom") + ("w.host",)

UNWRAP_EXPRS = ("u.unwrap", "u.expect", "u.chain2", "u.nested", "u.recv", "u.field", "u.try", "u.mixed", "u.closure",
                "u.l.unwrap_or", "u.l.unwrap_or_default", "u.l.unwrap_or_else", "u.l.free", "u.l.expect_err",
                "u.l.unwrap_err", "u.l.string", "u.l.fieldname")
CLONE_EXPRS = ("c.plain", "c.chain2", "c.chain3", "c.field", "c.callrecv", "c.recv", "c.two", "c.toowned", "c.closure",
               "c.l.cloned", "c.l.arc", "c.l.clone_from", "c.l.free", "c.l.string", "c.l.fieldname")
BLOCK_EXPRS = ("b.fs.full", "b.fs.short", "b.fs.leading", "b.sleep.full", "b.sleep.short", "b.net.full", "b.net.mid",
               "b.net.bare", "b.l.tokio_fs", "b.l.tokio_sleep", "b.l.tokio_net", "b.l.other_mod", "b.l.crate_fs",
               "b.l.env", "b.l.path", "b.l.string", "b.l.method_read")
HOSTS = ("let", "expr", "arg", "macro", "closure", "cbarg", "field", "cond", "match", "wrap", "ml",
         "guard", "arm", "index", "whilecond", "letelse", "ret")
CLONE_HOSTS = ("expr", "arg", "macro", "cbarg", "cond", "match", "guard", "arm", "index", "ret")  # hosts that do not put the clone under a `let`
TRAILERS = ("", "?", ".unwrap()", '.expect("io")')


class _R:
    def __init__(self, flavor):
        self.flavor = flavor
        self.lines = []
        self.atoms = []
        self.uid = 0

    def n(self):
        self.uid += 1
        return self.uid

    def emit(self, depth, text):
        self.lines.append("    " * depth + text)
        return len(self.lines)  # 1-based line number of the emitted line


def _occ(text, needle, nth=0):
    i = -1
    for _ in range(nth + 1):
        i = text.index(needle, i + 1)
    return i


def _expr(r: _R, e: str, v: int, ctx: dict, trailer: str):
    """-> (text, calls, predefs). calls: dicts with 'off' relative to text start."""
    n = r.n()
    calls = []
    pre = []
    can_await = ctx["async"] and not ctx["closure"]
    aw = ".await" if can_await else ""

    def U(off, kind):
        calls.append({"lin": "unwrap", "kind": kind, "off": off})

    def C(off, chain=False, look=False):
        calls.append({"lin": "clone", "kind": "look" if look else "clone", "chain": chain, "unnec": False, "off": off})

    def B(off, kind, form, std):
        calls.append({"lin": "blocking", "kind": kind, "form": form, "std": std, "off": off})

    if e.startswith("u."):
        if e == "u.unwrap":
            t = f"fetch({n}).unwrap()"; U(0, "unwrap")
        elif e == "u.expect":
            t = f'fetch({n}).expect("value {n}")'; U(0, "expect")
        elif e == "u.chain2":
            t = f"fetch({n}).unwrap().checked_add(1).unwrap()"; U(0, "unwrap"); U(0, "unwrap")
        elif e == "u.nested":
            t = f'wrap(fetch({n}).unwrap()).expect("outer {n}")'; U(0, "expect"); U(5, "unwrap")
        elif e == "u.recv":
            t = f"lookup({n}).unwrap().len()"; U(0, "unwrap")
        elif e == "u.field":
            t = f"state.cache.get(&{n}).unwrap()"; U(0, "unwrap")
        elif e == "u.try":
            t = f"fetch({n})?.first().unwrap()"; U(0, "unwrap")
        elif e == "u.mixed":
            t = f'fetch({n}).expect("text {n}").parse::<i32>().unwrap()'; U(0, "unwrap"); U(0, "expect")
        elif e == "u.closure":
            t = f"items.iter().map(|x| x.parse::<i32>().unwrap()).sum::<i32>()"; U(_occ(t, "x.parse"), "unwrap")
        elif e == "u.l.unwrap_or":
            t = f"fetch({n}).unwrap_or(0)"; U(0, "look")
        elif e == "u.l.unwrap_or_default":
            t = f"fetch({n}).unwrap_or_default()"; U(0, "look")
        elif e == "u.l.unwrap_or_else":
            t = f"fetch({n}).unwrap_or_else(|| {n})"; U(0, "look")
        elif e == "u.l.free":
            t = f"unwrap(fetch({n}))"; U(0, "look")
        elif e == "u.l.expect_err":
            t = f'fetch({n}).expect_err("e{n}")'; U(0, "look")
        elif e == "u.l.unwrap_err":
            t = f"fetch({n}).unwrap_err()"; U(0, "look")
        elif e == "u.l.string":
            t = f'describe("call .unwrap() or x.expect(1) here {n}")'; U(0, "look")
        else:  # u.l.fieldname
            t = f"stats.unwrap + stats.expect + {n}"; U(0, "look")
        return t, calls, pre, e

    if e.startswith("c."):
        if e in ("c.plain", "c.chain2", "c.chain3", "c.recv", "c.two", "c.toowned", "c.l.clone_from", "c.l.free"):
            pre.append(f"let v{n} = source({n});")
        if e == "c.plain":
            t = f"v{n}.clone()"; C(0)
        elif e == "c.chain2":
            t = f"v{n}.clone().clone()"; C(0); C(0, chain=True)
        elif e == "c.chain3":
            t = f"v{n}.clone().clone().clone()"; C(0); C(0, chain=True); C(0, chain=True)
        elif e == "c.field":
            t = "holder.name.clone()"; C(0)
        elif e == "c.callrecv":
            t = f"make({n}).clone()"; C(0)
        elif e == "c.recv":
            t = f"v{n}.clone().len()"; C(0)
        elif e == "c.two":
            pre.append(f"let w{n} = source({n} + 1);")
            t = f"merge(v{n}.clone(), w{n}.clone())"; C(_occ(t, f"v{n}")); C(_occ(t, f"w{n}"))
        elif e == "c.toowned":
            t = f"v{n}.to_owned().clone()"; C(0)
        elif e == "c.closure":
            t = "items.iter().map(|x| x.clone()).count()"; C(_occ(t, "x.clone"))
        elif e == "c.l.cloned":
            t = "items.iter().cloned().count()"; C(0, look=True)
        elif e == "c.l.arc":
            t = f"Arc::clone(&shared)"; C(0, look=True)
        elif e == "c.l.clone_from":
            t = f"v{n}.clone_from(&holder.name)"; C(0, look=True)
        elif e == "c.l.free":
            t = f"clone(&v{n})"; C(0, look=True)
        elif e == "c.l.string":
            t = f'describe("x.clone().clone() in a loop {n}")'; C(0, look=True)
        else:  # c.l.fieldname
            t = f"stats.clone + {n}"; C(0, look=True)
        return t, calls, pre, e

    # blocking family ------------------------------------------------------------------
    std_flavor = r.flavor == "std"
    fn = FS_FUNCS[v % len(FS_FUNCS)]
    args = f'"data/{n}.txt", "out/{n}.txt"' if fn in ("rename", "copy") else (f'"data/{n}.txt", payload' if fn == "write" else f'"data/{n}.txt"')
    ty, meth = NET[v % len(NET)]
    addr = f'"127.0.0.1:{8000 + n % 1000}"'
    dur = f"Duration::from_millis({n})"
    if e == "b.sleep.short" and not std_flavor:
        e = "b.sleep.full"  # there is no tokio::thread; the short form exists only with `use std::thread;`
    tail = trailer
    if ctx["closure"] and tail == "?":
        tail = ""
    if e == "b.fs.full":
        t = f"std::fs::{fn}({args})"; B(0, "fs", "full", True)
    elif e == "b.fs.short":
        t = f"fs::{fn}({args})" + ("" if std_flavor else aw); B(0, "fs", "short", std_flavor)
    elif e == "b.fs.leading":
        t = f"::std::fs::{fn}({args})"; B(0, "fs", "leading", True)
    elif e == "b.sleep.full":
        t = f"std::thread::sleep({dur})"; B(0, "sleep", "full", True); tail = ""
    elif e == "b.sleep.short":
        t = f"thread::sleep({dur})"; B(0, "sleep", "short", True); tail = ""
    elif e == "b.net.full":
        t = f"std::net::{ty}::{meth}({addr})"; B(0, "net", "full", True)
    elif e == "b.net.mid":
        t = f"net::{ty}::{meth}({addr})" + ("" if std_flavor else aw); B(0, "net", "mid", std_flavor)
    elif e == "b.net.bare":
        t = f"{ty}::{meth}({addr})" + ("" if std_flavor else aw); B(0, "net", "bare", std_flavor)
    elif e == "b.l.tokio_fs":
        t = f"tokio::fs::{fn}({args}){aw}"; B(0, "look", "full", False)
    elif e == "b.l.tokio_sleep":
        t = f"tokio::time::sleep({dur}){aw}"; B(0, "look", "full", False); tail = ""
    elif e == "b.l.tokio_net":
        t = f"tokio::net::{ty}::{meth}({addr}){aw}"; B(0, "look", "full", False)
    elif e == "b.l.other_mod":
        t = f'my::fs2::read("data/{n}.txt")'; B(0, "look", "full", False)
    elif e == "b.l.crate_fs":
        t = f'crate::fs::read("data/{n}.txt")'; B(0, "look", "full", False)
    elif e == "b.l.env":
        t = f'std::env::var("HOME_{n}")'; B(0, "look", "full", False)
    elif e == "b.l.path":
        t = f'std::path::Path::new("data/{n}.txt").exists()'; B(0, "look", "full", False); tail = ""
    elif e == "b.l.string":
        t = f'describe("std::fs::read(p); std::thread::sleep(d) {n}")'; B(0, "look", "full", False); tail = ""
    else:  # b.l.method_read: method named like an fs function on a local value
        t = f"handle.read(&mut buf{n})"; B(0, "look", "full", False)
    if tail == ".unwrap()":
        U(0, "unwrap")
    elif tail.startswith(".expect"):
        U(0, "expect")
    return t + tail, calls, pre, e


def _cls_of(e):
    return e


def _atom(r: _R, st: dict, depth: int, ctx: dict):
    e, host = st["e"], st["h"]
    fam = e[0]
    trailer = TRAILERS[st.get("t", 0) % len(TRAILERS)] if fam == "b" else ""
    # ---- normalisations (documented in ASSUMPTIONS)
    if fam == "c" and host not in CLONE_HOSTS:
        host = CLONE_HOSTS[st.get("v", 0) % len(CLONE_HOSTS)]
    if host == "ml" and e not in ("u.unwrap", "u.expect"):
        host = "let"
    if ctx["wrapper"] in RECOGNISED_WRAPPERS and host in ("closure", "cbarg", "wrap"):
        host = "expr"  # nested closures inside a wrapper: docs say "may be flagged" -> not generated
    ectx = dict(ctx)
    if host in ("closure", "cbarg", "wrap"):
        ectx["closure"] = True
    text, calls, pre, e = _expr(r, e, st.get("v", 0), ectx, trailer)
    n = r.n()
    for p in pre:
        r.emit(depth, p)
    in_macro = host == "macro"
    wrapper = ctx["wrapper"]
    if host == "ml":
        # fetch(N)\n    .unwrap();
        dot = text.index(").") + 1
        first = r.emit(depth, f"let r{n} = {text[:dot]}")
        second = r.emit(depth + 1, text[dot:] + ";")
        col0 = 4 * depth + len(f"let r{n} = ")
        for c in calls:
            c["line"], c["col"] = second, None  # docs (unwrap-abuse Example 3): reported on the method's line
            c["start"] = (first, col0)  # where the call *expression* starts
        span = (first, second)
    else:
        prefix, suffix = {
            "let": (f"let r{n} = ", ";"),
            "expr": ("", ";"),
            "arg": ("sink(", ");"),
            "macro": ('println!("{:?}", ', ");"),
            "closure": (f"let f{n} = || ", ";"),
            "cbarg": ("apply(|| ", ");"),
            "field": (f"let s{n} = Holder {{ name: ", " };"),
            "cond": ("if check(", f") {{ log({n}); }}"),
            "match": ("match ", f" {{ _ => log({n}) }}"),
            "wrap": (f"let h{n} = tokio::task::spawn_blocking(move || ", ");"),
            # less common expression positions: a match-arm guard, a match-arm value, an index expression, the condition
            # of an `if` written as `while`-free one-shot check, the initialiser of a let-else, a conditional early return
            "guard": ("match probe() { q if check(", f") => log({n}), _ => log(0) }}"),
            "arm": ("match probe() { _ => sink(", ") }"),
            "index": ("sink(table[index_of(", ")]);"),
            "whilecond": ("if !check(", f") {{ log({n}); }}"),
            "letelse": (f"let Some(r{n}) = wrap(", ") else { return; };"),
            "ret": ("if probe() { return sink(", "); }"),
        }[host]
        line = r.emit(depth, prefix + text + suffix)
        for c in calls:
            c["line"], c["col"] = line, 4 * depth + len(prefix) + c.pop("off")
        span = (line, line)
        if host == "wrap":
            wrapper = wrapper if wrapper in RECOGNISED_WRAPPERS else "w.host"
    for c in calls:
        c.pop("off", None)
    actx = {"items": ctx["items"], "async": ctx["async"], "loop": ctx["loop"], "loopk": ctx["loopk"], "wrapper": wrapper,
            "macro": in_macro, "closure": ectx["closure"]}
    r.atoms.append({"cls": _cls_of(e), "host": host, "span": span, "calls": calls, "ctx": actx, "ml": host == "ml"})


def _clet(r: _R, st: dict, depth: int, ctx: dict):
    n = r.n()
    recv, after, chain = st["recv"], st["after"], st["chain"]
    # narrowing: a non-simple source or a chained clone is only generated with a later use of the source,
    # so "never used afterwards" (statement) and "simple identifier ... not in subsequent statements" (docs) agree
    if (recv != "simple" or chain) and after == "none":
        after = "direct"
    src = f"v{n}" if recv == "simple" else f"holder{n}.name"
    if recv == "simple":
        r.emit(depth, f"let v{n} = source({n});")
    else:
        r.emit(depth, f"let holder{n} = Holder::new({n});")
    if st["before"]:
        r.emit(depth, f"touch(&{src});")
    head = "let mut " if st["mut"] else "let "
    ann = ": String" if st["ann"] else ""
    prefix = f"{head}c{n}{ann} = "
    text = f"{src}.clone()" + (".clone()" if chain else "")
    line = r.emit(depth, prefix + text + ";")
    col = 4 * depth + len(prefix)
    calls = [{"lin": "clone", "kind": "clone", "chain": False, "unnec": recv == "simple" and after == "none" and not chain,
              "line": line, "col": col}]
    if chain:
        calls.append({"lin": "clone", "kind": "clone", "chain": True, "unnec": False, "line": line, "col": col})
    r.emit(depth, f"consume(c{n});")
    if st["sep"]:
        r.emit(depth, f"log({n});")
    if after == "direct":
        r.emit(depth, f"touch(&{src});")
    elif after == "nested":
        r.emit(depth, f"if cond({n}) {{")
        r.emit(depth + 1, f"touch(&{src});")
        r.emit(depth, "}")
    elif after == "closure":
        r.emit(depth, f"let k{n} = || touch(&{src});")
    elif after == "macro":
        r.emit(depth, f'println!("{{:?}}", {src});')
    elif after == "method":
        r.emit(depth, f"let len{n} = {src}.len();")
    actx = {"items": ctx["items"], "async": ctx["async"], "loop": ctx["loop"], "loopk": ctx["loopk"], "wrapper": ctx["wrapper"],
            "macro": False, "closure": ctx["closure"]}
    cls = "clet." + recv + (".chain" if chain else "") + ".after-" + after + (".before" if st["before"] else "")
    r.atoms.append({"cls": cls, "host": "clet", "span": (line, line), "calls": calls, "ctx": actx, "ml": False})


def _block(r: _R, stmts: list, depth: int, ctx: dict):
    if not stmts:
        r.emit(depth, f"log({r.n()});")
    for st in stmts:
        k = st["k"]
        if k == "atom":
            _atom(r, st, depth, ctx)
        elif k == "clet":
            _clet(r, st, depth, ctx)
        elif k == "fill":
            n = r.n()
            v = st.get("n", 0) % 4
            if v == 0:
                r.emit(depth, f"let n{n} = compute({n});")
            elif v == 1:
                r.emit(depth, f"// was: cfg.get({n}).unwrap().clone().clone(); std::fs::read(p); thread::sleep(d)")
            elif v == 2:
                r.emit(depth, f'let note{n} = "x.unwrap(); y.clone().clone(); std::thread::sleep(d); fs::read(p)";')
            else:
                r.emit(depth, f"log({n});")
        elif k == "nfn":
            _nested_fn(r, st, depth, ctx)
        else:
            _ctrl(r, st, depth, ctx)


def _nested_fn(r: _R, st: dict, depth: int, ctx: dict):
    n = r.n()
    if ctx["loop"] or ctx["closure"] or ctx["wrapper"]:
        # not generated inside loops/closures/wrappers: rendered as a plain block
        r.emit(depth, "{")
        _block(r, st["body"], depth + 1, ctx)
        r.emit(depth, "}")
        return
    is_async = bool(st["async"]) or ctx["async"]  # a sync fn nested in an async fn is not generated (statement: "lexically inside")
    r.emit(depth, f"{'async ' if is_async else ''}fn helper{n}(state: &State, holder: &Holder, items: &[String]) {{")
    sub = {"items": ctx["items"] + [{"type": "fn", "attrs": [], "gap": None}], "async": is_async, "loop": False,
           "loopk": None, "wrapper": None, "closure": False}
    _block(r, st["body"], depth + 1, sub)
    r.emit(depth, "}")


def _ctrl(r: _R, st: dict, depth: int, ctx: dict):
    c = st["c"]
    n = r.n()
    sub = dict(ctx)
    close = "}"
    if c in CLOSURE_CTRL or c in WRAPPERS:
        if ctx["wrapper"] in RECOGNISED_WRAPPERS:
            c = "block"  # closures nested inside a wrapper are not generated
    can_await = ctx["async"] and not ctx["closure"]
    if c == "for":
        r.emit(depth, f"for i{n} in 0..limit({n}) {{"); sub["loop"] = True; sub["loopk"] = c
    elif c == "while":
        r.emit(depth, f"while ready({n}) {{"); sub["loop"] = True; sub["loopk"] = c
    elif c == "loop":
        r.emit(depth, "loop {"); sub["loop"] = True; sub["loopk"] = c
    elif c == "whilelet":
        r.emit(depth, f"while let Some(x{n}) = next_item({n}) {{"); sub["loop"] = True; sub["loopk"] = c
    elif c == "labeled":
        r.emit(depth, f"'outer{n}: for i{n} in 0..3 {{"); sub["loop"] = True; sub["loopk"] = c
    elif c == "if":
        r.emit(depth, f"if cond({n}) {{")
    elif c == "else":
        r.emit(depth, f"if cond({n}) {{")
        r.emit(depth + 1, f"log({n});")
        r.emit(depth, "} else {")
    elif c == "iflet":
        r.emit(depth, f"if let Some(x{n}) = fetch({n}) {{")
    elif c == "match":
        r.emit(depth, f"match pick({n}) {{")
        r.emit(depth + 1, "0 => {")
        _block(r, st["body"], depth + 2, sub)
        r.emit(depth + 1, "}")
        r.emit(depth + 1, "_ => {}")
        r.emit(depth, "}")
        return
    elif c == "block":
        r.emit(depth, "{")
    elif c == "unsafe":
        r.emit(depth, "unsafe {")
    elif c == "closure":
        r.emit(depth, f"let g{n} = |a{n}: i32| {{"); sub["closure"] = True; close = "};"
    elif c == "cbarg":
        r.emit(depth, "run(move || {"); sub["closure"] = True; close = "});"
    else:
        opener = {
            "w.task_spawn_blocking": "tokio::task::spawn_blocking(move || {",
            "w.spawn_blocking": "spawn_blocking(move || {",
            "w.block_in_place": "block_in_place(|| {",
            "w.task_block_in_place": "tokio::task::block_in_place(|| {",
            "w.asyncify": "asyncify(move || {",
            "w.let_await": f"let h{n} = tokio::task::spawn_blocking(move || {{",
            "w.method": "rt.spawn_blocking(move || {",
            "w.custom": "my_spawn_blocking(move || {",
        }[c]
        r.emit(depth, opener)
        sub["closure"] = True
        if c != "w.custom":  # a custom helper is not a recognised wrapper (docs: still flagged)
            sub["wrapper"] = c
        close = "}).await;" if (c == "w.let_await" and can_await) else "});"
    _block(r, st["body"], depth + 1, sub)
    if c == "loop":
        r.emit(depth + 1, f"if done({n}) {{ break; }}")
    r.emit(depth, close)


def _attr_lines(r: _R, depth: int, attrs: list, gap, gapk: str):
    n = r.n()
    comment = {"line": f"// regression guard for issue {n}", "doc": f"/// Documented behaviour {n}.",
               "block": f"/* reviewed in round {n} */"}[gapk]
    for i, a in enumerate(attrs):
        if gap is not None and gap == i:
            r.emit(depth, comment)
        r.emit(depth, ATTR_TEXT[a])
    if gap is not None and gap >= len(attrs):
        r.emit(depth, comment)


def norm_fn_attrs(attrs: list, is_async: bool, method: bool) -> list:
    out = []
    for a in attrs:
        if a in FN_TEST_ATTRS:
            if method:
                continue  # #[test] methods are not generated
            a = ("tokio_test" if a == "test" else a) if is_async else "test"
        if a in FN_COMPANION_ATTRS and not any(x in FN_TEST_ATTRS for x in attrs):
            continue
        if a in FN_COMPANION_ATTRS and method:
            continue
        if a not in out:
            out.append(a)
    return out


def _fn(r: _R, it: dict, depth: int, ctx: dict, method: bool):
    n = r.n()
    is_async = bool(it["async"])
    attrs = norm_fn_attrs(it["attrs"], is_async, method)
    gap = it.get("gap")
    if gap is not None:
        gap = min(gap, len(attrs))
        if not attrs:
            gap = None
    _attr_lines(r, depth, attrs, gap, it.get("gapk", "line"))
    is_test = any(a in FN_TEST_ATTRS for a in attrs)
    params = "" if is_test else "state: &State, holder: &Holder, items: &[String]"
    if method:
        params = "&self, state: &State, holder: &Holder, items: &[String]"
    gen = "<T: Clone>" if it.get("gen") and not is_test else ""
    vis = "pub " if it.get("pub") and not is_test else ""
    r.emit(depth, f"{vis}{'async ' if is_async else ''}fn item{n}{gen}({params}) {{")
    sub = {"items": ctx["items"] + [{"type": "fn", "attrs": attrs, "gap": gap}], "async": is_async, "loop": False,
           "loopk": None, "wrapper": None, "closure": False}
    _block(r, it["body"], depth + 1, sub)
    r.emit(depth, "}")
    r.emit(depth, "")


def _items(r: _R, items: list, depth: int, ctx: dict, moddepth: int):
    for it in items:
        k = it["k"]
        if k == "fn":
            _fn(r, it, depth, ctx, False)
        elif k == "impl":
            n = r.n()
            r.emit(depth, f"impl Service{n} {{")
            for m in it["methods"]:
                _fn(r, m, depth + 1, ctx, True)
            r.emit(depth, "}")
            r.emit(depth, "")
        else:
            n = r.n()
            if moddepth >= 3:
                # deeper modules are flattened into their parent
                _items(r, it["items"], depth, ctx, moddepth)
                continue
            attrs = []
            for a in it["attrs"]:
                if a in MOD_ATTRS and a not in attrs:
                    attrs.append(a)
            gap = it.get("gap")
            if gap is not None:
                gap = min(gap, len(attrs))
                if not attrs:
                    gap = None
            _attr_lines(r, depth, attrs, gap, it.get("gapk", "line"))
            r.emit(depth, f"mod unit{n} {{")
            r.emit(depth + 1, "use super::*;")
            sub = dict(ctx)
            sub["items"] = ctx["items"] + [{"type": "mod", "attrs": attrs, "gap": gap}]
            _items(r, it["items"], depth + 1, sub, moddepth + 1)
            r.emit(depth, "}")
            r.emit(depth, "")


PRELUDE = {
    "std": ["use std::fs;", "use std::net;", "use std::net::{TcpListener, TcpStream, UdpSocket};", "use std::sync::Arc;",
            "use std::thread;", "use std::time::Duration;"],
    "tokio": ["use std::sync::Arc;", "use std::time::Duration;", "use tokio::fs;", "use tokio::net;",
              "use tokio::net::{TcpListener, TcpStream, UdpSocket};"],
}


def render(case: dict):
    """-> (text, atoms). atoms: [{cls, host, span:(first,last), calls:[...], ctx:{...}, ml}]"""
    r = _R(case["flavor"])
    for line in PRELUDE[case["flavor"]]:
        r.emit(0, line)
    r.emit(0, "")
    r.emit(0, "#[derive(Debug, Clone)]")
    r.emit(0, "pub struct Holder {")
    r.emit(1, "pub name: String,")
    r.emit(0, "}")
    r.emit(0, "")
    ctx = {"items": [], "async": False, "loop": False, "loopk": None, "wrapper": None, "closure": False}
    _items(r, case["items"], 0, ctx, 0)
    return "\n".join(r.lines) + "\n", r.atoms
