"""Scratch projects (DESIGN.md 2.3): real files in a private directory outside any git checkout."""
from __future__ import annotations

import atexit
import json
import os
import shutil
import tempfile

_BASE = None
_COUNTER = 0


def scratch_base() -> str:
    """Per-process scratch root under $VERIF_SCRATCH, /dev/shm or $TMPDIR; removed at exit."""
    global _BASE
    if _BASE is None or not os.path.isdir(_BASE) or _BASE_PID != os.getpid():
        parent = os.environ.get("VERIF_SCRATCH") or ("/dev/shm" if os.path.isdir("/dev/shm") else tempfile.gettempdir())
        _set_base(tempfile.mkdtemp(prefix=f"vf-{os.getpid()}-", dir=parent))
    return _BASE


_BASE_PID = None


def _set_base(path: str) -> None:
    global _BASE, _BASE_PID
    _BASE = path
    _BASE_PID = os.getpid()
    pid = os.getpid()

    def _cleanup(p=path, owner=pid):
        if os.getpid() == owner:
            shutil.rmtree(p, ignore_errors=True)

    atexit.register(_cleanup)


def cleanup_now() -> None:
    global _BASE
    if _BASE and _BASE_PID == os.getpid():
        shutil.rmtree(_BASE, ignore_errors=True)
        _BASE = None


def to_yaml(obj, indent=0) -> str:
    """Tiny block-style YAML emitter for config dicts (str keys; scalars, lists, dicts)."""
    import yaml

    return yaml.safe_dump(obj, default_flow_style=False, sort_keys=False, allow_unicode=True)


class Project:
    """A scratch project directory.

    files: {relative posix path: str | bytes}
    config: dict written as .thailint.yaml (None -> an empty mapping marker file `{}`),
            or pass marker=False and provide your own marker among files.
    parent: optional extra parent chain (e.g. "build/x") between scratch base and the root.
    """

    def __init__(self, files: dict | None = None, config: dict | None = None, marker: bool = True, parent: str | None = None, name: str = "proj"):
        global _COUNTER
        _COUNTER += 1
        self.top = os.path.join(scratch_base(), f"p{_COUNTER}")
        self.root = os.path.join(self.top, parent, name) if parent else os.path.join(self.top, name)
        os.makedirs(self.root)
        if marker:
            self.write(".thailint.yaml", to_yaml(config) if config else "{}\n")
        for rel, content in (files or {}).items():
            self.write(rel, content)

    def path(self, rel: str) -> str:
        return os.path.join(self.root, rel)

    def write(self, rel: str, content) -> str:
        p = self.path(rel)
        os.makedirs(os.path.dirname(p), exist_ok=True)
        if isinstance(content, bytes):
            with open(p, "wb") as fh:
                fh.write(content)
        else:
            with open(p, "w", encoding="utf-8", newline="") as fh:
                fh.write(content)
        return p

    def set_config(self, config: dict | None) -> None:
        self.write(".thailint.yaml", to_yaml(config) if config else "{}\n")

    def remove(self, rel: str) -> None:
        os.unlink(self.path(rel))

    def close(self) -> None:
        shutil.rmtree(self.top, ignore_errors=True)

    def __enter__(self):
        return self

    def __exit__(self, *a):
        self.close()


def snapshot(root: str) -> dict:
    """{relpath: (type, size, mtime_ns, sha256)} of everything below root."""
    import hashlib

    out = {}
    for d, dirs, files in os.walk(root):
        dirs.sort()
        for n in dirs:
            p = os.path.join(d, n)
            out[os.path.relpath(p, root) + "/"] = ("dir",)
        for n in sorted(files):
            p = os.path.join(d, n)
            st = os.lstat(p)
            with open(p, "rb") as fh:
                h = hashlib.sha256(fh.read()).hexdigest()
            out[os.path.relpath(p, root)] = ("file", st.st_size, st.st_mtime_ns, h)
    return out
