"""C04 - suppression directives silence exactly what they name, in every linter.

Two-run metamorphic check: lint a file that has several violations of several rules (`before`),
insert ONE documented suppression, lint again (`after`). Expected: `after` == `before` minus the
target rule's violations inside the directive's scope (line numbers mapped through the insertion),
and == `before` when the directive names another rule or is out of scope.

A case fixes (linter family, language, directive form, placement in/out of scope, naming target/other)
and the file; the check then tries EVERY rule-name spelling for that cell, so that "this linter ignores
this form altogether" is one root cause (signature ...|unsupported) rather than six.

Context dimension: a file a user adds a directive to usually has directives already. Every inline cell therefore repeats
the step once more (one spelling) in a file that already carries TWO other correct directives - one earlier in the file
around a neutral statement, one later on the last violation of the target rule; each is one of {closed ignore-start/end
block, ignore-next-line, same-line} x {names the target rule, names another rule, bare}, enumerated through the matrix so
that every (form, placement, naming) group meets every kind. Oracle, from the statement alone: directives are independent -
(1) the file with the two earlier directives == directive-free result minus what each of them names in its own scope
(signature ...|two-directives:<later>+<earlier>|...), (2) adding the directive under test to that file removes exactly its own
rule in its own scope (signature ...|<form>|beside-other-directives|...). Line and block scopes never overlap or nest
(nesting is left open by the docs).
"""
from __future__ import annotations

import itertools
from collections import Counter

from vf import runner, seeds
from vf.engine import Case, Failure, h
from vf.project import Project

ID = "C04"
TECHNIQUE = "exhaustive matrix (linter x language x directive form x placement x naming x spelling x directives already in the file) over Hypothesis-drawn multi-violation files; two-run metamorphic oracle on violation multisets"
RULE = (
    "case = matrix cell (linter family, language, form in {same-line, ignore-next-line, ignore-start/end block, ignore-file, "
    "repository pattern, linter-level ignore pattern}, placement in/out of scope, naming target/other rule) + a drawn file composed "
    "of >=2 seeds of the target family, seeds of 2 other families and filler; every rule-name spelling (full id, linter prefix, "
    "prefix.*, deprecated alias in its three forms, each also in upper and Title case, bare) is tried inside the case. Non-trivial: the file has >=2 violations of the "
    "target rule and >=1 of another rule, and the directive is expected to remove >=1 and leave >=1. Distinct = cell x seed shape. "
    "Each inline cell additionally repeats the step (one spelling, cycling) in a file that already carries two other directives (earlier one around a "
    "neutral statement, later one on the last target violation; kind in {block, next-line, same-line} x {target, other, bare} enumerated per cell)."
)
ASSUMPTIONS = [
    "directives are appended only to complete single-line statements / inserted as whole-line comments between statements",
    "other rules' seeds are separate top-level definitions, never inside the function/class that carries the directive (method/class-level ignore is not under test)",
    "for cross-file rules (dry, stringly-typed) a violation is identified by (rule, file, line); its message names counterpart locations and may legitimately change",
    "lazy-ignores output is excluded (the statement exempts it)",
    "line and block directives that share a file have disjoint, non-nested scopes on different statements (what nested or overlapping blocks mean is not documented); only an ignore-file header spans them",
]
BUDGET_S = {"quick": 150, "thorough": 1500}

FORMS = ("sameline", "nextline", "block", "file", "repo", "linter")
SPELLINGS = ("full", "prefix", "wild", "upper", "title", "upper-prefix", "upper-wild", "alias", "alias-full", "alias-wild", "alias-upper",
             "alias-title-full", "alias-upper-wild", "list-last", "list-first-spaced", "bare")
PREFIX_SPELLINGS = ("prefix", "wild", "upper-prefix", "upper-wild")  # name the whole linter; every other spelling names one rule
_ALIAS = {"improper-logging.print-statement": ("print-statements", "print-statements.detected")}  # src/core/rule_aliases.py

# family -> documented config section(s) carrying a linter-level `ignore:` list
SECTION = {
    "magic": ["magic-numbers"], "nesting": ["nesting"], "srp": ["srp"], "dry": ["dry"], "print": ["print-statements", "improper-logging"],
    "methodprop": ["method-property"], "stateless": ["stateless-class"], "pipeline": ["collection-pipeline"], "lbyl": ["lbyl"],
    "concat": ["performance"], "regex": ["performance"], "stringly": ["stringly-typed"],
    "unwrap": ["unwrap-abuse"], "clone": ["clone-abuse"], "blocking": ["blocking-async"],
}
CMD = dict(seeds.FAMILY_CMD, dry="dry", stringly="stringly-typed", combo_py="improper-logging", combo_ts="improper-logging", combo_js="improper-logging",
           combo_rs="unwrap-abuse")


def combo_seed(lang, u):
    """One line that carries violations of TWO rules (a print / unwrap call with a magic number in it): a directive
    naming one of them must leave the other alone."""
    m = 1300 + 7 * u
    if lang == "py":
        return seeds.Snippet([f"def combo_{u}(a{u}):", f"    print(a{u} * {m})", f"    return a{u}"], [], "combo")
    if lang in ("ts", "js"):
        return seeds.Snippet([f"function combo_{u}(a{u}{seeds._ann(lang, 'number')}) {{", f"    console.log(a{u} * {m});", f"    return a{u};", "}"], [], "combo")
    return seeds.Snippet([f"fn combo_{u}(x{u}: Option<i32>) -> i32 {{", f"    let v{u} = x{u}.unwrap() + {m};", f"    v{u}", "}"], [], "combo")
CROSS = ("dry", "stringly")


def families_for(lang):
    fams = [f for f in seeds.families(lang) if f != "lazy"]
    if lang in ("py", "ts", "js"):
        fams += list(CROSS)
    return fams + ["combo_" + lang]


# the directives a file may already carry when the directive under test is added (context dimension)
PRIOR_KINDS = [(pform, pnaming) for pform in ("block", "nextline", "sameline") for pnaming in ("target", "other", "bare")]
CTX_SPELLINGS = ("full", "prefix", "wild", "upper", "bare")


def context_for(idx):
    """idx = running number of the cell inside its (form, placement, naming) group: the 9 kinds of the earlier directive
    cycle fastest, so every group meets every kind; the later directive and the spelling move at coprime strides."""
    return {"before": list(PRIOR_KINDS[idx % 9]), "after": list(PRIOR_KINDS[(2 * idx + idx // 9) % 9]), "sp": CTX_SPELLINGS[idx % 5]}


def matrix():
    cells = []
    group = Counter()
    for lang in ("py", "ts", "js", "rs"):
        for fam in families_for(lang):
            for form in FORMS:
                for placement in ("in", "out"):
                    for naming in ("target", "other", "colocated"):
                        if form in ("repo",) and naming == "other":
                            continue  # a repository pattern names no rule
                        if naming == "colocated" and (not fam.startswith("combo_") or form in ("repo", "linter", "file")):
                            continue  # naming the OTHER rule that sits on the same line
                        if form in ("repo", "linter"):
                            for pat in range(5):
                                for carrier in (("thailintignore", "config") if form == "repo" else ("section",)):
                                    # the files live in pkg/ or, for every other cell, in the hidden directory .gen/
                                    pkg = "pkg" if (len(cells) + pat) % 2 == 0 else ".gen"
                                    cells.append({"lang": lang, "family": fam, "form": form, "placement": placement, "naming": naming, "pattern": pat, "carrier": carrier, "pkg": pkg})
                        else:
                            g = (form, placement, naming)
                            cells.append({"lang": lang, "family": fam, "form": form, "placement": placement, "naming": naming, "ctx": context_for(group[g])})
                            group[g] += 1
    return cells


def filling(rng, lang, fam):
    """The drawn part of a case (which other families, seed variants, order, pattern form). The matrix is
    enumerated completely, so the filling comes from a PRNG seeded by (VERIF_SEED, cell, repetition): a pure
    function of the seed, recorded in the case, hence replayable without the generator."""
    pool = [f for f in seeds.families(lang) if f not in (fam, "lazy")]
    if fam.startswith("combo_"):
        pool = [f for f in pool if f not in ("print", "unwrap", "magic")]  # keep the two combined rules to the combo lines
    if fam == "concat":
        pool = [f for f in pool if f != "regex"]  # same linter section (performance)
    if fam == "regex":
        pool = [f for f in pool if f != "concat"]
    rng.shuffle(pool)
    order = list(range(6))
    rng.shuffle(order)
    return {"others": pool[:2], "vars": [rng.randrange(6) for _ in range(6)], "order": order,
            "carrier": rng.choice(["thailintignore", "config"]), "pattern": rng.randrange(5)}


def build(case):
    """-> (files {rel: text}, main relpath, config dict)"""
    lang, fam = case["lang"], case["family"]
    f = case["fill"]
    ext = seeds.EXT[lang]
    pkg = case.get("pkg", "pkg")
    main = pkg + "/main" + ext
    parts = []
    files = {}
    config = {}
    if fam in CROSS:
        setf = (seeds.dry_set if fam == "dry" else seeds.stringly_set)(lang, 50, 3)
        names = sorted(setf)
        # the first file of the set is the main file (gets the other families' seeds appended); the others are siblings
        for n in names[1:]:
            files[pkg + "/" + n] = setf[n]
        base_text = setf[names[0]].rstrip("\n").split("\n")
        parts.append(seeds.Snippet(base_text, [], fam))
        parts.append(seeds.Snippet(_second_occurrence(lang, fam), [], fam))
        if fam == "dry":
            config["dry"] = {"enabled": True}
    elif fam.startswith("combo_"):
        parts.append(combo_seed(lang, 11))
        parts.append(combo_seed(lang, 12))
    else:
        parts.append(seeds.seed(fam, lang, 11, f["vars"][0]))
        parts.append(seeds.seed(fam, lang, 12, f["vars"][1]))
    for i, o in enumerate(f["others"]):
        parts.append(seeds.seed(o, lang, 21 + i, f["vars"][2 + i]))
    parts.append(seeds.filler(lang, 31))
    parts.append(seeds.filler(lang, 32))
    order = [i for i in f["order"] if i < len(parts)] + [i for i in range(len(parts)) if i not in f["order"]]
    # three filler functions first so that line 12+ exists before any seed (ignore-file out of scope) and
    # out-of-scope same-line placements have a neutral host
    lead = [seeds.filler(lang, 41), seeds.filler(lang, 42), seeds.filler(lang, 43), seeds.filler(lang, 44)]
    text, expected, spans = seeds.compose(lang, lead + [parts[i] for i in order], header=False, gap=1)
    files[main] = text
    return files, main, config


def _second_occurrence(lang, fam):
    """A second place in the main file carrying the same cross-file pattern (so >=2 target violations exist)."""
    if fam == "dry":
        block = seeds.dry_block(lang, 50, 5)
        if lang == "py":
            return ["def host_50_x(src_50):", "    first_50_x = begin_50_x(src_50)"] + block + ["    return finish_50_x(first_50_x)"]
        return [f"function host_50_x(src_50{seeds._ann(lang, 'any')}) {{", "    const first_50_x = begin_50_x(src_50);"] + block + ["    return finish_50_x(first_50_x);", "}"]
    if lang == "py":
        return ["def gate_50_x(env_50):", '    if env_50 in ("stage50", "prod50", "dev50"):', "        return go_50_x(env_50)", "    return None"]
    return [f"function gate_50_x(env_50{seeds._ann(lang, 'string')}) {{", '    if (env_50 === "stage50") {', "        return go_50_x(env_50);",
            '    } else if (env_50 === "prod50") {', "        return stop_50_x(env_50);", '    } else if (env_50 === "dev50") {', "        return wait_50_x(env_50);", "    }", "    return null;", "}"]


def commands(case):
    fams = [case["family"]] + case["fill"]["others"]
    cmds = []
    for f in fams:
        c = CMD[f]
        if c not in cmds:
            cmds.append(c)
    for c in ("magic-numbers", "nesting"):
        if c not in cmds:
            cmds.append(c)
    return cmds


def lint_all(p, cmds):
    """-> (list of violation dicts with project-relative file, anomalies)"""
    out, anomalies = [], []
    for c in cmds:
        r = runner.run_cli([c, "--format", "json", "."], cwd=p.root)
        if r.exit not in (0, 1) or r.swallowed or r.exception:
            anomalies.append({"cmd": c, "exit": r.exit, "stderr": r.stderr[-300:], "swallowed": r.swallowed, "exc": r.exception})
            continue
        for v in r.violations:
            if v["rule_id"].startswith("lazy-ignores"):
                continue
            out.append({**v, "file_path": runner.norm_path(v["file_path"], p.root, p.root), "cmd": c})
    return out, anomalies


def _title(text):
    return "-".join(w[:1].upper() + w[1:] for w in text.split("-"))


def spell(rule_id, spelling, lang="py"):
    prefix = rule_id.split(".")[0]
    if spelling.startswith("list-"):
        # docs/how-to-ignore-violations.md "Multiple Rules on Same Line": ignore[a,b]; the companion is a linter of another
        # language, which has nothing to report in this file
        other = "lbyl" if lang == "rs" else "unwrap-abuse"
        return f"{other},{rule_id}" if spelling == "list-last" else f"{rule_id}, {other}"
    if spelling == "full":
        return rule_id
    if spelling == "prefix":
        return prefix
    if spelling == "wild":
        return prefix + ".*"
    if spelling == "upper":
        return rule_id.upper()
    if spelling == "title":
        return ".".join(_title(part) for part in rule_id.split("."))
    if spelling == "upper-prefix":
        return prefix.upper()
    if spelling == "upper-wild":
        return prefix.upper() + ".*"
    if spelling.startswith("alias"):
        if rule_id not in _ALIAS:
            return None
        cat, full = _ALIAS[rule_id]
        return {"alias": cat, "alias-full": full, "alias-wild": cat + ".*", "alias-upper": cat.upper(),
                "alias-title-full": ".".join(_title(part) for part in full.split(".")), "alias-upper-wild": cat.upper() + ".*"}[spelling]
    return ""  # bare


def apply_directive(lines, form, anchor, out_anchor, name, c, placement, span=1, decoy=None):
    """Insert the directive; -> (new lines, shift function old_line -> new_line, scope predicate on OLD line numbers)."""
    lines = list(lines)
    bracket = f"[{name}]" if name else ""
    if form == "sameline":
        tgt = anchor if placement == "in" else out_anchor
        lines[tgt - 1] = lines[tgt - 1] + f"  {c} thailint: ignore{bracket}"
        return lines, (lambda l: l), (lambda l: l == tgt)
    if form == "nextline":
        tgt = anchor if placement == "in" else out_anchor
        ind = lines[tgt - 1][: len(lines[tgt - 1]) - len(lines[tgt - 1].lstrip())]
        lines.insert(tgt - 1, f"{ind}{c} thailint: ignore-next-line{bracket}")
        return lines, (lambda l: l + 1 if l >= tgt else l), (lambda l: l == tgt)
    if form == "block":
        tgt = anchor if placement == "in" else out_anchor
        ind = lines[tgt - 1][: len(lines[tgt - 1]) - len(lines[tgt - 1].lstrip())]
        start = f"{ind}{c} thailint: ignore-start" + (f" {name}" if name else "")
        # the block encloses `span` lines starting at the anchor (a DRY finding describes a multi-line run:
        # enclosing only its first line would leave the rest of the run a duplicate in its own right)
        last = tgt + (span - 1 if placement == "in" else 0)
        lines.insert(last, f"{ind}{c} thailint: ignore-end")
        lines.insert(tgt - 1, start)
        return lines, (lambda l: l + 1 if tgt <= l <= last else (l + 2 if l > last else l)), (lambda l: tgt <= l <= last)
    if form == "file":
        at = 1 if placement == "in" else 12
        if decoy and placement == "in":
            # a header with two directives: the first names a linter of another language, the second the rule under test
            lines.insert(0, f"{c} thailint: ignore-file[{decoy}]")
            lines.insert(1, f"{c} thailint: ignore-file{bracket}")
            return lines, (lambda l: l + 2), (lambda l: True)
        lines.insert(at - 1, f"{c} thailint: ignore-file{bracket}")
        return lines, (lambda l: l + 1 if l >= at else l), ((lambda l: True) if placement == "in" else (lambda l: False))
    raise ValueError(form)


PATTERNS_IN = ["{pkg}/main{ext}", "{pkg}/**", "**/main{ext}", "*{ext}", "{pkg}/"]
PATTERNS_OUT = ["{pkg}/other{ext}", "lib/**", "**/mainx{ext}", "*.zz", "{bare}/"]  # {bare}: the directory name without its first character


def _added(new, old):
    """The lines of `new` that `old` does not have (multiset difference, in the order of `new`)."""
    rest = Counter(old)
    out = []
    for l in new:
        if rest[l] > 0:
            rest[l] -= 1
        else:
            out.append(l)
    return out


def _strip_tails(vs, tails):
    """Some messages quote the source line: take appended same-line directive comments out again."""
    out = []
    for v in vs:
        m = v["message"]
        for t in sorted(tails, key=len, reverse=True):  # a bare `ignore` tail is a prefix of every named one
            m = m.replace(t, "").replace(t.strip(), "")
        out.append({**v, "message": m.rstrip()})
    return out


def _rstrip_keys(counter):
    return Counter({tuple(x.rstrip() if isinstance(x, str) else x for x in k): n for k, n in counter.items()})


def add_priors(ctx, src_lines, main, anchor, last, neutral, rule, other_rule, c, span):
    """The context: the file already carries two correct directives before the one under test is added - one EARLIER
    in the file around a neutral statement (second filler), one LATER on the last violation of the target rule.
    -> (lines, shift old_line -> new_line, removed predicate on violations of the directive-free file, descriptions, same-line tails)"""
    names = {"target": rule, "other": other_rule, "bare": ""}
    lines = list(src_lines)
    shifts, scopes, descs, tails = [], [], [], []
    # the later one first: inserting it leaves the line numbers above it as they are
    for where, tgt, sp_ in (("after", last, span), ("before", neutral, 1)):
        pform, pnaming = ctx[where]
        name = names[pnaming]
        new, shift, in_scope = apply_directive(lines, pform, tgt, tgt, name, c, "in", span=sp_ if pform == "block" else 1)
        added = _added(new, lines)
        descs.append(f"{where}: {added[0].strip()}")
        if pform == "sameline":
            tails.append(added[0][added[0].index(f"  {c} thailint:"):])
        lines = new
        shifts.append(shift)
        scopes.append((in_scope, name))
    removed = lambda v: v["file_path"] == main and any(sc(v["line"]) and (not nm or v["rule_id"] == nm) for sc, nm in scopes)  # noqa: E731
    return lines, (lambda l: shifts[1](shifts[0](l))), removed, descs, tails


def key_of(v, cross_rule_prefix):
    if cross_rule_prefix and v["rule_id"].startswith(cross_rule_prefix):
        return (v["rule_id"], v["file_path"], v["line"])
    return (v["rule_id"], v["file_path"], v["line"], v["column"], v["message"])


def check(case) -> Case:
    lang, fam, form, placement, naming = case["lang"], case["family"], case["form"], case["placement"], case["naming"]
    files, main, config = build(case)
    cmds = commands(case)
    c = seeds.COMMENT[lang]
    failures = []
    labels = [f"form={form}", f"lang={lang}", f"place={placement}", f"naming={naming}"]
    cell = f"{fam}|{lang}|{form}"
    with Project(files, config=config or None) as p:
        before, anomalies = lint_all(p, cmds)
        if anomalies:
            return Case(h(case), False, labels + ["anomaly-before"], [Failure(f"{cell}|anomaly-before", {"anomalies": anomalies, "files": files})])
        tcmd = CMD[fam]
        tviol = sorted([v for v in before if v["cmd"] == tcmd and v["file_path"] == main], key=lambda v: (v["line"], v["column"]))
        oviol = [v for v in before if v["cmd"] != tcmd and v["file_path"] == main]
        if len({v["line"] for v in tviol}) < 2 or not oviol:
            return Case(h(case), False, labels + ["seed-did-not-fire"], [])
        anchor_v = tviol[0]
        anchor = anchor_v["line"]
        rule = anchor_v["rule_id"]
        other_rule = sorted({v["rule_id"] for v in oviol if v["line"] != anchor})[0] if [v for v in oviol if v["line"] != anchor] else None
        if naming == "other" and other_rule is None:
            return Case(h(case), False, labels + ["no-other-rule"], [])
        if naming == "colocated":
            co = sorted({v["rule_id"] for v in before if v["file_path"] == main and v["line"] == anchor and v["rule_id"] != rule})
            if not co:
                return Case(h(case), False, labels + ["no-colocated-rule"], [])
            other_rule = co[0]
        src_lines = files[main].rstrip("\n").split("\n")
        viol_lines = {v["line"] for v in before if v["file_path"] == main}
        # neutral host for out-of-scope placements: body line of the first filler (line 2), two lines away from anything
        out_anchor = 2
        assert out_anchor not in viol_lines and out_anchor + 1 not in viol_lines
        cross_prefix = rule.split(".")[0] if fam in CROSS else None
        bkeys = Counter(key_of(v, cross_prefix) for v in before)

        spellings = SPELLINGS if form in ("sameline", "nextline", "block", "file") else ("n/a",)
        verdicts = {}
        span = 5 if fam == "dry" else 1
        runs = [(sp, False) for sp in spellings]
        cx = case.get("ctx") if form in ("sameline", "nextline", "block", "file") else None
        if cx:
            runs.append((cx["sp"] if not (cx["sp"] == "bare" and naming != "target") else "full", True))
            labels += [f"ctx-before={cx['before'][0]}-{cx['before'][1]}", f"ctx-after={cx['after'][0]}-{cx['after'][1]}"]
        plain = (src_lines, before, anchor)
        for sp, inctx in runs:
            named_rule = rule if naming == "target" else other_rule  # "colocated": the other rule on the anchor line
            src_lines, before, anchor = plain
            if inctx:
                # the same step once more, in a file that already carries two other directives
                last = tviol[-1]["line"]
                nfill = len(seeds.filler(lang, 41).lines)
                neutral = nfill + 3  # body line of the second filler
                if verdicts.get(sp, ("none",))[0] != "ok" or other_rule is None or last < anchor + span or {neutral, neutral + 1} & viol_lines:
                    labels.append("ctx-skipped")
                    continue
                src_lines, pshift, premoved, pdescs, ptails = add_priors(cx, src_lines, main, anchor, last, neutral, rule, other_rule, c, span)
                ctxfiles = dict(files)
                ctxfiles[main] = "\n".join(src_lines) + "\n"
                with Project(ctxfiles, config=config or None) as q:
                    before2, an0 = lint_all(q, cmds)
                ctxdesc = {"context": pdescs, "file_before": ctxfiles[main]}
                if an0:
                    failures.append(Failure(f"{cell}|anomaly-context", {"anomalies": an0, **ctxdesc}))
                    continue
                exp0 = Counter(key_of({**v, "line": pshift(v["line"])} if v["file_path"] == main else v, cross_prefix) for v in before if not premoved(v))
                got0 = Counter(key_of(v, cross_prefix) for v in _strip_tails(before2, ptails))
                if got0 != _rstrip_keys(exp0):
                    # two directives, each correct on its own (that is what the plain cells check), do not add up
                    kinds = sorted({(k[0].split(".")[0], "not-suppressed") for k in got0 - _rstrip_keys(exp0)} | {(k[0].split(".")[0], "over-suppressed") for k in _rstrip_keys(exp0) - got0})
                    for linter, kind in kinds:
                        failures.append(Failure(f"{linter}|{lang}|two-directives:{cx['after'][0]}+{cx['before'][0]}|{kind}",
                                                {"cell": {k: case[k] for k in case if k != "fill"}, "expected-not-observed": [list(k) for k in _rstrip_keys(exp0) - got0][:4],
                                                 "observed-not-expected": [list(k) for k in got0 - _rstrip_keys(exp0)][:4], **ctxdesc}))
                    continue
                before = _strip_tails(before2, ptails) if ptails else before2
                anchor = pshift(anchor)
                if not any(v["file_path"] == main and v["line"] == anchor and v["rule_id"] == rule for v in before):
                    labels.append("ctx-skipped")
                    continue
            if form in ("repo", "linter"):
                ext = seeds.EXT[lang]
                pidx = case.get("pattern", case["fill"]["pattern"])
                carrier = case.get("carrier", case["fill"]["carrier"])
                pkg = case.get("pkg", "pkg")
                # look-alike directory for the out-of-scope `dir/` pattern: the name without its first character for the
                # repository list (gitignore semantics: whole components); per-linter lists additionally match by substring
                # (original behaviour, pinned by thai-lint's tests), so there the look-alike must not be a substring
                bare = pkg[1:] if form == "repo" else pkg + "x"
                pat = (PATTERNS_IN if placement == "in" else PATTERNS_OUT)[pidx].format(ext=ext, pkg=pkg, bare=bare)
                hit = (lambda fp: fp == main) if pidx in (0, 2) else ((lambda fp, pkg=pkg: fp.startswith(pkg + "/")) if pidx == 4 else (lambda fp: fp.endswith(ext)))
                newfiles = dict(files)
                cfg = {k: dict(v) for k, v in config.items()}
                extra = {}
                if form == "repo":
                    if carrier == "thailintignore":
                        extra[".thailintignore"] = pat + "\n"
                    else:
                        cfg["ignore"] = [pat]
                    removed = lambda v, hit=hit: placement == "in" and hit(v["file_path"])  # noqa: E731
                else:
                    tfam = fam if naming == "target" else next(f for f in case["fill"]["others"] if CMD[f] != tcmd)
                    if tfam not in SECTION:
                        return Case(h(case), False, labels + ["no-section"], [])
                    sec = SECTION[tfam][case["fill"]["vars"][5] % len(SECTION[tfam])]
                    labels.append(f"section={sec}")
                    cfg.setdefault(sec, {})
                    cfg[sec] = {**cfg[sec], "ignore": [pat]}
                    scmd = CMD[tfam]
                    removed = lambda v, scmd=scmd, hit=hit: placement == "in" and hit(v["file_path"]) and v["cmd"] == scmd  # noqa: E731
                shift = lambda l: l  # noqa: E731
                with Project(newfiles, config=cfg or None) as q:
                    for rel, txt in extra.items():
                        q.write(rel, txt)
                    after, an2 = lint_all(q, cmds)
                desc = {"pattern": pat, "where": sec if form == "linter" else carrier}
                patform = ["exact", "dir/**", "**/name", "*.ext", "dir/"][pidx] + ("" if form == "linter" else "@" + carrier) + ("|hidden-dir" if pkg.startswith(".") else "")
            else:
                name = spell(named_rule, sp, lang)
                if name is None or (sp == "bare" and naming == "other"):
                    continue
                decoy = ("lbyl" if lang == "rs" else "unwrap-abuse") if sp in ("prefix", "upper", "alias", "title") and name else None
                new_lines, shift, in_scope = apply_directive(src_lines, form, anchor, out_anchor, name, c, placement, span=5 if fam == "dry" else 1, decoy=decoy)
                newfiles = dict(files)
                newfiles[main] = "\n".join(new_lines) + "\n"
                if sp == "bare":
                    removed = lambda v, in_scope=in_scope: v["file_path"] == main and in_scope(v["line"])  # noqa: E731
                else:
                    if sp in PREFIX_SPELLINGS:
                        rmatch = lambda rid, nr=named_rule: rid.split(".")[0] == nr.split(".")[0]  # noqa: E731
                    else:
                        rmatch = lambda rid, nr=named_rule: rid == nr  # noqa: E731
                    removed = lambda v, in_scope=in_scope, rmatch=rmatch: v["file_path"] == main and in_scope(v["line"]) and rmatch(v["rule_id"])  # noqa: E731
                with Project(newfiles, config=config or None) as q:
                    after, an2 = lint_all(q, cmds)
                desc = {"directive": _added(new_lines, src_lines)[0].strip(), "spelling": sp}
                if inctx:
                    desc["context"] = pdescs
            if an2:
                failures.append(Failure(f"{cell}|anomaly-after", {"anomalies": an2, **desc}))
                continue
            expected = Counter()
            n_removed = 0
            for v in before:
                if removed(v):
                    n_removed += 1
                    continue
                v2 = dict(v)
                if v["file_path"] == main:
                    v2["line"] = shift(v["line"])
                expected[key_of(v2, cross_prefix)] += 1
            tails = list(ptails) if inctx else []
            if form == "sameline":
                # some messages quote the source line; take the appended comment out again
                tail = _added(new_lines, src_lines)[0]
                tails.append(tail[tail.rindex(f"  {c} thailint:"):])
            if tails:
                after = _strip_tails(after, tails)
                expected = _rstrip_keys(expected)
            got = Counter(key_of(v, cross_prefix) for v in after)
            vkey = ("ctx", sp) if inctx else sp
            if got == expected:
                verdicts[vkey] = ("ok", n_removed)
                continue
            missing = expected - got  # expected to stay but gone
            extra_ = got - expected  # expected to go (or never there) but present
            per = {}
            for k in extra_:
                per.setdefault((k[0].split(".")[0], "not-suppressed"), []).append(list(k))
            for k in missing:
                per.setdefault((k[0].split(".")[0], "over-suppressed"), []).append(list(k))
            verdicts[vkey] = ("bad", per, {**desc, "file_after": newfiles[main] if form not in ("repo", "linter") else None})
        src_lines, before, anchor = plain
        # the step inside a file that already has directives: its own root-cause class (the same spelling passed in the plain file)
        for vkey in [k for k in verdicts if isinstance(k, tuple)]:
            v = verdicts.pop(vkey)
            labels.append("ctx-run")
            if v[0] == "ok":
                continue
            for (linter, kind), items in sorted(v[1].items()):
                failures.append(Failure(f"{linter}|{lang}|{form}|beside-other-directives|{kind}",
                                        {"cell": {k: case[k] for k in case if k != "fill"}, "violations": items[:4], **v[2]}))
        ok = {sp: v for sp, v in verdicts.items() if v[0] == "ok"}
        # aggregate per (linter, kind): which spellings failed
        agg = {}
        for sp, v in verdicts.items():
            if v[0] == "ok":
                continue
            for (linter, kind), items in v[1].items():
                agg.setdefault((linter, kind), {})[sp] = (items, v[2])
        named_tried = [sp for sp in verdicts if sp not in ("bare", "n/a")]
        for (linter, kind), by_sp in sorted(agg.items()):
            if form in ("repo", "linter"):
                items, d = by_sp["n/a"]
                fname = form if form == "repo" else f"linter:{sec}"
                failures.append(Failure(f"{linter}|{lang}|{fname}|{patform}|{kind}", {"cell": {k: case[k] for k in case if k != "fill"}, "violations": items[:4], **d}))
                continue
            named_failed = [sp for sp in by_sp if sp != "bare"]
            if "bare" in by_sp:
                items, d = by_sp["bare"]
                failures.append(Failure(f"{linter}|{lang}|{form}|bare|{kind}", {"cell": {k: case[k] for k in case if k != "fill"}, "violations": items[:4], **d}))
            if named_failed and len(named_failed) == len(named_tried) and len(named_tried) > 1:
                items, d = by_sp[named_failed[0]]
                failures.append(Failure(f"{linter}|{lang}|{form}|named|{kind}", {"cell": {k: case[k] for k in case if k != "fill"}, "spellings": sorted(named_failed), "violations": items[:4], **d}))
            else:
                for sp in named_failed:
                    items, d = by_sp[sp]
                    failures.append(Failure(f"{linter}|{lang}|{form}|{sp}|{kind}", {"cell": {k: case[k] for k in case if k != "fill"}, "violations": items[:4], **d}))
        effect = any(v[1] for v in ok.values() if isinstance(v[1], int))
        nontrivial = len(tviol) >= 2 and bool(oviol)
        labels.append("removes>=1" if (placement == "in" and naming == "target") else "expects-no-change")
    key = h([fam, lang, form, placement, naming, case["fill"]["others"], case["fill"]["vars"][:4]])
    return Case(key=key, nontrivial=nontrivial, labels=labels, failures=failures)


def run(ctx):
    import random

    cells = matrix()
    name = "linter x lang x form x placement x naming (each with all spellings)"
    reps = 1 if ctx.quick else 3
    if ctx.quick:
        # half of the cells, chosen by a hash of the cell and the seed over the WHOLE matrix (a choice by position would keep
        # or drop runs of neighbouring cells together once the matrix is dealt out to the shards)
        cells = [c for c in cells if (int(h(c)[:8], 16) + ctx.seed) % 2 == 0]
    mine = ctx.my_cells(cells)
    todo = []
    for rep in range(reps):
        for cell in mine:
            rng = random.Random(h([ctx.seed, rep, cell]))
            todo.append({**cell, "fill": filling(rng, cell["lang"], cell["family"])})
    done = ctx.each(todo, check)
    ctx.stats.extra.setdefault("matrix", {})[name] = {"cells": len(cells) // ctx.nshards, "done": done // reps if reps else 0}
    if not ctx.quick and done == len(todo):
        ctx.stats.extra["exhaustive_matrix"] = True


def replay(case) -> Case:
    return check(case)
