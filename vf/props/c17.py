"""C17 - Rust safety linters (unwrap-abuse / clone-abuse / blocking-async) flag exactly the risky calls
outside test code.

Generator: abstract Rust files (vf/render/c17_rust.py): fn / async fn / impl / nested mod items with attribute
lists (test-making, neutral, "mentions test but is not a test"), optional comment between attributes and item,
bodies of loops / non-loops / closures / spawn_blocking-style wrappers / nested fns with planted calls and
look-alikes.  Every planted call knows its ground truth, so the expected multiset of (rule_id, line, column) under
an option vector follows by construction from the property statement and the three docs pages.

Oracle (statement + docs, never the implementation):
  unwrap-abuse   .unwrap() always, .expect() iff allow_expect is off; not in test code while allow_in_tests
  clone-abuse    .clone() in a loop body / chained on a clone / `let c = v.clone();` with v never mentioned again
                 in that block; each iff its detect_* option is on; test exemption as above
  blocking-async std::fs::<documented fn> / std::thread::sleep / std::net::{TcpStream,TcpListener,UdpSocket}
                 (full path, or the short form a `use std::...` import makes a std call) lexically inside an
                 async fn and not inside spawn_blocking / block_in_place / asyncify; detect_* ; test exemption
  "test code"    inside a fn carrying an attribute whose path ends in `test`, or inside a `#[cfg(test)]` mod, whatever
                 other attributes or comments stand between attribute and item
  position       line and 0-based column where the call expression starts (Violation.column is documented 0-indexed);
                 for a call whose method sits on a continuation line the docs (unwrap-abuse Example 3) show the
                 method's line.

Known deviations of the tool are modelled explicitly (DEVIATIONS) so the search continues behind them: a mismatch on
a planted line is a KNOWN finding only if a listed deviation (or a minimal set of them) explains it exactly.
"""
from __future__ import annotations

import itertools
from collections import Counter

from hypothesis import strategies as st

from vf import runner
from vf.engine import Case, Failure, h, live_first, deviation_sets
from vf.project import Project
from vf.render import c17_rust as rr

ID = "C17"
TECHNIQUE = ("Hypothesis-generated Rust files from a grammar with planted calls carrying ground truth x option vectors; "
             "by-construction expected multiset (rule_id, line, column) per linter; explicit deviation models; canonical "
             "file x all option vectors matrix")
RULE = (
    "case = abstract Rust file (1-4 top-level items: fn/async fn/impl/mod nested <=3, attribute lists incl. #[test], "
    "#[tokio::test], #[cfg(test)], neutral and 'mentions test' attributes, optional comment between attribute and item; "
    "bodies: loops of 5 kinds, if/else/if-let/match/block/unsafe, closures, 8 wrapper forms, nested fns) with planted "
    "unwrap/expect/clone/blocking calls + look-alikes in 11 host statements, linted by the 3 commands under the default "
    "options and 1-3 drawn option vectors per linter (thorough: all 4/16/16). Non-trivial: >=1 real planted call in test "
    "code and >=1 outside, >=1 look-alike, and >=1 option given a non-default value. Distinct = set of (expression "
    "class, host, context class) triples present + the option vectors."
)
ASSUMPTIONS = [
    "planted calls are single-line (except the dedicated continuation-line host) so the call position is unambiguous",
    ".clone() in a loop *header* is not generated (docs speak of loop bodies)",
    "a clone qualifying for two sub-rules (chain in loop, unnecessary let in loop) is only judged when the detect_* options "
    "involved agree, and then only 'exactly one violation with one of the qualifying rule ids' is required",
    "`let c = v.clone();` whose source is used only in an *enclosing* block afterwards is not generated (statement: used "
    "afterwards; docs: not used in the same block)",
    "non-simple clone sources (holder.name) and chained clones under a let are generated only with a later use of the source",
    "a clone is put under a `let` only through the dedicated let-group (no `let f = || v.clone();`)",
    "a sync fn nested in an async fn, async blocks, and closures nested inside a spawn_blocking-style wrapper are not generated",
    "short forms fs::/thread::/net::/TcpStream:: appear only in files whose `use` lines decide what they are; bare `sleep(..)`, "
    "`read(..)`, std::fs::File::open and other std::fs items outside the documented function list are not generated",
    "#[cfg(test)] on a fn or impl, #![cfg(test)] and cfg(all(test, ..)) are not generated (statement names #[test] fns and #[cfg(test)] mods)",
    "options are delivered through the auto-discovered .thailint.yaml under the documented hyphenated section names",
    "in-process CLI (click CliRunner) equals a fresh process; cross-checked on the first cases of every run",
]
BUDGET_S = {"quick": 150, "thorough": 1500}

LINTERS = ("unwrap", "clone", "blocking")
CMD = {"unwrap": "unwrap-abuse", "clone": "clone-abuse", "blocking": "blocking-async"}
OPTS = {
    "unwrap": ("allow_in_tests", "allow_expect"),
    "clone": ("allow_in_tests", "detect_clone_in_loop", "detect_clone_chain", "detect_unnecessary_clone"),
    "blocking": ("allow_in_tests", "detect_fs_in_async", "detect_sleep_in_async", "detect_net_in_async"),
}
RULES = {
    "unwrap": ("unwrap-abuse.unwrap-call", "unwrap-abuse.expect-call"),
    "clone": ("clone-abuse.clone-in-loop", "clone-abuse.clone-chain", "clone-abuse.unnecessary-clone"),
    "blocking": ("blocking-async.fs-in-async", "blocking-async.sleep-in-async", "blocking-async.net-in-async"),
}
CLONE_DETECT = {"clone-abuse.clone-in-loop": "detect_clone_in_loop", "clone-abuse.clone-chain": "detect_clone_chain",
                "clone-abuse.unnecessary-clone": "detect_unnecessary_clone"}
FILE = "src/lib.rs"

# Deviations of the implementation from the statement/docs (each = one root cause, one signature "dev:<name>").
DEVIATIONS = (
    "config-section-ignored",          # options in .thailint.yaml have no effect (defaults are used)
    "attr-scan-stops-at-comment",      # a comment between a test attribute and the item hides the attribute
    "attr-substring-test",             # any fn attribute whose text contains "test" makes the fn test code
    "macro-args-invisible",            # calls inside macro arguments are never seen
    "short-path-ignores-imports",      # fs::/thread::/net:: short paths count as std whatever the file imports
    "bare-net-type-unmatched",         # TcpStream::connect(..) with `use std::net::TcpStream` (docs Example 3) is missed
    "leading-colons-unmatched",        # ::std::fs::read(..) is missed
    "method-wrapper-unrecognised",     # rt.spawn_blocking(|| ..) is not treated as a wrapper
    "multiline-reported-at-expression-start",  # continuation-line call reported on the receiver's line
)
DEVIATIONS = tuple(live_first("C17", DEVIATIONS))  # still-known deviations are tried first, repaired ones only classify regressions
UNCONSTRAINED = object()


def eff(lin: str, vec: dict) -> dict:
    return {k: vec.get(k, True) for k in OPTS[lin]}


def is_default(lin: str, vec: dict) -> bool:
    return all(eff(lin, vec).values())


def in_test(items: list, devs=()) -> bool:
    for d in items:
        seen = d["attrs"]
        if "attr-scan-stops-at-comment" in devs and d["gap"] is not None:
            seen = seen[d["gap"]:]
        if d["type"] == "fn":
            if "attr-substring-test" in devs:
                t = any("test" in rr.ATTR_TEXT[a] for a in seen)
            else:
                t = any(a in rr.FN_TEST_ATTRS for a in seen)
        else:
            t = "cfg_test" in seen
        if t:
            return True
    return False


def call_outcomes(call: dict, ctx: dict, lin: str, vec: dict, devs=(), force=None):
    """Set of acceptable verdicts (rule id or None) for one planted call; UNCONSTRAINED if the docs leave it open.
    `force` overrides one context fact (test/loop/async/wrapped) - used only to NAME an unexplained mismatch."""
    force = force or {}
    cfg = eff(lin, {}) if "config-section-ignored" in devs else eff(lin, vec)
    if call["kind"] == "look":
        return {None}
    if ctx["macro"] and "macro-args-invisible" in devs:
        return {None}
    exempt = cfg["allow_in_tests"] and force.get("test", in_test(ctx["items"], devs))
    if lin == "unwrap":
        if exempt:
            return {None}
        if call["kind"] == "unwrap":
            return {"unwrap-abuse.unwrap-call"}
        return {None} if cfg["allow_expect"] else {"unwrap-abuse.expect-call"}
    if lin == "clone":
        q = []
        if call["chain"]:
            q.append("clone-abuse.clone-chain")
        if force.get("loop", ctx["loop"]):
            q.append("clone-abuse.clone-in-loop")
        if call["unnec"]:
            q.append("clone-abuse.unnecessary-clone")
        if not q or exempt:
            return {None}
        ons = {cfg[CLONE_DETECT[r]] for r in q}
        if len(ons) == 2:
            return UNCONSTRAINED
        return set(q) if ons == {True} else {None}
    # blocking
    std = call["std"]
    form = call["form"]
    if form in ("short", "mid") and "short-path-ignores-imports" in devs:
        std = True
    if form == "bare" and "bare-net-type-unmatched" in devs:
        std = False
    if form == "leading" and "leading-colons-unmatched" in devs:
        std = False
    w = ctx["wrapper"]
    wrapped = w in rr.RECOGNISED_WRAPPERS
    if w == "w.method" and "method-wrapper-unrecognised" in devs:
        wrapped = False
    wrapped = force.get("wrapped", wrapped)
    if not std or not force.get("async", ctx["async"]) or wrapped or exempt:
        return {None}
    rule = f"blocking-async.{call['kind']}-in-async"
    return {rule} if cfg[f"detect_{call['kind']}_in_async"] else {None}


def atom_alternatives(atom: dict, lin: str, vec: dict, devs=(), force=None):
    """-> list of acceptable Counters{(rule, line, col)} for the atom's lines, or None when unconstrained."""
    per_call = []
    for c in atom["calls"]:
        if c["lin"] != lin:
            continue
        o = call_outcomes(c, atom["ctx"], lin, vec, devs, force)
        if o is UNCONSTRAINED:
            return None
        pos = (c["line"], c["col"])
        if atom["ml"] and "multiline-reported-at-expression-start" in devs:
            pos = c["start"]
        per_call.append([(r, pos) for r in sorted(o, key=str)])
    alts = []
    for combo in itertools.product(*per_call):
        cnt = Counter((r, p[0], p[1]) for r, p in combo if r is not None)
        if cnt not in alts:
            alts.append(cnt)
    return alts


def matches(obs: Counter, alts: list) -> bool:
    for a in alts:
        if any(k[2] is None for k in a):
            if Counter((r, ln) for r, ln, _ in obs.elements()) == Counter((r, ln) for r, ln, _ in a.elements()):
                return True
        elif obs == a:
            return True
    return False


def applicable_devs(atom: dict, lin: str, vec: dict) -> list:
    """Deviations that can touch this atom, most specific first (attribution order: when two single deviations both
    explain a mismatch the more specific one is blamed; the option deviation only when nothing else explains it)."""
    out = []
    ctx = atom["ctx"]
    calls = [c for c in atom["calls"] if c["lin"] == lin]
    if ctx["macro"]:
        out.append("macro-args-invisible")
    if atom["ml"]:
        out.append("multiline-reported-at-expression-start")
    if lin == "blocking":
        if any(c.get("form") == "bare" for c in calls):
            out.append("bare-net-type-unmatched")
        if any(c.get("form") == "leading" for c in calls):
            out.append("leading-colons-unmatched")
        if any(c.get("form") in ("short", "mid") for c in calls):
            out.append("short-path-ignores-imports")
        if ctx["wrapper"] == "w.method":
            out.append("method-wrapper-unrecognised")
    if any(d["gap"] is not None for d in ctx["items"]):
        out.append("attr-scan-stops-at-comment")
    if any(d["type"] == "fn" and any(a in rr.FN_DECOY_ATTRS for a in d["attrs"]) for d in ctx["items"]):
        out.append("attr-substring-test")
    if not is_default(lin, vec):
        out.append("config-section-ignored")
    return out


def ctx_tag(atom: dict, lin: str) -> str:
    ctx = atom["ctx"]
    tags = []
    if in_test(ctx["items"]):
        tags.append("test")
    if lin == "clone" and ctx["loop"]:
        tags.append("loop:" + str(ctx.get("loopk")))
    if lin == "blocking":
        tags.append("async" if ctx["async"] else "sync")
        if ctx["wrapper"]:
            tags.append(ctx["wrapper"])
    if ctx["macro"]:
        tags.append("macro")
    elif ctx["closure"]:
        tags.append("closure")
    return "+".join(tags) or "plain"


def mismatch_kind(obs: Counter, exp: Counter) -> str:
    if not obs:
        return "missing"
    if not exp:
        return "extra"
    o_rules = Counter(k[0] for k in obs.elements())
    e_rules = Counter(k[0] for k in exp.elements())
    if o_rules == e_rules:
        return "position"
    if set(o_rules) == set(e_rules):
        return "count"
    return "wrong-rule"


def name_unexplained(atom: dict, lin: str, vec: dict, obs: Counter, alts: list, corroborated_as_test: bool) -> str:
    """Root-cause signature of a mismatch no listed deviation explains: if the observation is what the statement
    would give with ONE context fact misjudged (loop / async fn / wrapper / test code), name that fact and what the
    context looks like; otherwise name linter, expression class and kind of mismatch. For a *missing* report a silencing fact
    is only named when at least one more plant of the same fn is silenced too and none of them is reported."""
    ctx = atom["ctx"]
    truth_test = in_test(ctx["items"])
    flips = []
    if lin == "clone":
        flips.append(("loop", not ctx["loop"]))
    if lin == "blocking":
        flips.append(("async", not ctx["async"]))
        flips.append(("wrapped", ctx["wrapper"] not in rr.RECOGNISED_WRAPPERS))
    flips.append(("test", not truth_test))
    if not obs and not corroborated_as_test:
        flips = []  # "nothing reported" is explained by any silencing fact: name one only if the fn's other plants agree
    for fact, value in flips:
        a2 = atom_alternatives(atom, lin, vec, (), {fact: value})
        if a2 is None or not matches(obs, a2):
            continue
        if fact == "test":
            parts = []
            for d in ctx["items"]:
                if d["attrs"]:
                    parts.append(d["type"] + ":" + "+".join(d["attrs"]) + (":comment" if d["gap"] is not None else ""))
            return f"testctx|{'/'.join(parts) or 'no-attributes'}|taken-as-{'test' if value else 'non-test'}"
        if fact == "loop":
            return f"clone-abuse|loopctx|{ctx['loopk'] or 'no-loop'}|taken-as-{'loop' if value else 'non-loop'}"
        if fact == "async":
            return f"blocking-async|asyncctx|{'closure' if ctx['closure'] else 'direct'}|taken-as-{'async' if value else 'sync'}"
        return f"blocking-async|wrapperctx|{ctx['wrapper'] or 'none'}|taken-as-{'wrapped' if value else 'unwrapped'}"
    kind = mismatch_kind(obs, alts[0])
    host = atom["host"] if atom["host"] in ("macro", "ml", "clet", "wrap") else "stmt"
    return f"{CMD[lin]}|{atom['cls']}|{host}|{ctx_tag(atom, lin)}|{kind}"


def dev_sig(dev: str, lin: str) -> str:
    return f"dev:{dev}|{CMD[lin]}" if dev == "config-section-ignored" else f"dev:{dev}"


def judge(lin: str, vec: dict, atoms: list, violations: list, text: str, established: dict) -> list:
    """Compare one command's violations with the planted ground truth -> failures.
    `established[(lin, atom index)]` remembers the deviations that explained this atom in an earlier round (the default
    round comes first), and those are tried first, so a deviation is blamed consistently across option vectors."""
    fails = []
    by_line = {}
    for v in violations:
        by_line.setdefault(v["line"], []).append(v)
    owned = set()
    pending = []
    status = {}
    src_lines = text.split("\n")
    for ai, atom in enumerate(atoms):
        first, last = atom["span"]
        obs = Counter()
        for ln in range(first, last + 1):
            owned.add(ln)
            for v in by_line.get(ln, []):
                obs[(v["rule_id"], v["line"], v["column"])] += 1
        alts = atom_alternatives(atom, lin, vec)
        if alts is not None:
            status[ai] = (bool(alts[0]), bool(obs))  # (statement expects something here, tool reported something here)
        if alts is None or matches(obs, alts):
            continue
        detail = {"linter": CMD[lin], "options": vec, "class": atom["cls"], "host": atom["host"], "context": ctx_tag(atom, lin),
                  "enclosing_items": atom["ctx"]["items"], "lines": {str(ln): src_lines[ln - 1] for ln in range(first, last + 1)},
                  "expected_one_of": [sorted(map(list, a.elements()), key=repr) for a in alts],
                  "observed": sorted(map(list, obs.elements()), key=repr), "source": text}
        app = applicable_devs(atom, lin, vec)
        est = established.setdefault((lin, ai), [])
        app = [d for d in est if d in app] + [d for d in app if d not in est]
        explained = None
        for devs in deviation_sets("C17", app):
            a2 = atom_alternatives(atom, lin, vec, devs)
            if a2 is not None and matches(obs, a2):
                explained = devs
                break
        if explained:
            for d in explained:
                if d not in est:
                    est.append(d)
                fails.append(Failure(dev_sig(d, lin), {**detail, "explained_by_deviations": list(explained)}))
        else:
            pending.append((ai, atom, obs, alts, detail))
    for ai, atom, obs, alts, detail in pending:
        # other plants of the same innermost fn that the statement wants reported under these options
        mates = [st for j, st in status.items() if j != ai and atoms[j]["ctx"]["items"] == atom["ctx"]["items"] and st[0]]
        corroborated = bool(mates) and all(not st[1] for st in mates)
        fails.append(Failure(name_unexplained(atom, lin, vec, obs, alts, corroborated), detail))
    for ln, vs in sorted(by_line.items()):
        if ln not in owned:
            fails.append(Failure(f"{CMD[lin]}|unplanted-line|extra",
                                 {"linter": CMD[lin], "options": vec, "line": ln, "text": src_lines[ln - 1] if 0 < ln <= len(src_lines) else None,
                                  "violations": vs, "source": text}))
    return fails


def config_for(vecs: dict) -> dict:
    cfg = {}
    for lin, vec in vecs.items():
        if vec:
            cfg[CMD[lin]] = dict(vec)
    return cfg


def all_vectors(lin: str) -> list:
    return [dict(zip(OPTS[lin], bits)) for bits in itertools.product([True, False], repeat=len(OPTS[lin]))]


COMPANIONS = {
    "aaa_tokio.rs": "\n".join([
        "use tokio::fs;", "use tokio::time::sleep;", "use tokio::net::TcpStream;", "",
        "async fn load_co1(p: &str, d: std::time::Duration) -> usize {", "    let text = fs::read_to_string(p).await;", "    sleep(d).await;",
        '    let conn = TcpStream::connect("127.0.0.1:80").await;', "    measure_co1(text, conn)", "}", ""]),
    "aab_std.rs": "\n".join([
        "use std::fs;", "use std::thread::sleep;", "use std::net::TcpStream;", "",
        "fn load_co2(p: &str, d: std::time::Duration, items: Vec<String>) -> usize {", "    let text = fs::read_to_string(p).unwrap();", "    sleep(d);",
        '    let conn = TcpStream::connect("127.0.0.1:80").expect("conn");', "    for it in items.iter() {", "        keep_co2(it.clone());", "    }",
        "    measure_co2(text, conn)", "}", ""]),
}


def check(case) -> Case:
    text, atoms = rr.render(case)
    only = case.get("only") or list(LINTERS)
    present = {lin: any(c["lin"] == lin for a in atoms for c in a["calls"]) for lin in LINTERS}
    rounds = [{lin: {} for lin in only}]  # round 0: default options (empty config)
    if case.get("allvec"):
        per = {lin: [v for v in all_vectors(lin)] for lin in only}
    else:
        per = {lin: [v for v in case["opts"].get(lin, []) if v] for lin in only}
    for i in range(max([len(v) for v in per.values()] + [0])):
        rounds.append({lin: per[lin][i] for lin in only if i < len(per[lin])})
    failures = []
    established = {}
    with Project({FILE: text, **COMPANIONS}) as p:
        for ri, vecs in enumerate(rounds):
            p.set_config(config_for(vecs))
            for lin, vec in vecs.items():
                if ri > 0 and not present[lin]:
                    continue
                r = runner.run_cli([CMD[lin], "--format", "json", FILE], cwd=p.root)
                if r.exit not in (0, 1) or r.swallowed or r.exception:
                    failures.append(Failure(f"{CMD[lin]}|anomaly|run", {"exit": r.exit, "stderr": r.stderr[-400:], "swallowed": r.swallowed,
                                                                        "exception": r.exception, "options": vec, "source": text}))
                    continue
                vs = r.violations
                if (r.exit == 1) != bool(vs):
                    failures.append(Failure(f"{CMD[lin]}|anomaly|exit-code", {"exit": r.exit, "n": len(vs), "options": vec, "source": text}))
                bad = [v for v in vs if v["rule_id"] not in RULES[lin] or not v["file_path"].endswith("lib.rs")]
                if bad:
                    failures.append(Failure(f"{CMD[lin]}|anomaly|foreign-violation", {"violations": bad[:3], "options": vec, "source": text}))
                    vs = [v for v in vs if v not in bad]
                failures.extend(judge(lin, vec, atoms, vs, text, established))
                if ri == 0:
                    # the same file after two other Rust files (one importing tokio's fs/time/net, one importing std's) in ONE
                    # run: what the earlier files import or call must not change this file's verdicts
                    r2 = runner.run_cli([CMD[lin], "--format", "json", "aaa_tokio.rs", "aab_std.rs", FILE], cwd=p.root)
                    mine = sorted((v["rule_id"], v["line"], v["column"], v["message"]) for v in r2.violations if v["file_path"].endswith(FILE))
                    alone = sorted((v["rule_id"], v["line"], v["column"], v["message"]) for v in vs)
                    if r2.exit in (0, 1) and mine != alone:
                        failures.append(Failure(f"{CMD[lin]}|company|judged-differently-after-other-files",
                                                {"alone": alone[:6], "after_other_files": mine[:6], "source": text, "companions": COMPANIONS}))
    # ---- coverage book-keeping
    labels = set()
    triples = set()
    real_test = real_prod = look = 0
    for a in atoms:
        t = in_test(a["ctx"]["items"])
        for c in a["calls"]:
            if c["kind"] == "look":
                look += 1
            elif t:
                real_test += 1
            else:
                real_prod += 1
        lins = sorted({c["lin"] for c in a["calls"]})
        tag = "|".join(ctx_tag(a, lin) for lin in lins)
        triples.add((a["cls"], a["host"], tag))
        labels.add(f"class={a['cls'].split('.after')[0]}")
        labels.add(f"host={a['host']}")
        for lin in lins:
            labels.add(f"ctx[{lin}]={ctx_tag(a, lin)}")
        for d in a["ctx"]["items"]:
            if not d["attrs"]:
                continue
            if d["type"] == "mod":
                what = "+".join(d["attrs"])
            else:
                tests = [i for i, x in enumerate(d["attrs"]) if x in rr.FN_TEST_ATTRS]
                decoys = [x for x in d["attrs"] if x in rr.FN_DECOY_ATTRS]
                if tests:
                    what = d["attrs"][tests[0]] + ("(nearest-to-item)" if tests[0] == len(d["attrs"]) - 1 else "(other-attrs-below)")
                elif decoys:
                    what = "mentions-test:" + decoys[0]
                else:
                    what = "neutral"
                what += f"/{len(d['attrs'])}attrs"
            gap = ""
            if d["gap"] is not None:
                gap = ":comment-above-all" if d["gap"] == 0 else (":comment-before-item" if d["gap"] >= len(d["attrs"]) else ":comment-between-attrs")
            labels.add(f"item={d['type']}:{what}{gap}")
        depth = sum(1 for d in a["ctx"]["items"] if d["type"] == "mod")
        labels.add(f"mod-depth={depth}")
    for a in atoms:
        for lin in sorted({c["lin"] for c in a["calls"]}):
            for vec in [{}] + per.get(lin, []) if lin in only else []:
                alts = atom_alternatives(a, lin, vec)
                if alts is None:
                    labels.add(f"expected[{lin}]=left-open-by-docs(skipped)")
                    continue
                if len(alts) > 1:
                    labels.add(f"expected[{lin}]=one-of-several-rules")
                for k in alts[0]:
                    labels.add(f"expected={k[0]}" + ("" if is_default(lin, vec) else "@non-default-options"))
                if not alts[0] and any(c["lin"] == lin and c["kind"] != "look" for c in a["calls"]):
                    labels.add(f"expected[{lin}]=real-call-not-reported" + ("" if is_default(lin, vec) else "@non-default-options"))
    for lin in only:
        for v in per[lin]:
            labels.add(f"opts[{lin}]=" + ",".join(f"{k}={'T' if v[k] else 'F'}" for k in OPTS[lin] if k in v))
    labels.add(f"flavor={case['flavor']}")
    labels.add(f"atoms={min(len(atoms) // 5 * 5, 40)}+")
    nondefault = any(not is_default(lin, v) for lin in only for v in per[lin])
    nontrivial = real_test > 0 and real_prod > 0 and look > 0 and nondefault
    key = h([sorted(triples), {lin: per[lin] for lin in only} if not case.get("allvec") else "all"])
    return Case(key=key, nontrivial=nontrivial, labels=sorted(labels), failures=failures)


# ------------------------------------------------------------------------------------ strategies

_EXPRS_BY_FAM = {"u": rr.UNWRAP_EXPRS, "c": rr.CLONE_EXPRS, "b": rr.BLOCK_EXPRS}


def _atom(theme):
    fam = st.sampled_from({"async": "bbbuc", "sync": "uuccb"}[theme])
    return fam.flatmap(lambda f: st.fixed_dictionaries({
        "k": st.just("atom"), "e": st.sampled_from(_EXPRS_BY_FAM[f]), "h": st.sampled_from(rr.HOSTS),
        "t": st.integers(0, 3), "v": st.integers(0, 13)}))


_CLET = st.fixed_dictionaries({
    "k": st.just("clet"), "recv": st.sampled_from(["simple", "simple", "simple", "field"]),
    "after": st.sampled_from(["none", "none", "direct", "nested", "closure", "macro", "method"]),
    "before": st.booleans(), "ann": st.booleans(), "mut": st.booleans(), "chain": st.sampled_from([False, False, False, True]),
    "sep": st.booleans()})
_FILL = st.fixed_dictionaries({"k": st.just("fill"), "n": st.integers(0, 3)})


def _block(theme, depth):
    leaf = st.one_of(_atom(theme), _atom(theme), _atom(theme), _CLET, _FILL)
    if depth <= 0:
        return st.lists(leaf, min_size=1, max_size=3)
    sub = st.deferred(lambda: _block(theme, depth - 1))
    kinds = rr.LOOPS + rr.PLAIN_CTRL + rr.CLOSURE_CTRL + (rr.WRAPPERS if theme == "async" else rr.WRAPPERS[:2])
    ctrl = st.fixed_dictionaries({"k": st.just("ctrl"), "c": st.sampled_from(kinds), "body": sub})
    nfn = st.fixed_dictionaries({"k": st.just("nfn"), "async": st.booleans(), "body": sub})
    return st.lists(st.one_of(leaf, leaf, ctrl, ctrl, nfn if depth >= 2 else ctrl), min_size=1, max_size=4)


@st.composite
def _fn_attrs(draw, is_async):
    base = draw(st.sampled_from(["none", "none", "test", "test", "decoy", "neutral"]))
    attrs = []
    if base == "test":
        attrs.append(draw(st.sampled_from(rr.FN_TEST_ATTRS)))
        attrs += draw(st.lists(st.sampled_from(rr.FN_COMPANION_ATTRS + rr.FN_NEUTRAL_ATTRS), max_size=2, unique=True))
    elif base == "decoy":
        attrs.append(draw(st.sampled_from(rr.FN_DECOY_ATTRS)))
        attrs += draw(st.lists(st.sampled_from(rr.FN_NEUTRAL_ATTRS), max_size=1))
    elif base == "neutral":
        attrs += draw(st.lists(st.sampled_from(rr.FN_NEUTRAL_ATTRS), min_size=1, max_size=2, unique=True))
    attrs = draw(st.permutations(attrs)) if len(attrs) > 1 else attrs
    gap = draw(st.sampled_from([None, None, None, 0, 1, 2, 3])) if attrs else None
    return list(attrs), gap


@st.composite
def _fn(draw):
    is_async = draw(st.booleans())
    attrs, gap = draw(_fn_attrs(is_async))
    body = draw(_block("async" if is_async else "sync", draw(st.integers(0, 2))))
    return {"k": "fn", "attrs": attrs, "gap": gap, "gapk": draw(st.sampled_from(["line", "doc", "block"])), "async": is_async,
            "pub": draw(st.booleans()), "gen": draw(st.booleans()), "body": body}


_MOD_ATTRS = [[], ["cfg_test"], ["cfg_test"], ["cfg_test", "allow_dead"], ["allow_dead", "cfg_test"], ["cfg_not_test"],
              ["cfg_feature"], ["cfg_feature", "cfg_test"]]


def _item(moddepth):
    fn = _fn()
    impl = st.fixed_dictionaries({"k": st.just("impl"), "methods": st.lists(fn, min_size=1, max_size=2)})
    if moddepth >= 3:
        return st.one_of(fn, fn, impl)
    mod = st.deferred(lambda: st.fixed_dictionaries({
        "k": st.just("mod"), "attrs": st.sampled_from(_MOD_ATTRS), "gap": st.sampled_from([None, None, None, 0, 1, 2]),
        "gapk": st.sampled_from(["line", "doc", "block"]), "items": st.lists(_item(moddepth + 1), min_size=1, max_size=3)}))
    return st.one_of(fn, fn, fn, impl, mod, mod)


def _vec(lin):
    return st.fixed_dictionaries({}, optional={k: st.booleans() for k in OPTS[lin]}).filter(lambda v: any(x is False for x in v.values()))


@st.composite
def cases(draw, allvec=False):
    return {
        "flavor": draw(st.sampled_from(["std", "std", "tokio"])),
        "items": draw(st.lists(_item(0), min_size=1, max_size=4)),
        "opts": {lin: draw(st.lists(_vec(lin), min_size=1, max_size=3)) for lin in LINTERS},
        "allvec": allvec,
    }


# ------------------------------------------------------------------------------------ canonical matrix


def canonical_case(lin: str, vec: dict, flavor: str) -> dict:
    """One file holding every expression class of `lin` in every basic context, linted under one full option vector."""
    fam = {"unwrap": "u", "clone": "c", "blocking": "b"}[lin]
    exprs = _EXPRS_BY_FAM[fam]
    hosts = [hh for hh in rr.HOSTS if hh != "macro"]

    def atoms(shift):
        out = []
        for i, e in enumerate(exprs):
            out.append({"k": "atom", "e": e, "h": hosts[(i + shift) % len(hosts)], "t": (i + shift) % 4, "v": i + shift})
        if lin == "clone":
            for after in ("none", "direct", "nested", "closure", "macro", "method"):
                out.append({"k": "clet", "recv": "simple", "after": after, "before": bool(shift % 2), "ann": False, "mut": False, "chain": False, "sep": True})
            out.append({"k": "clet", "recv": "field", "after": "direct", "before": False, "ann": True, "mut": True, "chain": False, "sep": False})
            out.append({"k": "clet", "recv": "simple", "after": "direct", "before": False, "ann": False, "mut": False, "chain": True, "sep": False})
        return out

    def body(shift):
        b = atoms(shift)
        if lin == "clone":
            b.append({"k": "ctrl", "c": rr.LOOPS[shift % len(rr.LOOPS)], "body": atoms(shift + 1)[:12]})
        if lin == "blocking":
            b.append({"k": "ctrl", "c": rr.RECOGNISED_WRAPPERS[shift % 6], "body": atoms(shift + 1)[:8]})
            b.append({"k": "ctrl", "c": "w.custom", "body": atoms(shift + 2)[:4]})
        return b

    is_async = lin == "blocking"
    test_attr = "tokio_test" if is_async else "test"

    def fn(attrs, shift, a=is_async):
        return {"k": "fn", "attrs": attrs, "gap": None, "gapk": "line", "async": a, "pub": False, "gen": False, "body": body(shift)}

    sweep = []
    if lin == "blocking":
        for i in range(len(rr.FS_FUNCS)):
            sweep.append({"k": "atom", "e": "b.fs.full", "h": ("let", "expr", "arg")[i % 3], "t": i % 4, "v": i})
            sweep.append({"k": "atom", "e": "b.fs.short", "h": ("expr", "arg", "let")[i % 3], "t": (i + 1) % 4, "v": i})
        for i in range(len(rr.NET)):
            for e in ("b.net.full", "b.net.mid", "b.net.bare"):
                sweep.append({"k": "atom", "e": e, "h": "let", "t": i, "v": i})
    items = [fn([], 0), fn([test_attr], 1), fn(["inline", test_attr, "should_panic"], 2),
             {"k": "mod", "attrs": ["cfg_test"], "gap": None, "gapk": "line", "items": [
                 fn([], 3), {"k": "mod", "attrs": [], "gap": None, "gapk": "line", "items": [fn(["allow_dead"], 4)]}]},
             {"k": "mod", "attrs": ["cfg_not_test"], "gap": None, "gapk": "line", "items": [fn([], 5)]},
             {"k": "impl", "methods": [fn(["inline"], 6)]}]
    if lin == "blocking":
        items.append(fn([], 7, a=False))
        items.append({"k": "fn", "attrs": [], "gap": None, "gapk": "line", "async": True, "pub": True, "gen": False, "body": sweep})
    return {"flavor": flavor, "items": items, "opts": {lin: [vec]}, "only": [lin], "allvec": False}


def host_cells():
    """Every expression class x every host statement, in a plain (async for blocking) fn, default options; eight
    atoms per file."""
    cells = []
    for lin in LINTERS:
        fam = {"unwrap": "u", "clone": "c", "blocking": "b"}[lin]
        pairs = [(e, hh) for e in _EXPRS_BY_FAM[fam] for hh in rr.HOSTS]
        vec = {o: o != "allow_expect" for o in OPTS[lin]}  # every detector on, .expect() reported too
        for flavor in (("std", "tokio") if lin == "blocking" else ("std",)):
            for i in range(0, len(pairs), 8):
                body = [{"k": "atom", "e": e, "h": hh, "t": (i + j) % 4, "v": i + j} for j, (e, hh) in enumerate(pairs[i:i + 8])]
                cells.append({"flavor": flavor, "only": [lin], "allvec": False, "opts": {lin: [vec]}, "items": [
                    {"k": "fn", "attrs": [], "gap": None, "gapk": "line", "async": lin == "blocking", "pub": False, "gen": False, "body": body}]})
    return cells


def run(ctx):
    ctx.explore(cases(allvec=not ctx.quick), check, max_examples=ctx.n(140, 500))
    hc = ctx.my_cells(host_cells())
    done = ctx.each(hc, check)
    ctx.stats.extra.setdefault("matrix", {})["every expression class x every host statement (17), default options"] = {"cells": len(hc), "done": done}
    cells = []
    for lin in LINTERS:
        for vec in all_vectors(lin):
            for flavor in (("std", "tokio") if lin == "blocking" else ("std",)):
                cells.append(canonical_case(lin, vec, flavor))
    mine = ctx.my_cells(cells)
    done = ctx.each(mine, check)
    ctx.stats.extra.setdefault("matrix", {})["canonical file (every expression class x basic contexts) x every option vector (4 + 16 + 2*16)"] = {
        "cells": len(mine), "done": done}


def replay(case) -> Case:
    return check(case)
