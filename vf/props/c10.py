"""C10 - directory, file-list, CLI and library runs agree with one another.

Generator: multi-language project trees (2-10 files in nested directories, one of them possibly hidden or
always-excluded) built from the violation seed library; one CLI command per case (every linter command gets its
share); a drawn subset of the files as explicit arguments; a sub-directory target with the recursive flag.

Oracle (relations between runs of the tool, nothing else):
  U1  per-file rules:  V(thailint cmd .)                == multiset-union of V(thailint cmd f) over all files f
  U2  per-file rules:  V(thailint cmd [--no-recursive] d) == union over the files under d (direct children only)
  U3  per-file rules:  V(thailint cmd f1..fk)           == union of V(thailint cmd fi)
  U4  per-file rules:  V(thailint cmd d g1..gk)         == V(d) + union V(gi)       (gi outside d)
  L   every rule:      V(thailint cmd t)  ==  Linter(project_root).lint(t, rules=<the rule ids of that command>)
                       for t = ".", a sub-directory, and single files - cross-file rules (dry, stringly-typed) included
compared as multisets of (rule_id, project-relative file, line, column, message).
A file that the run must skip (inside an always-excluded directory) has V(f) = {} by C14's statement, so the union
laws need no selection model.

The one deviation confirmed by hand is modelled explicitly: Linter.lint(<single file>) never runs the cross-file
finalisation step, so dry / stringly-typed findings that the CLI reports for a single file are all missing from the
library result. A CLI/library mismatch is that KNOWN finding only if it is explained exactly this way.
"""
from __future__ import annotations

import os
from collections import Counter

from hypothesis import strategies as st

from vf import runner, seeds
from vf.engine import Case, Failure, h
from vf.project import Project

ID = "C10"
TECHNIQUE = ("Hypothesis-generated multi-language trees from the seed library x every linter command x file subsets; "
             "compositional laws (directory = union of files, list = union) through the CLI and CLI == Linter.lint "
             "differential, as multisets of full violation records")
RULE = (
    "case = one CLI command + a tree of 2-10 seeded files (py/ts/js/rs, 1-3 planted constructs each, the command's own "
    "family preferred; duplicate-code / repeated-validation file sets and one-file duplicates for the cross-file "
    "commands; now and then Rust files judged by their own imports and extension-less files: Makefile, LICENSE, python-shebang "
    "scripts) in <=5 directories + a subset of files + an optional sub-directory target with recursive flag + files for "
    "the single-file library comparison. Runs: the command on every file, on '.', on the sub-directory, on the subset, on "
    "sub-directory + outside files; Linter.lint on '.', the sub-directory and the chosen files. Non-trivial: >=3 files in "
    ">=2 directories and the command reports violations in >=2 files. Distinct = hash of (command, (directory, "
    "language, families) per file, subset size, sub-directory, recursive)."
)
ASSUMPTIONS = [
    "cwd = project root and relative target paths in both entry points (path spelling is C09's subject)",
    "the library is given the exact rule ids that the command's runs printed or that an unfiltered library run produced "
    "under the command's rule-id prefix (the docs' short names are a different feature)",
    "configuration = the project's .thailint.yaml, autodiscovered by both entry points or (1 case in 4) named explicitly to both "
    "(`cmd --config .thailint.yaml` / `Linter(config_file='.thailint.yaml')`); other carriers and locations are C05's subject; "
    "with autodiscovery, now and then a .thailint.json and/or a pyproject.toml [tool.thailint] with other thresholds lies next to it "
    "(which file wins is not judged here, only that both entry points pick the same)",
    "every run uses a fresh process-like CLI invocation / a fresh Linter (object reuse is C08's subject)",
    "explicit file arguments are distinct and never lie inside a directory argument of the same run",
    "cross-file rules (dry, stringly-typed) are excluded from the union laws, as the statement says",
    "Linter.lint has no non-recursive mode; the library is compared with recursive CLI runs only",
    "in-process CLI (click CliRunner) equals a fresh process; cross-checked on the first cases of every run",
]
BUDGET_S = {"quick": 110, "thorough": 1300}

# command -> (rule-id prefix it owns, seed families that make it fire, cross-file?)
COMMANDS = {
    "nesting": ("nesting.", ["nesting"], False),
    "srp": ("srp.", ["srp"], False),
    "magic-numbers": ("magic-numbers.", ["magic"], False),
    "improper-logging": ("improper-logging.", ["print"], False),
    "print-statements": ("improper-logging.", ["print"], False),
    "method-property": ("method-property.", ["methodprop"], False),
    "stateless-class": ("stateless-class.", ["stateless"], False),
    "pipeline": ("collection-pipeline.", ["pipeline"], False),
    "lbyl": ("lbyl.", ["lbyl"], False),
    "lazy-ignores": ("lazy-ignores.", ["lazy"], False),
    "perf": ("performance.", ["concat", "regex"], False),
    "string-concat-loop": ("performance.string-concat-loop", ["concat"], False),
    "regex-in-loop": ("performance.regex-in-loop", ["regex"], False),
    "unwrap-abuse": ("unwrap-abuse.", ["unwrap"], False),
    "clone-abuse": ("clone-abuse.", ["clone"], False),
    "blocking-async": ("blocking-async.", ["blocking"], False),
    "file-placement": ("file-placement", [], False),
    "file-header": ("file-header.", [], False),
    "dry": ("dry.", [], True),
    "stringly-typed": ("stringly-typed.", [], True),
}
NOT_LINTERS = {"config", "init-config", "hello"}
FINALIZE_PREFIXES = ("dry.", "stringly-typed.")  # rules whose findings are produced by the cross-file finalisation step

DIRS = ["", "src", "src/core", "lib", "lib/util", "app/ui", "app", "tools", "core", ".hid", "pkg/build", "tests", "tests/unit", "examples"]
STEMS = ["mod", "mod", "index", "util_x", "core_x"]
CONFIG = {"dry": {"enabled": True}, "file-placement": {"global_deny": [{"pattern": r".*_x[0-9]*\.[a-z]+$", "reason": "no _x modules"}]}}
# the same settings with per-language overrides: what a file is judged by depends on ITS language, whatever else is in the run
LANGCFG = {**CONFIG, "nesting": {"max_nesting_depth": 4, "python": {"max_nesting_depth": 1}, "rust": {"max_nesting_depth": 2}},
           "srp": {"max_methods": 7, "typescript": {"max_methods": 1}, "python": {"max_loc": 5}},
           "magic-numbers": {"allowed_numbers": [0, 1], "javascript": {"allowed_numbers": []}, "python": {"allowed_numbers": [0, 1, 1300, 1307, 1314, 1321]}},
           "dry": {"enabled": True, "min_duplicate_lines": 3, "typescript": {"min_duplicate_lines": 4}}}
FIELDS = ("rule_id", "file", "line", "column", "message")
# explicit_config == 2: both entry points are given ALT_NAME (= CONFIG) explicitly while the autodiscoverable
# .thailint.yaml carries different settings for sections ALT_NAME does not mention; whatever the tool does with the
# discoverable file, the CLI and the library must do the same
ALT_NAME = "alt-config.yaml"
HOSTILE = {**CONFIG, "nesting": {"max_nesting_depth": 1}, "srp": {"max_methods": 1, "max_loc": 5}, "magic-numbers": {"allowed_numbers": [0]},
           "stateless-class": {"min_methods": 1}, "method-property": {"max_body_statements": 1}, "performance": {"enabled": False},
           "print-statements": {"enabled": False}, "lbyl": {"enabled": False}, "unwrap-abuse": {"allow_expect": False}}


@st.composite
def cases(draw):
    cmd = draw(st.sampled_from(sorted(COMMANDS) + ["dry", "stringly-typed"]))  # cross-file commands get a double share
    prefix, fams, cross = COMMANDS[cmd]
    dirs = draw(st.lists(st.sampled_from(DIRS), min_size=2, max_size=5, unique=True))
    files = []
    n = draw(st.integers(2, 8))
    own_langs = [l for l in ("py", "ts", "js", "rs") if any(f in seeds.families(l) for f in fams)]
    for i in range(n):
        if own_langs and draw(st.integers(0, 3)) > 0:
            lang = draw(st.sampled_from(own_langs))
        else:
            lang = draw(st.sampled_from(["py", "py", "ts", "js", "rs"]))
        avail = seeds.families(lang)
        mine = [f for f in fams if f in avail]
        k = draw(st.integers(1, 3))
        chosen = []
        for j in range(k):
            if mine and j == 0 and draw(st.integers(0, 9)) < 8:
                fam = draw(st.sampled_from(mine))
            else:
                fam = draw(st.sampled_from(avail))
            chosen.append([fam, i * 8 + j, draw(st.integers(0, 2))])
        d, stem = draw(st.sampled_from(dirs)), draw(st.sampled_from(STEMS))
        path = _join(d, stem + seeds.EXT[lang])  # the same base name may occur in several directories (mod.py, index.ts ...)
        if any(f["p"] == path for f in files):
            path = _join(d, f"{stem}{i}{seeds.EXT[lang]}")
        files.append({"p": path, "lang": lang, "snips": chosen, "header": draw(st.booleans()), "trio": draw(st.integers(0, 2)) == 0})
    if "rs" in own_langs and draw(st.booleans()):
        # Rust files whose verdicts depend on their OWN `use` lines: a file that imports tokio's fs (its fs:: calls are
        # fine), a file without any `use` whose fs:: call means std::fs, and a second importing file; every file must be
        # judged by its own imports whatever was analysed before it
        d = draw(st.sampled_from(dirs))
        for nm, sp in (("aa_tokio", "rs-imports-tokio"), ("mm_plain", "rs-no-imports"), ("zz_tokio", "rs-imports-tokio")):
            files.append({"p": _join(d, nm + ".rs"), "lang": "rs", "special": sp, "u": 700 + len(files)})
    if "py" in own_langs and draw(st.integers(0, 2)) == 0:
        # files without an extension: a Makefile and a LICENSE (no language) and python-shebang scripts (Python) in the same
        # directory - what a file IS must be decided per file, whatever was looked at before it
        d = draw(st.sampled_from(dirs))
        pyfam = [f for f in fams if f in seeds.families("py")] or ["magic"]
        files.append({"p": _join(d, "LICENSE"), "lang": "none", "special": "text"})
        files.append({"p": _join(d, "Makefile"), "lang": "none", "special": "text"})
        for nm in ("build_tool", "zz_runner"):
            files.append({"p": _join(d, nm), "lang": "py", "special": "py-script", "snips": [[draw(st.sampled_from(pyfam)), 600 + len(files), draw(st.integers(0, 2))]]})
    if cross or draw(st.integers(0, 9)) == 0:
        kind = "str" if cmd == "stringly-typed" else "dry"
        for g in range(draw(st.integers(1, 2))):
            lang = draw(st.sampled_from(["py", "py", "ts", "js"]))
            u = 900 + g
            if draw(st.booleans()):
                nf = draw(st.integers(2, 3))
                for k in range(nf):
                    files.append({"p": _join(draw(st.sampled_from(dirs)), f"{kind}{u}_{k}{seeds.EXT[lang]}"), "lang": lang, "set": kind, "u": u, "k": k, "nf": nf})
            else:
                files.append({"p": _join(draw(st.sampled_from(dirs)), f"{kind}{u}_both{seeds.EXT[lang]}"), "lang": lang, "set": kind, "u": u, "k": -1, "nf": 2})
    idx = list(range(len(files)))
    subset = draw(st.lists(st.sampled_from(idx), min_size=1, max_size=min(5, len(idx)), unique=True))
    live = sorted({"/".join(f["p"].split("/")[:k]) for f in files for k in range(1, f["p"].count("/") + 1)})
    subdir = draw(st.sampled_from(live)) if live and draw(st.integers(0, 3)) > 0 else None
    recursive = draw(st.sampled_from([True, True, False]))
    libfiles = draw(st.lists(st.sampled_from(idx), min_size=1, max_size=3, unique=True))
    both = [i for i, f in enumerate(files) if f.get("k") == -1]
    if both and both[0] not in libfiles:
        libfiles.append(both[0])
    explicit_config = draw(st.sampled_from([0, 0, 0, 1, 2, 2]))
    return {"cmd": cmd, "files": files, "subset": subset, "subdir": subdir, "recursive": recursive, "libfiles": libfiles,
            "explicit_config": explicit_config, "langcfg": explicit_config != 2 and draw(st.booleans()),
            # other discoverable configuration files with different settings next to .thailint.yaml: whichever file the tool
            # prefers, the CLI and the library must prefer the same one
            "decoy": draw(st.sampled_from([None, None, "json", "json", "pyproject", "json+pyproject"])) if explicit_config == 0 else None}


def _join(d, name):
    return (d + "/" if d else "") + name


def render(f) -> str:
    lang = f["lang"]
    if f.get("special") == "rs-imports-tokio":
        u = f["u"]
        return "\n".join(["use tokio::fs;", "", f"async fn load_{u}(p{u}: &str) -> usize {{", f"    let text{u} = fs::read_to_string(p{u}).await;", f"    measure_{u}(text{u})", "}", ""])
    if f.get("special") == "rs-no-imports":
        u = f["u"]
        return "\n".join([f"async fn report_{u}(p{u}: &str) -> usize {{", f"    let text{u} = fs::read_to_string(p{u});", f"    let copy{u} = text{u}.clone();", f"    measure_{u}(copy{u}, text{u})", "}", ""])
    if f.get("special") == "text":
        return "all:\n\techo done\n\nPermission is hereby granted to nobody in particular.\n"
    if f.get("special") == "py-script":
        text, _, _ = seeds.compose("py", [seeds.seed(fam, "py", u, var) for fam, u, var in f["snips"]], header=False)
        return "#!/usr/bin/env python3\n" + text
    if "set" in f:
        fs = (seeds.stringly_set if f["set"] == "str" else seeds.dry_set)(lang, f["u"], f["nf"])
        texts = list(fs.values())
        return "\n\n".join(texts) if f["k"] == -1 else texts[f["k"]]
    text, _, _ = seeds.compose(lang, [seeds.seed(fam, lang, u, var) for fam, u, var in f["snips"]], header=f["header"])
    if f.get("trio"):
        # several findings on ONE line that agree in rule and message (columns differ in Python, not in ts/js/rs): the CLI
        # and the library must both report every one of them
        m3 = 2600 + f["snips"][0][1]
        if lang == "py":
            text += f"\n\ndef trio_{m3}(a):\n    return [a, {m3}, {m3}, {m3}]\n"
        elif lang == "rs":
            text += f"\n\nfn trio_{m3}(a: i64, b: Option<i64>, c: Option<i64>) -> Vec<i64> {{\n    vec![a, {m3}, {m3}, b.unwrap() + c.unwrap()]\n}}\n"
        else:
            text += f"\n\nfunction trio_{m3}(a) {{\n    return [a, {m3}, {m3}, {m3}];\n}}\n"
    return text


# ------------------------------------------------------------------------------------ running


class Runs:
    def __init__(self, p, cmd, failures, explicit_config=False):
        self.p, self.cmd, self.failures = p, cmd, failures
        self.explicit_config = explicit_config
        self.config_name = ALT_NAME if explicit_config == 2 else ".thailint.yaml"
        self.ids = set()

    def cli(self, targets, recursive=True):
        args = [self.cmd, "--format", "json"] + (["--config", self.config_name] if self.explicit_config else [])
        args += ([] if recursive else ["--no-recursive"]) + list(targets)
        r = runner.run_cli(args, cwd=self.p.root)
        if r.exit not in (0, 1) or r.swallowed or r.exception:
            self.failures.append(Failure("cli|anomaly", {"args": args, "exit": r.exit, "stderr": r.stderr[-400:], "swallowed": r.swallowed[:3], "exc": r.exception}))
            return None
        vs = r.violations
        if (r.exit == 1) != bool(vs):
            self.failures.append(Failure("cli|exit-code-vs-count", {"args": args, "exit": r.exit, "n": len(vs)}))
        self.ids.update(v["rule_id"] for v in vs)
        return runner.vmultiset(vs, self.p.root, self.p.root, FIELDS)

    def lib(self, target, rules):
        old = os.getcwd()
        os.chdir(self.p.root)
        try:
            with runner.capture_swallowed() as swallowed:
                linter = runner.fresh_linter(self.p.root, self.config_name if self.explicit_config else None)
                vs = [runner.vdict(v) for v in linter.lint(target, rules=rules)]
        finally:
            os.chdir(old)
        if swallowed:
            self.failures.append(Failure("lib|anomaly", {"target": target, "swallowed": swallowed[:3]}))
        return vs


def _is_file_target(t, paths):
    return t in paths


def compare_lib(runs, target, cli_ms, prefix, paths, detail_base):
    """CLI multiset vs Linter.lint for one target."""
    unfiltered = runs.lib(target, None)
    ids = sorted(runs.ids | {v["rule_id"] for v in unfiltered if v["rule_id"].startswith(prefix)})
    out = []
    if ids:
        filtered = runs.lib(target, ids)
        lib_ms = runner.vmultiset(filtered, runs.p.root, runs.p.root, FIELDS)
        ref = runner.vmultiset([v for v in unfiltered if v["rule_id"] in ids], runs.p.root, runs.p.root, FIELDS)
        if ref != lib_ms:
            out.append(Failure("lib|rules-filter-inconsistent", {**detail_base, "target": target, "rules": ids, **runner.diff_multisets(ref, lib_ms)}))
    else:
        lib_ms = Counter()
    if cli_ms == lib_ms:
        return out
    only_cli, only_lib = cli_ms - lib_ms, lib_ms - cli_ms
    kind = "file" if _is_file_target(target, paths) else "dir"
    detail = {**detail_base, "target": target, "rules": ids, "only_cli": sorted(map(list, only_cli.elements()), key=repr)[:8],
              "only_lib": sorted(map(list, only_lib.elements()), key=repr)[:8]}
    fin = lambda k: k[0].startswith(FINALIZE_PREFIXES)  # noqa: E731
    if (kind == "file" and not only_lib and only_cli and all(fin(k) for k in only_cli)
            and not any(fin(k) for k in lib_ms) and all(k in only_cli for k in cli_ms if fin(k))):
        out.append(Failure("dev:lib-single-file-no-finalize", detail))
        return out
    side = "only-cli" if not only_lib else "only-lib" if not only_cli else "both-sides"
    fam = "cross-file-rule" if any(fin(k) for k in list(only_cli) + list(only_lib)) else "per-file-rule"
    out.append(Failure(f"cli-vs-lib|{kind}|{fam}|{side}", detail))
    return out


def under(rel, d, recursive):
    if not rel.startswith(d + "/"):
        return False
    return recursive or "/" not in rel[len(d) + 1:]


def check(case) -> Case:
    cmd = case["cmd"]
    prefix, fams, cross = COMMANDS[cmd]
    files = case["files"]
    paths = [f["p"] for f in files]
    failures = []
    labels = [f"cmd={cmd}", "cross-file" if cross else "per-file", f"nfiles={len(files)}", f"recursive={case['recursive']}",
              "subdir" if case["subdir"] else "no-subdir", ["config=autodiscovered", "config=explicit", "config=explicit-alternative-file"][int(case.get("explicit_config") or 0)], f"decoy={case.get('decoy')}",
              "per-language-sections" if case.get("langcfg") else "flat-sections"]
    with Project({f["p"]: render(f) for f in files}, config=HOSTILE if case.get("explicit_config") == 2 else (LANGCFG if case.get("langcfg") else CONFIG)) as p:
        if case.get("explicit_config") == 2:
            from vf.project import to_yaml

            p.write(ALT_NAME, to_yaml(CONFIG))
        decoy = case.get("decoy") or ""
        if "json" in decoy:
            import json as _json
            p.write(".thailint.json", _json.dumps(HOSTILE, indent=2))
        if "pyproject" in decoy:
            p.write("pyproject.toml", "[project]\nname = \"decoy\"\nversion = \"0.1.0\"\n\n[tool.thailint.nesting]\nmax_nesting_depth = 1\n\n"
                    "[tool.thailint.srp]\nmax_methods = 1\nmax_loc = 5\n\n[tool.thailint.magic-numbers]\nallowed_numbers = [0]\n")
        runs = Runs(p, cmd, failures, case.get("explicit_config", False))
        base = {"cmd": cmd, "files": paths}
        root_ms = runs.cli(["."])
        sub = case["subdir"]
        sub_rec_ms = runs.cli([sub]) if sub else None
        per = {}
        if not cross:
            for f in paths:
                per[f] = runs.cli([f])
            if None not in per.values() and root_ms is not None:
                def union(fs):
                    c = Counter()
                    for f in fs:
                        c.update(per[f])
                    return c

                def law(name, got, want, extra):
                    if got is not None and got != want:
                        d = runner.diff_multisets(got, want)
                        side = "missing-from-combined-run" if not d["only_left"] else "extra-in-combined-run" if not d["only_right"] else "both-sides"
                        failures.append(Failure(f"{name}|{side}", {**base, **extra, "only_in_combined_run": d["only_left"], "only_in_per_file_runs": d["only_right"]}))

                law("union-root-dir", root_ms, union(paths), {"target": "."})
                if sub:
                    law("union-sub-dir", sub_rec_ms, union([f for f in paths if under(f, sub, True)]), {"target": sub, "recursive": True})
                    if not case["recursive"]:
                        law("union-dir-nonrecursive", runs.cli([sub], recursive=False), union([f for f in paths if under(f, sub, False)]), {"target": sub, "recursive": False})
                        law("union-dir-nonrecursive", runs.cli(["."], recursive=False), union([f for f in paths if "/" not in f]), {"target": ".", "recursive": False})
                chosen = [paths[i] for i in case["subset"]]
                law("union-file-list", runs.cli(chosen), union(chosen), {"targets": chosen})
                if sub:
                    outside = [f for f in chosen if not under(f, sub, True)]
                    if outside:
                        law("union-dir-plus-files", runs.cli([sub] + outside, recursive=case["recursive"]),
                            union([f for f in paths if under(f, sub, case["recursive"])] + outside), {"targets": [sub] + outside, "recursive": case["recursive"]})
                        law("union-dir-plus-files", runs.cli(outside[:1] + [sub] + outside[1:], recursive=case["recursive"]),
                            union([f for f in paths if under(f, sub, case["recursive"])] + outside), {"targets": outside[:1] + [sub] + outside[1:], "recursive": case["recursive"]})
        # ---- CLI vs library
        if root_ms is not None:
            failures.extend(compare_lib(runs, ".", root_ms, prefix, paths, base))
        if sub and sub_rec_ms is not None:
            failures.extend(compare_lib(runs, sub, sub_rec_ms, prefix, paths, base))
        for i in case["libfiles"]:
            f = paths[i]
            ms = per.get(f) if f in per else runs.cli([f])
            if ms is not None:
                failures.extend(compare_lib(runs, f, ms, prefix, paths, base))
    viol_files = {k[1] for k in (root_ms or {})}
    ndirs = len({os.path.dirname(f) for f in paths})
    nontrivial = len(paths) >= 3 and ndirs >= 2 and len(viol_files) >= 2
    labels.append(f"files-with-violations={min(len(viol_files), 5)}")
    labels.append(f"dirs={ndirs}")
    if any(f.get("k") == -1 for f in files):
        labels.append("one-file-duplicate")
    if any("set" in f and f["k"] >= 0 for f in files):
        labels.append("cross-file-set")
    if any(f["p"].startswith("pkg/build/") for f in files):
        labels.append("file-in-excluded-dir")
    shape = sorted([os.path.dirname(f["p"]), f["lang"], ",".join(sorted(s[0] for s in f.get("snips", []))) or f.get("set") or f.get("special") or ""] for f in files)
    key = h([cmd, shape, len(case["subset"]), case["subdir"], case["recursive"], bool(case.get("explicit_config")), case.get("decoy")])
    return Case(key=key, nontrivial=nontrivial, labels=labels, failures=failures)


def _selfcheck_table():
    from src.cli_main import cli

    registered = set(cli.commands)
    missing = set(COMMANDS) - registered
    unknown = registered - set(COMMANDS) - NOT_LINTERS
    if missing:
        raise runner.HarnessError(f"C10 command table names commands that are not registered: {sorted(missing)}")
    return sorted(unknown)


def run(ctx):
    unknown = _selfcheck_table()
    if unknown and ctx.shard == 0:
        ctx.stats.notes.append(f"registered commands not covered by C10's table: {unknown}")
    ctx.explore(cases(), check, max_examples=ctx.n(40, 900))


def replay(case) -> Case:
    return check(case)
