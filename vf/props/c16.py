"""C16 - SRP linter applies its method, size and keyword thresholds exactly.

Generator: projects of 1-3 files (py / ts,tsx / js,jsx / rs; a later file often repeats the previous file's language), each
with 1-3 classes (py: nested classes and classes in
functions; rs: struct + 0-3 impl blocks, grouped or interleaved with other structs' blocks) whose members are drawn
from every kind the statement names (public, private, dunder, property, static/classmethod, constructor, async,
associated fn); method counts are drawn around the effective max_methods of the file's language and field lines are
padded so that the class's documented LOC lands on L-1 / L / L+1. Config: top-level max_methods/max_loc/check_keywords/
keywords, per-language override sections, and --max-methods/--max-loc.
Class names are NOT unique across the files of a run: top-level classes/structs of a later file may carry the names of an
earlier file's classes (every module has its own `Config`), in the same or another language; the files are given as the
directory or as explicit arguments in either order. A finite matrix (pair_cells) enumerates two files with a same-named
class x language pair x criterion (methods / LOC) x position of either class relative to the limit x way of passing.
Oracle (statement + docs/srp-linter.md): a class is reported (one srp.violation at its header line) iff m > M or
loc > L or (check_keywords and a configured keyword is a substring of its name); the message lists exactly the
exceeded criteria with the true numbers.
Known deviations of the tool are modelled explicitly (DEVIATIONS): a mismatch is a KNOWN finding only if the listed
deviation explains the observation exactly.
"""
from __future__ import annotations

import itertools
import re

from hypothesis import strategies as st

from vf import runner
from vf.engine import Case, Failure, h, live_first, deviation_sets
from vf.project import Project
from vf.render import c16_classes as rc

ID = "C16"
TECHNIQUE = ("Hypothesis-generated class/struct models rendered to py/ts/js/rs with ground-truth public-method count and LOC "
             "swept around the effective thresholds, vs. a reference verdict+message model; thresholds from top-level config, "
             "per-language overrides and CLI options")
RULE = (
    "case = 1-3 source files (py, ts/tsx, js/jsx, rs) x 1-3 classes/structs each + one srp configuration (top-level, "
    "per-language sections, CLI flags); class names may repeat across the files of a run (same or different language), files "
    "passed as directory / explicit arguments in either order; plus a 378-cell matrix of two files with a same-named class "
    "(language pair x criterion x below/on/above for each class x way of passing); members public/private/dunder/property/static/constructor and, for ts/js, quoted, numeric, "
    "computed and generator method names; method count m drawn around the effective M, padding makes LOC hit L-1/L/L+1. "
    "Non-trivial: at least one class exactly on a limit (m==M or loc==L, that criterion not exceeded) and at least one "
    "class just above one (m==M+1 or loc==L+1). Distinct = hash of per-class (language, member kinds, criteria fired, "
    "position relative to each limit, blank/comment lines present) + shape of the configuration (which keys at which level) "
    "+ whether a class name is shared by files of the same / of different languages."
)
ASSUMPTIONS = [
    "LOC per docs = non-blank, non-comment lines from the class header to its last line (rs: struct item + its impl blocks); "
    "no docstrings, decorators on classes, attributes on structs or trailing comments are generated",
    "TypeScript/JavaScript visibility = documented `_` prefix only; no private/protected modifiers, getters/setters, "
    "arrow-function fields, abstract method signatures or class expressions",
    "Rust methods are `pub fn name` (counted) or `fn _name` (not counted); plain `fn name` and `pub fn _name` are ambiguous in "
    "the docs and not generated; trait impls are not generated",
    "constructor (ts/js) is treated like Python's __init__ (not a public method)",
    "CLI --max-methods/--max-loc are only combined with per-language overrides of the *other* key (docs do not say which wins)",
    "custom keyword lists contain every default keyword that occurs in a generated name (docs do not say replace vs extend)",
    "keyword containment is literal (case-sensitive substring), as the statement says 'contains'",
    "a class is judged by the text of its own file only: classes/structs of the same name in other files of the run (Rust: "
    "impl blocks for a same-named struct of another module file) do not belong to it - the statement's 'a Rust struct together "
    "with its impl blocks' is read per file, as thai-lint lints file by file and has no crate/module resolution",
    "in-process CLI (click CliRunner) equals a fresh process; cross-checked on the first cases of every run",
]
BUDGET_S = {"quick": 100, "thorough": 1200}

MSG = re.compile(r"^Class '([^']+)' may violate SRP: (.+)$")
DEFAULT_KEYWORDS = ["Manager", "Handler", "Processor", "Utility", "Helper"]
CUSTOM_KEYWORDS = ["Service", "Repo", "Ctl"]
BASES = ["Alpha", "Bravo", "Delta", "Gamma", "Omega", "Sigma"]

# deviations of the implementation from the documented model; one known/C16.json signature "dev:<name>" each
DEVIATIONS = tuple(live_first("C16", ("ts-loc-physical", "rs-block-comment-counted", "ts-abstract-skipped", "rs-generic-impl-unattributed")))


# ------------------------------------------------------------------------------------ model


def effective(config, lang):
    """(M, L, check_keywords, keywords) for files of `lang` - docs 'Configuration Priority'."""
    top, langs, cli = config.get("top", {}), config.get("langs", {}), config.get("cli", {})
    sect = langs.get(rc.LANG_KEY[lang], {})
    out = []
    for key, default in (("max_methods", 7), ("max_loc", 200)):
        if key in sect:
            out.append(sect[key])
        elif key in cli:
            out.append(cli[key])
        elif key in top:
            out.append(top[key])
        else:
            out.append(default)
    return out[0], out[1], top.get("check_keywords", True), top.get("keywords", DEFAULT_KEYWORDS)


def expected_parts(info, lang, eff, devs=()):
    """criteria strings the message must list (empty = not reported)"""
    M, L, ck, kws = eff
    if "ts-abstract-skipped" in devs and info["abstract"]:
        return []
    m, loc = info["m"], info["loc"]
    if "ts-loc-physical" in devs and lang in ("ts", "js"):
        loc = info["phys"]
    if "rs-block-comment-counted" in devs and lang == "rs":
        loc = info["loc_block"]
    if "rs-generic-impl-unattributed" in devs and lang == "rs" and info["generic"]:
        m, loc = 0, info["struct_loc"]
    parts = []
    if m > M:
        parts.append(f"{m} methods (max: {M})")
    if loc > L:
        parts.append(f"{loc} lines (max: {L})")
    if ck and any(k in info["name"] for k in kws):
        parts.append("responsibility keyword in name")
    return parts


def applicable(info, lang):
    out = []
    if lang in ("ts", "js"):
        out.append("ts-loc-physical")
        if info["abstract"]:
            out.append("ts-abstract-skipped")
    if lang == "rs":
        out.append("rs-block-comment-counted")
        if info["generic"]:
            out.append("rs-generic-impl-unattributed")
    return out


# ------------------------------------------------------------------------------------ strategies

_opt = lambda s: st.one_of(st.none(), s)  # noqa: E731


@st.composite
def configs(draw):
    top = {}
    mm = draw(st.one_of(st.none(), st.integers(1, 8)))
    ml = draw(st.one_of(st.none(), st.integers(4, 40), st.integers(4, 40)))
    if mm is not None:
        top["max_methods"] = mm
    if ml is not None:
        top["max_loc"] = ml
    ck = draw(st.sampled_from([None, None, True, False]))
    if ck is not None:
        top["check_keywords"] = ck
    kw = draw(st.sampled_from(["default", "default", "custom", "custom+", "empty"]))
    if kw == "custom":
        top["keywords"] = DEFAULT_KEYWORDS + draw(st.lists(st.sampled_from(CUSTOM_KEYWORDS), min_size=1, max_size=2, unique=True))
    elif kw == "custom+":  # narrowed later so that every default keyword used in a name stays listed
        top["keywords"] = draw(st.lists(st.sampled_from(DEFAULT_KEYWORDS + CUSTOM_KEYWORDS), min_size=1, max_size=4, unique=True))
    elif kw == "empty":
        top["keywords"] = []
    langs = {}
    for key in ("python", "typescript", "javascript", "rust"):
        if draw(st.integers(0, 2)) == 0:
            sect = {}
            if draw(st.booleans()):
                sect["max_methods"] = draw(st.integers(1, 8))
            if draw(st.booleans()) or not sect:
                sect["max_loc"] = draw(st.integers(4, 40))
            langs[key] = sect
    cli = {}
    if draw(st.integers(0, 3)) == 0:
        cli["max_methods"] = draw(st.integers(1, 8))
    if draw(st.integers(0, 3)) == 0:
        cli["max_loc"] = draw(st.integers(4, 40))
    for key in cli:  # docs do not rank CLI flags against language sections: never both for one key
        for sect in langs.values():
            sect.pop(key, None)
    langs = {k: v for k, v in langs.items() if v}
    return {"top": top, "langs": langs, "cli": cli}


@st.composite
def members(draw, lang, m, clean):
    kinds = rc.KINDS[lang]
    ms = [{"kind": draw(st.sampled_from(kinds["counted"]))} for _ in range(m)]
    n_other = draw(st.integers(0, 3))
    has_ctor = False
    for _ in range(n_other):
        k = draw(st.sampled_from(kinds["other"]))
        if k == "ctor":
            if has_ctor:
                k = "priv"
            has_ctor = True
        ms.append({"kind": k})
    ms = list(draw(st.permutations(ms))) if len(ms) > 1 else ms
    for mem in ms:
        mem["body"] = draw(st.sampled_from([0, 0, 1, 2, 3]))
        if not clean:
            mem["blank"] = draw(st.booleans())
            mem["comment"] = draw(st.sampled_from([None, None, "line", "block"]))
            mem["inner"] = mem["body"] > 0 and draw(st.booleans())
        if lang == "rs":
            mem["impl"] = draw(st.integers(0, 2))
    return ms


def _measure(cls, lang):
    f = {"lang": lang, "classes": [dict(cls, in_func=False)]}
    _, infos = rc.render(f)
    return next(i for i in infos if i["name"] == cls["name"])


def _fit(cls, lang, target):
    """choose the number of padding field lines so that the documented LOC equals target (if reachable)"""
    l0 = _measure(cls, lang)["loc"]
    if target <= l0:
        return
    l1 = _measure(dict(cls, pad=1), lang)["loc"]
    if target >= l1:
        cls["pad"] = 1 + target - l1
        return
    # rs: `struct X;` -> `struct X {` f `}` jumps by two lines; use the braced form, which grows by one
    cls["unit"] = False
    l0 = _measure(cls, lang)["loc"]
    if target > l0:
        cls["pad"] = target - l0


@st.composite
def classes(draw, lang, eff, names, depth=0):
    M, L = eff[0], eff[1]
    rel = draw(st.sampled_from(["on", "on", "above", "above", "below", "free"]))
    m = {"on": M, "above": M + 1, "below": M - 1, "free": draw(st.integers(0, 3))}[rel]
    m = max(0, min(m, 10))
    clean = draw(st.booleans())
    base = draw(st.sampled_from(BASES))
    frag = draw(st.sampled_from([None, None, None] + DEFAULT_KEYWORDS[:3] + CUSTOM_KEYWORDS + ["manager", "HANDLER", "Manage"]))
    idx = len(names)
    name = base + f"{idx}" if frag is None else draw(st.sampled_from([f"{base}{frag}{idx}", f"{frag}{base}{idx}", f"{base}{idx}{frag}"]))
    if lang == "rs" or not name[0].isupper():
        name = name[0].upper() + name[1:] if name[0].isalpha() else "X" + name
    names.append(name)
    cls = {"name": name, "members": draw(members(lang, m, clean)), "pad": 0}
    if lang == "py":
        if depth == 0 and draw(st.integers(0, 3)) == 0:
            cls["nested"] = [draw(classes(lang, eff, names, depth + 1))]
        if depth == 0 and draw(st.integers(0, 5)) == 0:
            cls["in_func"] = True
        elif depth == 0 and draw(st.integers(0, 3)) == 0:
            # the class statement sits in a branch of a compound statement (conditional definitions, import fallbacks)
            cls["branch"] = draw(st.sampled_from(["if", "else", "elif", "try", "except", "try-else", "finally", "case", "with", "for-else"]))
    if lang in ("ts", "js"):
        cls["export"] = draw(st.booleans())
        cls["form"] = draw(st.sampled_from(["decl", "decl", "decl", "expr", "returned"]))
    if lang == "ts" and cls["form"] == "decl":
        cls["abstract"] = draw(st.integers(0, 7)) == 0
        cls["generic"] = draw(st.integers(0, 5)) == 0
    if lang == "rs":
        cls["export"] = draw(st.booleans())
        cls["generic"] = draw(st.integers(0, 7)) == 0
        cls["nimpl"] = draw(st.sampled_from([1, 1, 2, 3, 0])) if cls["members"] else draw(st.sampled_from([0, 1]))
        cls["unit"] = draw(st.booleans())
    lrel = draw(st.sampled_from(["on", "on", "above", "below", "free"]))
    if L > 60 and draw(st.integers(0, 3)) != 0:
        lrel = "free"  # default max_loc (200): long classes only now and then
    if lrel != "free":
        _fit(cls, lang, {"on": L, "above": L + 1, "below": L - 1}[lrel])
    return cls


@st.composite
def cases(draw):
    config = draw(configs())
    nfiles = draw(st.sampled_from([1, 2, 2, 3]))
    names = []
    files = []
    for i in range(nfiles):
        lang = draw(st.sampled_from(["py", "ts", "js", "rs"]))
        if i and draw(st.integers(0, 2)) == 0:
            lang = files[i - 1]["lang"]  # projects are mostly written in one language
        ext = draw(st.sampled_from({"py": [".py"], "ts": [".ts", ".ts", ".tsx"], "js": [".js", ".js", ".jsx"], "rs": [".rs"]}[lang]))
        eff = effective(config, lang)
        ncls = draw(st.sampled_from([1, 2, 2, 3]))
        f = {"lang": lang, "path": draw(st.sampled_from(["", "pkg/", "pkg/sub/"])) + f"m{i}{ext}",
             "classes": [draw(classes(lang, eff, names)) for _ in range(ncls)], "noise": draw(st.booleans())}
        if lang == "rs":
            f["order"] = draw(st.sampled_from(["grouped", "structs-first", "impls-first"]))
        files.append(f)
    # two outer classes of a Python file may both hold a nested class of the same name (Django's `class Meta`)
    for fi, f in enumerate(files):
        if f["lang"] == "py":
            inner = [n for c in f["classes"] for n in c.get("nested", [])]
            if len(inner) >= 2 and draw(st.booleans()):
                for n in inner:
                    n["name"] = f"Meta{fi}"
    # class names are not unique across the files of a project (every module has its own `Config` / `Error` / `Entry`):
    # top-level classes of a later file may carry the names of an earlier file's classes; each file is judged on its own
    for fi in range(1, nfiles):
        if draw(st.booleans()):
            src = files[draw(st.integers(0, fi - 1))]["classes"]
            for c, other in zip(files[fi]["classes"], src):
                if draw(st.integers(0, 3)) != 0:
                    c["name"] = other["name"]
    names = [c["name"] for f in files for c in _all_classes(f["classes"])]
    # docs do not say whether a custom keyword list replaces or extends the defaults: keep every default keyword that
    # occurs in a name (in any letter case) inside the custom list
    kws = config["top"].get("keywords")
    if kws is not None and kws != []:
        for d in DEFAULT_KEYWORDS:
            if d not in kws and any(d.lower() in n.lower() for n in names):
                kws.append(d)
    if kws == [] and draw(st.booleans()):
        # an empty list configures no keyword at all: names with a default keyword stay in every other case and must not be
        # reported for it; in the remaining cases only neutral names are used
        for f in files:
            for c in _all_classes(f["classes"]):
                for d in DEFAULT_KEYWORDS:
                    c["name"] = re.sub(d, "Node", c["name"], flags=re.I)
    return {"config": config, "files": files, "via": draw(st.sampled_from(["dir", "dir", "files", "files-rev"]))}


def _all_classes(cs):
    for c in cs:
        yield c
        yield from _all_classes(c.get("nested", []))


# ------------------------------------------------------------------------------------ check


def _yaml_config(config):
    srp = dict(config.get("top", {}))
    for k, v in config.get("langs", {}).items():
        srp[k] = dict(v)
    return {"srp": srp} if srp else None


def _validate_python(text):
    compile(text, "<c16>", "exec")  # a renderer bug must be a harness error, not a verdict


def check(case) -> Case:
    config = case["config"]
    rendered = []
    for f in case["files"]:
        text, infos = rc.render(f)
        if f["lang"] == "py":
            _validate_python(text)
        rendered.append((f, text, infos))
    args = ["srp", "--format", "json"]
    for key, flag in (("max_methods", "--max-methods"), ("max_loc", "--max-loc")):
        if key in config.get("cli", {}):
            args += [flag, str(config["cli"][key])]
    via = case.get("via", "dir")  # the directory, or the files as explicit arguments in either order
    paths = [f["path"] for f in case["files"]]
    args += ["."] if via == "dir" else paths if via == "files" else paths[::-1]
    failures, labels = [], []
    with Project({f["path"]: text for f, text, _ in rendered}, config=_yaml_config(config)) as p:
        r = runner.run_cli(args, cwd=p.root)
        root = p.root
        observed = {}
        if r.exit not in (0, 1) or r.swallowed or r.exception:
            failures.append(Failure("anomaly|run", {"exit": r.exit, "stderr": r.stderr[-400:], "swallowed": r.swallowed, "exc": r.exception, "args": args}))
            vs = []
        else:
            vs = r.violations
            if (r.exit == 1) != bool(vs):
                failures.append(Failure("anomaly|exit-code", {"exit": r.exit, "n": len(vs)}))
        for v in vs:
            observed.setdefault(runner.norm_path(v["file_path"], root, root), []).append(v)
    shape_classes = []
    on_limit = just_above = False
    if not (failures and failures[0].sig == "anomaly|run"):
        for f, text, infos in rendered:
            lang = f["lang"]
            eff = effective(config, lang)
            got = {}
            for v in observed.pop(f["path"], []):
                mm = MSG.match(v["message"])
                if v["rule_id"] != "srp.violation" or not mm:
                    failures.append(Failure(f"{lang}|unexpected-violation", {"violation": v, "source": text}))
                    continue
                got.setdefault(mm.group(1), []).append((v["line"], [s.strip() for s in mm.group(2).split(", ")]))
            for info in infos:
                M, L = eff[0], eff[1]
                exp = expected_parts(info, lang, eff)
                mrel = "on" if info["m"] == M else "above1" if info["m"] == M + 1 else "above" if info["m"] > M else "below"
                lrel = "on" if info["loc"] == L else "above1" if info["loc"] == L + 1 else "above" if info["loc"] > L else "below"
                on_limit = on_limit or mrel == "on" or lrel == "on"
                just_above = just_above or mrel == "above1" or lrel == "above1"
                fired = "+".join(("methods" if "methods" in p else "lines" if "lines" in p else "kw") for p in exp) or "none"
                labels += [f"lang={lang}", f"fired={fired}", f"m:{mrel}", f"loc:{lrel}"]
                if info["has_blank_or_comment"]:
                    labels.append(f"{lang}:blank/comment-lines")
                if info["nested"]:
                    labels.append("py:outer-of-nested")
                if info["abstract"]:
                    labels.append("ts:abstract")
                if info["generic"]:
                    labels.append(f"{lang}:generic")
                shape_classes.append([lang, info["kinds"], fired, mrel, lrel, info["has_blank_or_comment"], info["abstract"], info["generic"]])
                if sum(1 for x in infos if x["name"] == info["name"]) > 1:
                    # several classes of one file share this name (nested `class Meta` in two outer classes): told apart by line
                    obs = [o for o in got.get(info["name"], []) if o[0] == info["line"]]
                    got[info["name"]] = [o for o in got.get(info["name"], []) if o[0] != info["line"]]
                    if not got[info["name"]]:
                        got.pop(info["name"])
                else:
                    obs = got.pop(info["name"], [])
                bad = _judge(info, exp, obs)
                if bad is None:
                    continue
                # does a modelled deviation explain the observation exactly?
                known = None
                app = applicable(info, lang)
                for devs in deviation_sets("C16", app):
                    if _judge(info, expected_parts(info, lang, eff, devs), obs) is None:
                        known = devs
                        break
                detail = {"lang": lang, "class": info["name"], "truth": {k: info[k] for k in ("m", "loc", "phys", "line")},
                          "effective": {"max_methods": M, "max_loc": L, "check_keywords": eff[2], "keywords": eff[3]},
                          "expected_criteria": exp, "observed": obs, "config": config, "file": f["path"], "source": text}
                if known:
                    for d in known:
                        failures.append(Failure(f"dev:{d}", detail))
                else:
                    failures.append(Failure(f"{lang}|{bad}", detail))
            for name, obs in got.items():
                failures.append(Failure(f"{lang}|report-for-unknown-class", {"name": name, "observed": obs, "source": text}))
        for path, vs in observed.items():
            failures.append(Failure("anomaly|violation-in-unknown-file", {"path": path, "violations": vs[:3]}))
    labels.append("langs=" + str(len({f["lang"] for f in case["files"]})))
    # class names that occur in more than one file of the run (same language: one analyzer sees both)
    owners = {}
    for f, _, infos in rendered:
        for name in {i["name"] for i in infos}:
            owners.setdefault(name, []).append(f["lang"])
    shared = set()
    for ls in owners.values():
        if len(ls) > 1:
            kind = "same-lang" if len(set(ls)) < len(ls) else "cross-lang"
            shared.add(kind)
            labels += [f"shared-name:{kind}:{lang}" for lang in sorted(set(ls))]
    shared = sorted(shared)
    labels += [f"shared-name:{kind}" for kind in shared]
    if len(case["files"]) > 1:
        labels.append("via=" + via)
    if config.get("langs"):
        labels.append("cfg:lang-override")
        present = {rc.LANG_KEY[f["lang"]] for f in case["files"]}
        if set(config["langs"]) & present and present - set(config["langs"]):
            labels.append("cfg:override-for-some-languages-present")
    if config.get("cli"):
        labels.append("cfg:cli")
    for k in config.get("top", {}):
        labels.append(f"cfg:top.{k}")
    shape_cfg = [sorted(config.get("top", {})), {k: sorted(v) for k, v in sorted(config.get("langs", {}).items())}, sorted(config.get("cli", {}))]
    key = h([sorted(shape_classes, key=repr), shape_cfg, shared])
    return Case(key=key, nontrivial=on_limit and just_above, labels=labels, failures=failures)


def _judge(info, exp, obs):
    """None if the observation equals the expectation, else a categorical mismatch kind."""
    if not exp:
        if not obs:
            return None
        crit = "+".join(sorted(_crit(p) for p in obs[0][1]))
        return f"extra|{crit}"
    if not obs:
        return "missing|" + "+".join(sorted(_crit(p) for p in exp))
    if len(obs) > 1:
        return "reported-twice"
    line, parts = obs[0]
    if sorted(parts) != sorted(exp):
        e, o = {_crit(p): p for p in exp}, {_crit(p): p for p in parts}
        if set(e) != set(o):
            miss = "+".join(sorted(set(e) - set(o))) or "-"
            extra = "+".join(sorted(set(o) - set(e))) or "-"
            return f"criteria|lacks:{miss}|adds:{extra}"
        wrong = sorted(k for k in e if e[k] != o[k])
        return "numbers|" + "+".join(wrong)
    if line != info["line"]:
        return "line"
    return None


def _crit(part):
    return "methods" if " methods (max:" in part else "lines" if " lines (max:" in part else "kw" if "keyword" in part else "other"


# ------------------------------------------------------------------------------------ same-named classes in two files


PAIR_LANGS = [("py", "py"), ("ts", "ts"), ("js", "js"), ("rs", "rs"), ("py", "rs"), ("ts", "js"), ("rs", "ts")]
PAIR_M, PAIR_L = 3, 12


def _pair_class(lang, name, crit, rel, second):
    """one class named `name`; `crit` ("m" | "loc") sits below / on / above its limit, the other criterion far below"""
    d = {"below": -1, "on": 0, "above": 1}[rel]
    m = PAIR_M + d if crit == "m" else 1
    cls = {"name": name, "pad": 0, "members": [{"kind": "pub", "body": 0, "impl": i % 2} for i in range(m)]}
    if lang in ("ts", "js"):
        cls.update(export=second, form="decl")
    if lang == "rs":
        cls.update(export=True, generic=False, nimpl=2 if second else 1, unit=False)
    if crit == "loc":
        _fit(cls, lang, PAIR_L + d)
    return cls


def pair_cells():
    """two files that each define a class/struct of the SAME name x language pair x criterion x position of either class
    relative to the limit x how the files are passed (directory, explicit files in both orders)"""
    ext = {"py": ".py", "ts": ".ts", "js": ".js", "rs": ".rs"}
    cells = []
    for (la, lb), crit, ra, rb, via in itertools.product(PAIR_LANGS, ("m", "loc"), ("below", "on", "above"), ("below", "on", "above"),
                                                         ("dir", "files", "files-rev")):
        files = []
        for i, (lang, rel) in enumerate(((la, ra), (lb, rb))):
            f = {"lang": lang, "path": ("client", "server")[i] + ext[lang], "noise": False,
                 "classes": [_pair_class(lang, "Config", crit, rel, bool(i)), _pair_class(lang, f"Local{i}", crit, "on", False)]}
            if lang == "rs":
                f["order"] = "grouped"
            files.append(f)
        cells.append({"config": {"top": {"max_methods": PAIR_M, "max_loc": PAIR_L, "check_keywords": False}, "langs": {}, "cli": {}},
                      "files": files, "via": via})
    return cells


def run(ctx):
    cells = pair_cells()
    ctx.each(ctx.my_cells(cells), check, exhaustive_label="same-name-pairs")
    ctx.explore(cases(), check, max_examples=ctx.n(250, 4000))


def replay(case) -> Case:
    return check(case)
