"""C20 - config tooling never loses user settings and only writes validated values.

A case is a *history*: an optional existing config file (abstract description rendered to YAML/JSON text by
vf/render/c20_yaml.py) plus a list of commands (init-config with/without --force, config set/get/show/reset) that are
run one after the other in a scratch directory through the real CLI. After every step the invariants of the
statement are checked against the file bytes before/after, the exit code and stdout:

non-forced init-config on an existing valid file
    exit 0; result is valid YAML (a mapping); every pre-existing top-level key keeps its parsed value; the
    configuration the linters get (src.linter_config.loader.LinterConfigLoader, and the findings of five linters on a
    probe file) is unchanged for every pre-existing section; exactly the missing linter sections of the tool's own
    fresh file are added, with the preset's values; every existing non-blank line survives in order (comments
    verbatim); a second run (any preset) leaves the bytes unchanged.
config set
    documented constraints (validate_config) decide accept/reject for the known keys; rejected -> exit != 0 and
    file bytes (or absence) unchanged, and save_config() of that configuration raises without writing (.yaml and
    .json); accepted -> exit 0, `config get K` prints the documented conversion of the value, the file still loads,
    other keys are unchanged, and load_config(save_config(cfg)) == cfg for .yaml and .json. Later `get`s of the same
    key (also after a merge) still print the value.
config reset -> same configuration as having no file; get/show never touch the file.

Second part (finite matrix): every preset x every linter command x way of delivering the generated file: the
generated file parses, has no placeholder left, and the command exits 0/1 with a JSON report.

Shared configuration (YAML anchors): an existing file may deliver part of its content through anchors - linter
sections (or other keys) collected in one or two anchored holder mappings and merged back at the top level with
`<<: *a` / `<<: [*a, *b]`, a section written as an alias `nesting: *a`, a user key that is an alias of an anchored
section, a section that starts with `<<: *a`. `apply_share` rewrites the drawn item list into such a form (the parsed
mapping keeps every key and value); a third of the drawn YAML documents use it, and a finite matrix (`share_cells`:
way of sharing x holder style x document style x position x preset) runs one non-forced init-config on each form.
The oracle is unchanged: "pre-existing setting" = key of the mapping the file parses to (yaml.safe_load, the loader
thai-lint reads its configuration with), so a section that arrives through a merge key is present, must not be
added again, and must keep its value and stay in effect.

A history stops at its first failing step (later steps would only observe the consequences).
"""
from __future__ import annotations

import hashlib
import json
import os
import re
from pathlib import Path

import yaml
from hypothesis import strategies as st

from vf import runner
from vf.engine import Case, Failure, h
from vf.project import Project
from vf.render import c20_yaml as ry

ID = "C20"
TECHNIQUE = ("Hypothesis-generated command histories (existing YAML/JSON config x init-config/config set/get/show/reset "
             "sequences) interpreted step by step with before/after invariants; finite preset x command x carrier matrix")
RULE = (
    "case = {file name, abstract existing config (subset of linter sections in hyphen/underscore spelling, documented "
    "option values, unknown sections/keys, comments incl. template look-alikes, block/flow, quoted keys, ---, CRLF, no "
    "final newline, indent; in 1/3 of the YAML files part of the content is delivered through anchors: top-level merge key "
    "`<<: *a` / `<<: [*a, *b]` over anchored holder mappings, section as alias, alias of a section, merge key inside a "
    "section) or none, 1..8 commands}. Non-trivial: (a non-forced init-config runs on a config that has "
    ">=1 but not all template sections and >=1 comment or extra key) or (a rejected `config set` follows an accepted "
    "one). Distinct = hash of (file kind, section subset with spelling/style/quoting, style features, sequence of "
    "step kinds with outcome class). Preset matrix cells and shared-configuration matrix cells (9 ways of sharing x holder block/flow x 3 document styles x 2 "
    "positions, presets cycled) are all distinct and non-trivial."
)
ASSUMPTIONS = [
    "an 'existing valid configuration' is a YAML document that safe_load maps to a dict with string keys; a linter section is spelled with hyphens or underscores, never both in one file",
    "the set of linter sections init-config is expected to add is read from the tool's own freshly generated file (top-level mappings that carry an `enabled` key)",
    "validation rules are those documented by validate_config: log_level in DEBUG..CRITICAL, output_format in text/json/yaml, max_retries non-negative integer, timeout positive number, app_name non-empty string; values on which the rule's wording is open (bool for a number, other letter case, numeric app_name) only get the exit-code-independent invariants",
    "`config set` values are restricted to strings whose documented conversion (true/false -> bool, integer, float, else string) is unambiguous (no `1_000`, `+5`, ` 7`, `inf`, `nan`, leading zeros)",
    "config set/get/show/reset are always run with the group option --config <file> (the default location is computed from the cwd at import time and would differ between in-process and subprocess execution)",
    "block scalars are generated only as one `|+` literal at the end of the file; folded scalars, multi-document files and an explicit `...` end marker are not generated",
    "anchors/aliases are generated in four forms (top-level merge key over one or two anchored holder mappings, alias as a section's value, alias of an anchored section, merge key as the first entry of a section); the merge key `<<` means what yaml.safe_load - the loader thai-lint reads configuration files with - makes of it (YAML 1.1 merge: explicit keys win), so a key that arrives through a top-level merge is a pre-existing setting of the file; holder mappings and merged keys are disjoint from the file's explicit keys",
    "in-process CLI (click CliRunner) equals a fresh process; two fixed histories are cross-checked in subprocess mode on shard 0",
]
BUDGET_S = {"quick": 100, "thorough": 1300}

PRESETS = ["strict", "standard", "lenient"]
LEVELS = ["DEBUG", "INFO", "WARNING", "ERROR", "CRITICAL"]
FORMATS = ["text", "json", "yaml"]
MARKER = " " + "=" * 76 + "\n GLOBAL SETTINGS"  # comment text (after '#') of the template's marker lines
PROBE_CMDS = {"magic-numbers": "magic-numbers", "nesting": "nesting", "srp": "srp",
              "print-statements": "print-statements", "method-property": "method-property",
              "improper-logging": "improper-logging"}  # (the documented name of the print-statements linter's section)
SYNONYM = {"print-statements": "improper-logging", "pipeline": "collection-pipeline"}  # template name -> the linter's other section name
# deviation of the tool that is recorded as a known finding: template sections the merge never adds
NEVER_ADDED = {"performance", "unwrap-abuse", "clone-abuse", "blocking-async"}
# failures after which the file is still a faithful basis for the following steps (the history goes on)
NON_CORRUPTING = {"merge|missing-section-not-added|performance+rust-sections"}

PROBE = '''"""Probe module."""


class Box:
    def __init__(self):
        self.items = [1]

    def size(self):
        return len(self.items)

    def first(self):
        item = self.items[0]
        return item

    def total(self):
        acc = 0
        for item in self.items:
            if item > 0:
                if item % 2 == 0:
                    acc += item
        return acc

    def label(self):
        return "box"


def scale(v):
    print("scaling")
    return v * 77 + 42


if __name__ == "__main__":
    print(scale(1))
'''
PROBE_TS = "export function area(w: number): number {\n  console.log(w);\n  return w * 37;\n}\n"
PROBE_RS = "pub fn first(v: Vec<i32>) -> i32 {\n    let c = v.clone();\n    *c.first().unwrap()\n}\n"

# ------------------------------------------------------------------------------------ generation

_b = st.booleans()
_globs = st.lists(st.sampled_from(["tests/**", "**/migrations/**", "scripts/*.py", "build/", "*.gen.ts"]), min_size=1, max_size=3, unique=True)
OPTIONS = {
    "magic-numbers": {"enabled": _b, "allowed_numbers": st.lists(st.sampled_from([-1, 0, 1, 2, 7, 42, 77, 100, 3600, 0.5]), min_size=1, max_size=6, unique=True),
                      "max_small_integer": st.integers(1, 20), "ignore": _globs},
    "nesting": {"enabled": _b, "max_nesting_depth": st.integers(1, 6)},
    "srp": {"enabled": _b, "max_methods": st.integers(1, 12), "max_loc": st.integers(10, 400), "check_keywords": _b,
            "keywords": st.lists(st.sampled_from(["Manager", "Handler", "Util", "Helper"]), min_size=1, max_size=3, unique=True)},
    "dry": {"enabled": _b, "min_duplicate_lines": st.integers(3, 10), "min_occurrences": st.integers(2, 4), "cache_enabled": _b, "ignore": _globs},
    "file-placement": {"directories": st.just({"src": {"allow": ["^src/.*\\.py$"]}, "tests": {"allow": [".*test.*"]}}),
                       "global_patterns": st.just({"deny": [{"pattern": ".*\\.tmp$", "reason": "no temp files"}]})},
    "print-statements": {"enabled": _b, "allow_in_scripts": _b, "console_methods": st.lists(st.sampled_from(["log", "warn", "error", "debug", "info"]), min_size=1, max_size=4, unique=True), "ignore": _globs},
    "stringly-typed": {"enabled": _b, "min_occurrences": st.integers(2, 5), "min_values_for_enum": st.integers(2, 3), "max_values_for_enum": st.integers(4, 9), "require_cross_file": _b},
    "file-header": {"enabled": _b, "enforce_atemporal": _b, "ignore": _globs},
    "method-property": {"enabled": _b, "max_body_statements": st.integers(1, 5), "ignore_methods": st.lists(st.sampled_from(["__str__", "first", "label"]), min_size=1, max_size=2, unique=True)},
    "stateless-class": {"enabled": _b, "min_methods": st.integers(1, 5)},
    "pipeline": {"enabled": _b, "min_continues": st.integers(1, 3)},
    "lazy-ignores": {"enabled": _b, "check_noqa": _b, "check_type_ignore": _b, "check_orphaned": _b},
    "performance": {"enabled": _b, "string-concat-loop": st.just({"enabled": True, "report_each_concat": True}), "regex-in-loop": st.just({"enabled": False})},
    "unwrap-abuse": {"enabled": _b, "allow_in_tests": _b, "allow_expect": _b},
    "clone-abuse": {"enabled": _b, "allow_in_tests": _b, "detect_clone_in_loop": _b, "detect_clone_chain": _b},
    "blocking-async": {"enabled": _b, "allow_in_tests": _b, "detect_fs_in_async": _b, "detect_sleep_in_async": _b},
    # documented sections that are not in the template
    "collection-pipeline": {"enabled": _b, "min_continues": st.integers(1, 3)},
    "improper-logging": {"enabled": _b, "allow_in_scripts": _b},
    "lbyl": {"enabled": _b, "detect_dict_key": _b, "detect_hasattr": _b},
}
TEMPLATE_NAMES = list(OPTIONS)[:16]
EXTRA_ITEMS = [
    ("team-rules", {"owner": "platform", "level": 3, "tags": ["a", "b c"]}),
    ("custom_block", {"nested": {"deep": [1, 2, {"k": "v: w"}]}}),
    ("project_owner", "platform team"),
    ("exclude", [".git/", "build/", "*.pyc"]),
    ("ignore", ["tests/**", "docs/"]),
    ("fail_on_violations", True),
    ("schema", 2),
    ("note", "has # hash and: colon"),
    ("greeting", "Hi there"),
    ("log_level", "DEBUG"),
    ("max_retries", 5),
    ("empty_section", None),
]
COMMENTS = [
    " team: platform", " TODO raise this later", "no-space comment", " größe ✓ naïve", " ===== custom section =====",
    " ============================================================================", " GLOBAL SETTINGS",
    " NESTING LINTER", " magic-numbers:", " nesting: {max_nesting_depth: 9}", " key: value # nested hash", "", "# doubled",
    " ----------------------------------------------------------------------", MARKER, MARKER + "\n " + "=" * 76,
]
_comment = st.one_of(st.sampled_from(COMMENTS), st.text(alphabet="abcdefgh XYZ:#-=_'\"[]{},.!?0129", min_size=1, max_size=20).map(lambda s: " " + s.rstrip()))


HOLDERS = ["_shared", "x-defaults", "definitions"]
SHARE_MODES = ["merge-top", "alias-section", "alias-of-section", "merge-in-section"]


def apply_share(items: list, plan: dict) -> list:
    """Rewrite a list of top-level items so that part of it is delivered through YAML anchors (pure function of its
    arguments; the parsed mapping keeps every original key with its original value and gains the holder keys).

    merge-top         k items move into one or two anchored holder mappings that a top-level `<<: *a` / `<<: [*a, *b]` merges back in
    alias-section     one item's value moves to an anchored holder key, the item becomes `key: *a`
    alias-of-section  one item gets an anchor and a further user key is an alias of it
    merge-in-section  some options of one section move to an anchored holder, the section starts with `<<: *a`
    """
    items = [dict(it) for it in items]
    used = {it["key"] for it in items}
    names = [n for n in HOLDERS if n not in used]
    mode, hstyle = plan["mode"], plan["hstyle"]
    if not items:
        return items
    if mode == "merge-top":
        k = 1 + plan["pick"] % min(3, len(items))
        moved, rest = items[:k], items[k:]
        groups = [moved[:1], moved[1:]] if (plan["two"] and k >= 2) else [moved]
        holders = [{"key": names[n], "quote": "", "style": hstyle, "anchor": f"a{n}", "value": {it["key"]: it["value"] for it in grp}} for n, grp in enumerate(groups)]
        merge = {"key": "<<", "style": "merge", "refs": [hd["anchor"] for hd in holders][::-1 if plan["as_list"] else 1], "as_list": plan["as_list"]}
        i = plan["i"] % (len(rest) + 1)
        j = i + plan["j"] % (len(rest) - i + 1)
        return rest[:i] + holders + rest[i:j] + [merge] + rest[j:]
    if mode in ("alias-section", "alias-of-section"):
        x = plan["pick"] % len(items)
        it = items[x]
        if mode == "alias-section":
            holder = {"key": names[0], "quote": "", "style": hstyle, "anchor": "a0", "value": it["value"]}
            items[x] = {"key": it["key"], "quote": it.get("quote", ""), "style": "alias", "ref": "a0"}
            i = plan["i"] % (x + 1)
            return items[:i] + [holder] + items[i:]
        it["anchor"] = "a0"
        copy = {"key": "team-copy", "quote": "", "style": "alias", "ref": "a0"}
        i = x + 1 + plan["i"] % (len(items) - x)
        return items[:i] + [copy] + items[i:]
    # merge-in-section
    cands = [n for n, it in enumerate(items) if isinstance(it["value"], dict) and it["value"]]
    if not cands:
        return items
    x = cands[plan["pick"] % len(cands)]
    it = items[x]
    keys = list(it["value"])
    m = 1 + plan["j"] % len(keys)
    holder = {"key": names[0], "quote": "", "style": hstyle, "anchor": "a0", "value": {k: it["value"][k] for k in keys[:m]}}
    it["value"] = {k: it["value"][k] for k in keys[m:]}
    it["merge_from"] = "a0"
    i = plan["i"] % (x + 1)
    return items[:i] + [holder] + items[i:]


_share_plans = st.fixed_dictionaries({"mode": st.sampled_from(SHARE_MODES + ["merge-top"]), "hstyle": st.sampled_from(["block", "flow"]), "pick": st.integers(0, 11),
                                      "two": _b, "as_list": _b, "i": st.integers(0, 11), "j": st.integers(0, 11)})


@st.composite
def docs(draw, json_file=False):
    names = draw(st.lists(st.sampled_from(list(OPTIONS)), unique=True, max_size=6)) if draw(st.integers(0, 9)) else \
        draw(st.lists(st.sampled_from(list(OPTIONS)), unique=True, min_size=10, max_size=len(OPTIONS)))
    items = []
    underscore_doc = draw(st.integers(0, 4)) == 0  # a minority of files use the underscore spelling of section names
    for n in names:
        opts = OPTIONS[n]
        keys = draw(st.lists(st.sampled_from(list(opts)), unique=True, max_size=4))
        value = {k: draw(opts[k]) for k in keys}
        if not value and draw(_b):
            value = None
        spelled = n.replace("-", "_") if ("-" in n and underscore_doc and draw(_b)) else n
        items.append({"key": spelled, "quote": draw(st.sampled_from(["", "", "", "'", '"'])), "style": draw(st.sampled_from(["block", "block", "flow"])), "value": value})
    for k, v in draw(st.lists(st.sampled_from(EXTRA_ITEMS), unique_by=lambda kv: kv[0], max_size=3)):
        items.append({"key": k, "quote": "", "style": draw(st.sampled_from(["block", "flow"])), "value": v})
    items = draw(st.permutations(items)) if items else []
    doc = {"items": [dict(it) for it in items]}
    if json_file:
        return doc
    if draw(st.integers(0, 2)) == 0:
        # part of the configuration is shared through YAML anchors / aliases / merge keys
        doc["items"] = apply_share(doc["items"], draw(_share_plans))
    doc["doc_flow"] = draw(st.integers(0, 7)) == 0
    doc["start_marker"] = draw(st.integers(0, 7)) == 0
    doc["crlf"] = draw(st.integers(0, 7)) == 0
    doc["final_newline"] = draw(st.integers(0, 5)) != 0
    doc["indent"] = draw(st.sampled_from([2, 2, 2, 4]))
    doc["blank_between"] = draw(st.integers(0, 3)) != 0
    doc["head"] = draw(st.lists(_comment, max_size=2))
    doc["tail"] = draw(st.lists(_comment, max_size=1)) if not doc["doc_flow"] else []
    if not doc["doc_flow"]:
        for it in doc["items"]:
            it["before"] = draw(st.lists(_comment, max_size=2)) if draw(_b) else []
            tr = draw(st.one_of(st.none(), st.none(), _comment))
            it["trail"] = tr.replace("\n", " ") if tr else None
            if it["trail"] is not None and not it["trail"].strip():
                it["trail"] = None
            if draw(st.integers(0, 3)) == 0:
                it["inner"] = [[draw(st.integers(0, 3)), draw(st.sampled_from(["indented", "col0"])), draw(_comment)]]
        if draw(st.integers(0, 14)) == 0:
            # a literal block scalar with keep chomping (|+) as the last entry: its trailing blank lines are part of the value
            doc["items"].append({"key": "release_notes", "quote": "", "style": "literal-keep", "before": [], "trail": None,
                                 "value": "first line\n  indented: text # not a comment\n" + "\n" * draw(st.integers(0, 3))})
            doc["tail"] = []
            doc["final_newline"] = True
    return doc


_free_text = st.text(alphabet=st.characters(blacklist_categories=("Cs", "Cc")), max_size=12)
_name_text = st.text(alphabet="abcdefghijklmnopqrstuvwxyzABC -_.üé", min_size=1, max_size=10)
CUSTOM_KEYS = ["team", "owner_email", "retry_policy", "Mixed_Case", "a.b", "Größe", "x-owner", "my-key", "log-level"]


def _num_strings():
    return st.one_of(st.integers(-10**6, 10**12).map(str), st.floats(allow_nan=False, allow_infinity=False, width=64).map(repr),
                     st.sampled_from(["0", "1", "-1", "2.5", "0.0", "-0.5", "1e-05", "3.0", "inf", "-inf", "nan", "1e999", "Infinity"]))


@st.composite
def set_steps(draw):
    kind = draw(st.sampled_from(["valid", "valid", "invalid", "invalid", "custom", "free", "retype", "retype"]))
    if kind == "valid":
        k = draw(st.sampled_from(["log_level", "output_format", "max_retries", "timeout", "app_name", "greeting", "version"]))
        v = draw({"log_level": st.sampled_from(LEVELS), "output_format": st.sampled_from(FORMATS),
                  "max_retries": st.integers(0, 10**6).map(str),
                  "timeout": st.one_of(st.integers(1, 10**6).map(str), st.floats(min_value=1e-6, max_value=1e9, allow_nan=False).map(repr)),
                  "app_name": _name_text, "greeting": st.one_of(_free_text, _name_text), "version": st.sampled_from(["1.2.3", "2.0", "v9", "7"])}[k])
    elif kind == "invalid":
        k = draw(st.sampled_from(["log_level", "output_format", "max_retries", "timeout", "app_name"]))
        v = draw({"log_level": st.sampled_from(["LOUD", "verbose", "5", "", "TRACE", "debug", "true"]),
                  "output_format": st.sampled_from(["xml", "sarif", "0", "", "TEXT", "false"]),
                  "max_retries": st.one_of(st.integers(-10**6, -1).map(str), st.sampled_from(["2.5", "many", "", "1.0", "true"])),
                  "timeout": st.one_of(st.sampled_from(["0", "0.0", "-3", "-0.5", "soon", "", "false", "true"]), st.floats(max_value=0, min_value=-1e9).map(repr)),
                  "app_name": st.sampled_from([" ", "", "\t", "   ", "12", "true"])}[k])
    elif kind == "retype":
        # few keys x values that compare equal across types (True == 1 == 1.0, 30 == 30.0 ...): a later set of the
        # "same" value in another type must still be stored and returned as given (defaults: timeout 30, max_retries 3)
        k = draw(st.sampled_from(["team", "retry_policy", "timeout", "timeout"]))
        v = draw(st.sampled_from(["30", "30.0", "3", "3.0", "1.0", "inf", "inf", "1e999"] if k == "timeout" else ["true", "1", "1.0", "false", "0", "0.0", "3.0", "inf", "-inf"]))  # (no nan: nan != nan would make every equality oracle meaningless)
    elif kind == "custom":
        k = draw(st.sampled_from(CUSTOM_KEYS))
        v = draw(st.one_of(_num_strings(), st.sampled_from(["true", "False", "TRUE", "LOUD", "-x", "null", "~", "yes", "2024-01-01", "0x1F", "1:30", "[a, b]", "{a: 1}", "a: b", "# c", "'q'", "*ref", "&a", "!tag", "@at", "`t`", "%p", "|", ">", "- item", "? k", "", " lead", "trail ", "é✓", "line1\nline2", "tab\there", "\u2028sep", "\x85nel"]), _free_text))
    else:
        k = draw(st.sampled_from(["greeting", "version", "team", "retry_policy"]))
        v = draw(_free_text)
    if not convert(v)[0] and kind != "retype":
        v = v + "x"  # narrowing: only values whose documented conversion is unambiguous (see ASSUMPTIONS)
    # ("retype" keeps inf / nan / 1e999: whether they are accepted is left open, but a rejected `set` must leave the
    #  file untouched and an accepted one must leave a file that still loads - those invariants hold for every value)
    return {"op": "set", "key": k, "value": v, "dd": draw(st.integers(0, 9)) != 0}


@st.composite
def init_steps(draw):
    return {"op": "init", "preset": draw(st.sampled_from([None] + PRESETS)), "force": draw(st.integers(0, 7)) == 0,
            "again": draw(st.sampled_from([None] + PRESETS))}


def _get_steps(keys):
    return st.builds(lambda k: {"op": "get", "key": k}, st.sampled_from(keys))


@st.composite
def cases(draw):
    file = draw(st.sampled_from([".thailint.yaml", ".thailint.yaml", ".thailint.yaml", "config.yaml", "lint.yml", "conf/custom.yaml", "settings.json", "settings.json"]))
    is_json = file.endswith(".json")
    doc = draw(st.one_of(st.none(), docs(json_file=is_json), docs(json_file=is_json), docs(json_file=is_json)))
    flavour = draw(st.sampled_from(["merge", "merge", "mixed", "mixed", "set"])) if not is_json else "set"
    getkeys = ["log_level", "output_format", "max_retries", "timeout", "app_name", "greeting", "version", "nope"] + CUSTOM_KEYS
    other = st.one_of(set_steps(), set_steps(), set_steps(), _get_steps(getkeys), st.just({"op": "show"}), st.just({"op": "reset"}))
    if flavour == "merge":
        steps = [draw(init_steps())] + draw(st.lists(st.one_of(init_steps(), other), max_size=2))
    elif flavour == "mixed":
        steps = draw(st.lists(st.one_of(init_steps(), other, other), min_size=1, max_size=8))
    else:
        steps = draw(st.lists(other, min_size=1, max_size=8))
    sets = [x for x in steps if x["op"] == "set"]
    if sets and draw(_b):
        # come back to a key that was set earlier (possibly across a merge): the accepted value must still be returned
        k = draw(st.sampled_from(sets))["key"]
        if not is_json and draw(_b):
            steps = steps + [{"op": "init", "preset": draw(st.sampled_from([None] + PRESETS)), "force": False, "again": None}]
        steps = steps + [{"op": "get", "key": k}]
    return {"kind": "history", "file": file, "doc": doc, "steps": steps, "probe": draw(st.integers(0, 3)) != 0}


# ------------------------------------------------------------------------------------ the specification side


def convert(raw: str):
    """Documented conversion of a `config set` value. -> (ok, value); ok False = wording leaves it open."""
    low = raw.lower()
    if low in ("true", "false"):
        return True, low == "true"
    if re.fullmatch(r"0|-?[1-9][0-9]*", raw):
        return True, int(raw)
    for conv in (int, float):
        try:
            val = conv(raw)
        except ValueError:
            continue
        if conv is float and repr(val) == raw and val == val and val not in (float("inf"), float("-inf")):
            return True, val
        return False, None  # Python would convert it, the documentation does not obviously say so
    return True, raw


def verdict(key: str, raw: str):
    """-> 'accept' | 'reject' | 'open' according to the documented validation rules."""
    ok, val = convert(raw)
    if not ok:
        return "open"
    is_bool = isinstance(val, bool)
    if key != key.replace("-", "_") and key.replace("-", "_") in ("log_level", "output_format", "max_retries", "timeout", "app_name"):
        return "open"  # `log-level`: the same setting as log_level (config files accept both spellings) or a free key? both readings allowed
    if key == "log_level":
        if isinstance(val, str) and val in LEVELS:
            return "accept"
        return "open" if isinstance(val, str) and val.upper() in LEVELS else "reject"
    if key == "output_format":
        if isinstance(val, str) and val in FORMATS:
            return "accept"
        return "open" if isinstance(val, str) and val.lower() in FORMATS else "reject"
    if key == "max_retries":
        if is_bool:
            return "open"
        return "accept" if isinstance(val, int) and val >= 0 else "reject"
    if key == "timeout":
        if is_bool:
            return "open"
        return "accept" if isinstance(val, (int, float)) and val > 0 else "reject"
    if key == "app_name":
        if not isinstance(val, str):
            return "open"
        return "accept" if val.strip() else "reject"
    return "accept"


def canon(k) -> str:
    return k.replace("_", "-") if isinstance(k, str) else k


# ------------------------------------------------------------------------------------ execution helpers

_MODE = {"sub": False}
TRACE: list = []


def _cli(args, cwd):
    r = runner.run_cli_sub(args, cwd) if _MODE["sub"] else runner.run_cli(args, cwd)
    return r


def _read(path):
    try:
        with open(path, "rb") as fh:
            return fh.read()
    except FileNotFoundError:
        return None


def _parse(data: bytes | None, is_json=False):
    """-> mapping or None when not a valid configuration document."""
    if data is None:
        return None
    try:
        text = data.decode("utf-8")
        d = json.loads(text) if is_json else yaml.safe_load(text)
    except (UnicodeDecodeError, ValueError, yaml.YAMLError):
        return None
    if d is None and not is_json:
        return {}
    return d if isinstance(d, dict) else None


def _root_is_flow(data: bytes) -> bool:
    try:
        node = yaml.compose(data.decode("utf-8"))
    except Exception:
        return False
    return bool(node is not None and getattr(node, "flow_style", False))


def _effective(path):
    """What the linters are handed for this file (public loader API)."""
    from src.linter_config.loader import LinterConfigLoader

    try:
        return LinterConfigLoader().load(Path(path))
    except Exception as e:  # noqa: BLE001 - reported by the caller as part of the observation
        return {"__load_error__": f"{type(e).__name__}: {e}"[:200]}


_FRESH: dict = {}


def fresh(preset: str | None):
    """The tool's own freshly generated file for a preset -> (text, mapping, linter section names)."""
    key = (preset, _MODE["sub"])
    if key not in _FRESH:
        with Project(marker=False) as p:
            args = ["init-config", "--non-interactive", "--output", "fresh.yaml"] + (["--preset", preset] if preset else [])
            r = _cli(args, p.root)
            data = _read(p.path("fresh.yaml"))
            if r.exit != 0 or data is None:
                raise runner.HarnessError(f"cannot generate a fresh config for preset {preset}: exit {r.exit} {r.stderr[-300:]}")
            d = _parse(data)
            secs = [k for k, v in (d or {}).items() if isinstance(v, dict) and "enabled" in v]
            _FRESH[key] = (data, d, secs)
    return _FRESH[key]


MARKER_TEXT = "#" + MARKER.replace("\n", "\n#")


def _marker_inside_block(data: bytes) -> bool:
    """The template's two GLOBAL SETTINGS marker lines occur (not at offset 0) and the next content line is indented,
    i.e. the look-alike comment sits in the middle of a nested block."""
    text = data.decode("utf-8", "replace").replace("\r\n", "\n")
    pos = text.find(MARKER_TEXT)
    if pos <= 0:
        return False
    for ln in text[pos:].split("\n")[2:]:
        if ln.strip() and not ln.lstrip().startswith("#"):
            return ln[0] in " \t"
    return False


def _effective_losses(e0: dict, e1: dict) -> list:
    """[(section, key | None, before, after)] for every pre-existing setting that changed in the effective config."""
    out = []
    for sec, v0 in e0.items():
        v1 = e1.get(sec, "<gone>")
        if isinstance(v0, dict) and v0:
            for k, x0 in v0.items():
                x1 = v1.get(k, "<gone>") if isinstance(v1, dict) else "<gone>"
                if x1 != x0:
                    out.append((sec, k, x0, x1))
        elif isinstance(v0, dict):
            if not isinstance(v1, dict):
                out.append((sec, None, v0, v1))
        elif v1 != v0:
            out.append((sec, None, v0, v1))
    return out


def _lines(data: bytes) -> list[str]:
    return [ln.rstrip() for ln in data.decode("utf-8", "replace").split("\n") if ln.strip()]


def _is_subsequence(small: list[str], big: list[str]):
    it = iter(big)
    for s in small:
        for b in it:
            if b == s:
                break
        else:
            return s
    return None


def _probe(p, file, sections):
    out = {}
    for sec in sections:
        r = _cli([PROBE_CMDS[sec], "--config", file, "--format", "json", "probe.py"], p.root)
        if r.exit in (0, 1) and not r.exception:
            try:
                out[sec] = sorted((v["rule_id"], v["line"], v["column"], v["message"]) for v in r.violations)
            except Exception:  # noqa: BLE001
                out[sec] = f"unreadable report: {r.stdout[:120]!r}"
        else:
            out[sec] = f"exit {r.exit} {r.exception or ''} {r.stderr[-160:]}"
    return out


def _txt(data):
    return None if data is None else data.decode("utf-8", "replace")


def _clip(text, n=2500):
    return text if text is None or len(text) <= n else text[:n] + f"\n... [{len(text) - n} more characters]"


def _sha(data):
    return None if data is None else hashlib.sha256(data).hexdigest()[:12]


# ------------------------------------------------------------------------------------ step oracles


def step_init(p, file, step, model, labels):
    """-> (failures, outcome class)"""
    path = p.path(file)
    before = _read(path)
    args = ["init-config", "--non-interactive"]
    if step.get("preset"):
        args += ["--preset", step["preset"]]
    if file != ".thailint.yaml":
        args += ["--output", file]
    if step.get("force"):
        args.append("--force")
    preset = step.get("preset") or "standard"
    fresh_data, fresh_map, template_sections = fresh(step.get("preset"))
    ctx = {"command": args, "file_before": _txt(before)}

    if before is None or step.get("force"):
        r = _cli(args, p.root)
        after = _read(path)
        TRACE.append((r.exit, _sha(after)))
        kind = "init-force" if step.get("force") and before is not None else "init-fresh"
        ctx.update(exit=r.exit, stderr=r.stderr[-300:], file_after=_txt(after)[:1500] if after else None)
        model.clear()
        if r.exit != 0 or r.exception:
            return [Failure("init|fresh-generation-fails", ctx)], kind
        d = _parse(after)
        if d is None:
            return [Failure("init|generated-file-not-a-yaml-mapping", ctx)], kind
        if after != fresh_data:
            return [Failure("init|force-or-fresh-output-differs-from-generated-template", ctx)], kind
        return [], kind

    d0 = _parse(before)
    if d0 is None or not all(isinstance(k, str) for k in d0):
        # not an "existing valid configuration": outside the statement; the tool must at least leave it alone or fail
        r = _cli(args, p.root)
        TRACE.append((r.exit, _sha(_read(path))))
        return [], "init-on-invalid"

    present = {canon(k) for k in d0}
    # a linter whose section exists under its other documented name is not "missing" (adding the template's
    # print-statements section next to the user's improper-logging section would override it)
    missing = [s for s in template_sections if s not in present and SYNONYM.get(s) not in present]
    e0 = _effective(path)
    probe_secs = [s for s in PROBE_CMDS if s in present] if p.probe else []
    pr0 = _probe(p, file, probe_secs)
    labels.append(f"merge:missing={'0' if not missing else '1-4' if len(missing) <= 4 else '5-11' if len(missing) <= 11 else '12-15' if len(missing) < len(template_sections) else 'all'}")
    if any(k != canon(k) and canon(k) in template_sections for k in d0):
        labels.append("merge:underscore-section")
    if _root_is_flow(before):
        labels.append("merge:flow-document")
    if MARKER_TEXT.encode() in before.replace(b"\r\n", b"\n"):
        labels.append("merge:marker-lookalike")

    r = _cli(args, p.root)
    after = _read(path)
    TRACE.append((r.exit, _sha(after)))
    ctx.update(exit=r.exit, stdout=r.stdout[-400:], stderr=r.stderr[-300:], file_after=_clip(_txt(after)))
    kind = "init-merge"
    if r.exit != 0 or r.exception:
        style = "flow-document" if _root_is_flow(before) else "block-document"
        return [Failure(f"merge|nonzero-exit|{style}", ctx)], kind
    d1 = _parse(after)
    if d1 is None:
        style = "flow-document" if _root_is_flow(before) else "block-document"
        return [Failure(f"merge|result-not-a-yaml-mapping|{style}", ctx)], kind

    fails = []
    # (ii) parsed values of pre-existing keys
    changed = [k for k in d0 if k not in d1 or d1[k] != d0[k]]
    if changed:
        cause = "marker-lookalike-inside-section" if _marker_inside_block(before) else "other"
        # (the precise cause first: only the trailing newlines of string values changed)
        if all(isinstance(d0[k], str) and isinstance(d1.get(k), str) and d0[k] != d1[k] and d0[k].rstrip("\n") == d1[k].rstrip("\n") for k in changed):
            cause = "trailing-newlines-of-keep-block-scalar"
        fails.append(Failure(f"merge|preexisting-value-changed|{cause}", {**ctx, "keys": changed[:5], "before": {k: d0[k] for k in changed[:3]}, "after": {k: d1.get(k, "<gone>") for k in changed[:3]}}))
    # "only adds the linter sections that are missing"
    added = [k for k in d1 if k not in d0]
    dup = [k for k in added if canon(k) in present]
    foreign = [k for k in added if canon(k) not in present and k not in template_sections]
    not_added = [s for s in missing if s not in added]
    if dup:
        variants = sorted(k for k in d0 if canon(k) in {canon(x) for x in dup})
        cause = "other-spelling-present" if all(k != canon(k) for k in variants) else "same-key"
        fails.append(Failure(f"merge|existing-section-added-again|{cause}", {**ctx, "added_again": dup, "existing_spelling": variants}))
    if foreign:
        fails.append(Failure("merge|added-key-is-not-a-missing-linter-section", {**ctx, "added": foreign}))
    if not_added:
        explained = set(not_added) == (set(missing) & NEVER_ADDED)
        fails.append(Failure("merge|missing-section-not-added|" + ("performance+rust-sections" if explained else "other"),
                             {"not_added": not_added, "missing_before": missing, **ctx}))
    wrong = [k for k in added if k in fresh_map and k in missing and d1[k] != fresh_map[k]]
    if wrong and not changed:
        fails.append(Failure("merge|added-section-differs-from-preset-template", {**ctx, "sections": wrong, "preset": preset}))
    # (ii) effective configuration: every pre-existing (section, key) is still what the linters are handed
    e1 = _effective(path)
    eff = _effective_losses(e0, e1)
    dup_canon = {canon(x).replace("-", "_") for x in dup}
    unexplained = [x for x in eff if x[0] not in dup_canon]
    pr1 = _probe(p, file, probe_secs) if probe_secs else {}
    beh = [s for s in probe_secs if pr0[s] != pr1[s]]
    if dup and eff:
        fails[[f.sig.startswith("merge|existing-section-added-again") for f in fails].index(True)].detail["settings_no_longer_in_effect"] = [
            {"section": a, "key": b, "before": c, "after": d} for a, b, c, d in eff if a in dup_canon][:4]
        labels.append("merge:effective-value-overridden")
    if unexplained and not changed:
        fails.append(Failure("merge|setting-no-longer-in-effect", {**ctx, "lost": [{"section": a, "key": b, "before": c, "after": d} for a, b, c, d in unexplained][:4]}))
    if beh:
        labels.append("merge:behaviour-change-observed")
        explained = dup and all(s in {canon(x) for x in dup} for s in beh)
        if explained:
            fails[[f.sig.startswith("merge|existing-section-added-again") for f in fails].index(True)].detail["linter_findings_changed"] = {s: {"before": pr0[s], "after": pr1[s]} for s in beh[:2]}
        elif not [f for f in fails if f.sig not in NON_CORRUPTING]:
            fails.append(Failure("merge|linter-findings-changed-for-preexisting-section", {**ctx, "sections": beh, "before": {s: pr0[s] for s in beh}, "after": {s: pr1[s] for s in beh}}))
    # (iv) every existing line survives, in order
    lost = _is_subsequence(_lines(before), _lines(after))
    if lost is not None:
        fails.append(Failure("merge|existing-line-lost-or-reordered", {**ctx, "line": lost}))
    # (v) idempotence
    args2 = ["init-config", "--non-interactive"] + (["--preset", step["again"]] if step.get("again") else []) + (["--output", file] if file != ".thailint.yaml" else [])
    r2 = _cli(args2, p.root)
    after2 = _read(path)
    TRACE.append((r2.exit, _sha(after2)))
    if after2 != after or r2.exit != 0:
        fails.append(Failure("merge|second-run-not-a-noop", {**ctx, "second_command": args2, "second_exit": r2.exit, "second_stdout": r2.stdout[-300:], "file_after_second": _txt(after2)}))
    return fails, kind


def _show(p, file):
    r = _cli(["--config", file, "config", "show", "--format", "json"], p.root)
    if r.exit != 0:
        return r, None
    try:
        return r, json.loads(r.stdout)
    except ValueError:
        return r, None


def _library_rejects(p, file, key, val, ctx):
    """save_config must refuse an invalid configuration without writing (anchor: validate before write)."""
    from src.config import ConfigError, load_config, save_config

    fails = []
    try:
        cfg = load_config(Path(p.path(file)))
    except ConfigError:
        return fails
    cfg[key] = val
    for ext in (".yaml", ".json"):
        tgt = p.path("__reject__" + ext)
        with open(tgt, "w") as fh:
            fh.write("sentinel: 1\n" if ext == ".yaml" else '{"sentinel": 1}')
        was = _read(tgt)
        raised = False
        try:
            save_config(cfg, Path(tgt))
        except ConfigError:
            raised = True
        now = _read(tgt)
        os.unlink(tgt)
        if not raised or now != was:
            fails.append(Failure(f"save_config|invalid-configuration-written|{ext[1:]}", {**ctx, "raised_ConfigError": raised, "target_changed": now != was}))
    return fails


def _library_roundtrip(p, file, ctx):
    from src.config import load_config, save_config

    fails = []
    cfg = load_config(Path(p.path(file)))
    for ext in (".yaml", ".json"):
        tgt = p.path("__rt__" + ext)
        try:
            save_config(cfg, Path(tgt))
            back = load_config(Path(tgt))
        except Exception as e:  # noqa: BLE001
            back = f"{type(e).__name__}: {e}"[:300]
        finally:
            if os.path.exists(tgt):
                os.unlink(tgt)
        if back != cfg:
            diff = back if isinstance(back, str) else {k: [cfg.get(k), back.get(k)] for k in set(cfg) | set(back) if cfg.get(k) != back.get(k)}
            fails.append(Failure(f"roundtrip|{ext[1:]}|save-load-not-identity", {**ctx, "difference": diff}))
    return fails


def step_set(p, file, step, model, labels):
    path = p.path(file)
    key, raw = step["key"], step["value"]
    before = _read(path)
    pre_r, pre = _show(p, file)
    args = ["--config", file, "config", "set"] + (["--"] if step.get("dd", True) else []) + [key, raw]
    r = _cli(args, p.root)
    after = _read(path)
    TRACE.append((r.exit, _sha(after)))
    v = verdict(key, raw)
    usage = raw.startswith("-") and not step.get("dd", True)
    ctx = {"command": args, "exit": r.exit, "stdout": r.stdout[-300:], "stderr": r.stderr[-300:], "file_before": _txt(before), "file_after": _txt(after), "documented_verdict": v}
    if r.exception:
        return [Failure("set|uncaught-exception", {**ctx, "exception": r.exception})], "set-crash"
    if pre is None:
        # the file does not load (only possible for a file thai-lint did not write in this history): must stay as is
        if after != before:
            return [Failure("set|unloadable-file-rewritten", ctx)], "set-unloadable"
        return [], "set-unloadable"
    klass = "hyphenated-key" if "-" in key else "plain-key"
    if r.exit != 0:
        if after != before:
            return [Failure("set|rejected-but-file-changed", ctx)], "set-reject"
        if v == "accept" and not usage:
            return [Failure(f"set|valid-value-rejected|{key if key in ('log_level', 'output_format', 'max_retries', 'timeout', 'app_name') else klass}", ctx)], "set-reject"
        if v == "reject":
            ok, val = convert(raw)
            fails = _library_rejects(p, file, key, val, ctx)
            if fails:
                return fails, "set-reject"
        return [], "set-reject" if v == "reject" else "set-reject-open"
    # exit 0: the value was written
    if v == "reject":
        return [Failure(f"set|invalid-value-written|{key}", ctx)], "set-accept"
    ok, val = convert(raw)
    outcome = "set-accept" if v == "accept" else "set-accept-open"
    post_r, post = _show(p, file)
    if ok:
        g = _cli(["--config", file, "config", "get", key], p.root)
        exp = f"{val}\n"
        if g.exit != 0 or g.stdout != exp:
            return [Failure(f"get|accepted-value-not-returned|{klass}", {**ctx, "get_exit": g.exit, "get_stdout": g.stdout[-200:], "get_stderr": g.stderr[-300:], "expected_stdout": exp})], outcome
        model[key] = exp
    else:
        model.pop(key, None)  # accepted, but the documented conversion leaves the stored value open: nothing to expect later
    if post is None:
        return [Failure(f"set|written-file-no-longer-loads|{klass}", {**ctx, "show_exit": post_r.exit, "show_stderr": post_r.stderr[-300:]})], outcome
    # configuration keys are loaded with hyphens normalised to underscores: x-owner and x_owner are ONE setting
    same = lambda a, b: a.replace("-", "_") == b.replace("-", "_")  # noqa: E731
    lost = [k for k in pre if not same(k, key) and (k not in post or post[k] != pre[k])]
    if lost:
        return [Failure(f"set|other-setting-changed|{klass}", {**ctx, "keys": lost[:5], "before": {k: pre[k] for k in lost[:3]}, "after": {k: post.get(k, "<gone>") for k in lost[:3]}})], outcome
    fails = _library_roundtrip(p, file, ctx)
    return fails, outcome


def step_get(p, file, step, model, labels):
    path = p.path(file)
    before = _read(path)
    r = _cli(["--config", file, "config", "get", step["key"]], p.root)
    after = _read(path)
    TRACE.append((r.exit, _sha(after)))
    ctx = {"command": ["--config", file, "config", "get", step["key"]], "exit": r.exit, "stdout": r.stdout[-300:], "stderr": r.stderr[-300:], "file": _txt(before)}
    if after != before:
        return [Failure("get|file-changed", ctx)], "get"
    if step["key"] in model:
        if r.exit != 0 or r.stdout != model[step["key"]]:
            klass = "hyphenated-key" if "-" in step["key"] else "plain-key"
            return [Failure(f"get|earlier-accepted-value-not-returned|{klass}", {**ctx, "expected_stdout": model[step["key"]]})], "get-modelled"
        return [], "get-modelled"
    if r.exception or r.exit not in (0, 1, 2):
        return [Failure("get|crash", {**ctx, "exception": r.exception})], "get"
    return [], "get"


def step_show(p, file, step, model, labels):
    path = p.path(file)
    before = _read(path)
    r, d = _show(p, file)
    after = _read(path)
    TRACE.append((r.exit, _sha(after)))
    if after != before:
        return [Failure("show|file-changed", {"file": _txt(before), "file_after": _txt(after)})], "show"
    return [], "show"


def step_reset(p, file, step, model, labels):
    path = p.path(file)
    before = _read(path)
    pre_r, pre = _show(p, file)
    args = ["--config", file, "config", "reset", "--yes"]
    r = _cli(args, p.root)
    after = _read(path)
    TRACE.append((r.exit, _sha(after)))
    ctx = {"command": args, "exit": r.exit, "stdout": r.stdout[-300:], "stderr": r.stderr[-300:], "file_before": _txt(before), "file_after": _txt(after)}
    if r.exit != 0:
        if after != before:
            return [Failure("reset|failed-but-file-changed", ctx)], "reset-fail"
        if pre is not None:
            return [Failure("reset|fails-on-loadable-file", ctx)], "reset-fail"
        return [], "reset-fail"
    model.clear()
    _, got = _show(p, file)
    _, ref = _show(p, "__no_such_file__" + os.path.splitext(file)[1])
    if got is None or got != ref:
        return [Failure("reset|result-differs-from-defaults", {**ctx, "after_reset": got, "defaults": ref})], "reset"
    return [], "reset"


STEP = {"init": step_init, "set": step_set, "get": step_get, "show": step_show, "reset": step_reset}


# ------------------------------------------------------------------------------------ check


def render_existing(case):
    """-> (bytes | None, mapping | None, comments)"""
    doc = case.get("doc")
    if doc is None:
        return None, None, []
    if case["file"].endswith(".json"):
        exp = {it["key"]: it["value"] for it in doc["items"]}
        return json.dumps(exp, indent=2, ensure_ascii=False).encode("utf-8"), exp, []
    text, exp, comments = ry.render(doc)
    data = text.encode("utf-8")
    got = _parse(data)
    if got != exp:
        raise runner.HarnessError(f"C20 renderer produced a document that does not parse to its own model:\n{text}\nexpected {exp}\ngot {got}")
    return data, exp, comments


def check(case) -> Case:
    if case.get("kind") == "preset":
        return check_preset(case)
    file = case["file"]
    is_json = file.endswith(".json")
    data, exp, comments = render_existing(case)
    doc = case.get("doc")
    labels = [f"file={'json' if is_json else file if file == '.thailint.yaml' else 'other-yaml'}", f"steps={len(case['steps'])}",
              "doc=" + ("none" if doc is None else "json" if is_json else "flow" if doc.get("doc_flow") else "block")]
    if doc and not is_json:
        for feat in ("start_marker", "crlf"):
            if doc.get(feat):
                labels.append(f"feat:{feat}")
        if not doc.get("final_newline", True):
            labels.append("feat:no-final-newline")
        if comments:
            labels.append("feat:comments")
        if any(it.get("quote") for it in doc["items"]):
            labels.append("feat:quoted-key")
        if any(it.get("style") == "flow" and isinstance(it.get("value"), dict) and it["value"] for it in doc["items"]):
            labels.append("feat:flow-section")
        for it in doc["items"]:
            if it.get("style") == "merge":
                via = [k for k in exp if canon(k) in TEMPLATE_NAMES and k not in {x["key"] for x in doc["items"]}]
                labels.append("feat:top-level-merge-key" + ("-list" if len(it["refs"]) > 1 or it.get("as_list") else "") + ("" if via else "(no linter section)"))
            elif it.get("style") == "alias":
                labels.append("feat:alias-value" + (":linter-section" if canon(it["key"]) in TEMPLATE_NAMES else ""))
            elif it.get("merge_from"):
                labels.append("feat:merge-key-inside-section")
    failures = []
    outcomes = []
    model: dict = {}
    files = {"probe.py": PROBE}
    with Project(files=files, marker=False) as p:
        p.probe = bool(case.get("probe"))
        os.makedirs(p.path("conf"), exist_ok=True)
        if data is not None:
            p.write(file, data)
        for step in case["steps"]:
            if step["op"] == "init" and is_json:
                continue
            fails, outcome = STEP[step["op"]](p, file, step, model, labels)
            outcomes.append(outcome)
            labels.append("op:" + outcome)
            for f in fails:
                f.detail["step_index"] = len(outcomes) - 1
                f.detail["steps_so_far"] = outcomes[:]
            failures.extend(fails)
            if any(f.sig not in NON_CORRUPTING for f in fails):
                break  # later steps would only observe the consequences
    # non-trivial rule
    secs = [canon(k) for k in (exp or {}) if canon(k) in TEMPLATE_NAMES]  # (the parsed mapping: also sections that arrive through a merge key)
    extras = [it for it in (doc or {}).get("items", []) if canon(it["key"]) not in TEMPLATE_NAMES and it.get("style") != "merge"]
    nt_merge = "init-merge" in outcomes and 1 <= len(secs) < len(TEMPLATE_NAMES) and bool(comments or extras) and outcomes.index("init-merge") == 0
    nt_set = any(o.startswith("set-reject") and any(x.startswith("set-accept") for x in outcomes[:i]) for i, o in enumerate(outcomes))
    if any(o == "init-merge" for o in outcomes[1:]):
        labels.append("merge:after-other-commands")
    style = []
    if doc:
        style = [sorted([canon(it["key"]), it["key"] != canon(it["key"]), it.get("style"), it.get("quote", "")] + ([sorted(it["value"])] if it.get("anchor") and isinstance(it["value"], dict) else [])
                        + ([it["merge_from"]] if it.get("merge_from") else []) for it in doc["items"]),
                 [bool(doc.get(k)) for k in ("doc_flow", "start_marker", "crlf")], doc.get("final_newline", True), bool(comments)]
    key = h([file, style, outcomes])
    sample = {"file": file, "existing": _txt(data), "steps": case["steps"]}
    return Case(key=key, nontrivial=bool(nt_merge or nt_set), labels=labels, failures=failures, sample=sample)


# ------------------------------------------------------------------------------------ preset matrix


def linter_commands():
    runner.init()
    from src.cli_main import cli

    return sorted(c for c in cli.commands if c not in ("config", "init-config", "hello"))


def check_preset(cell) -> Case:
    preset, mode, cmd = cell["preset"], cell["mode"], cell["cmd"]
    labels = [f"preset={preset}", f"carrier={mode}"]
    failures = []
    with Project(files={"probe.py": PROBE, "web/area.ts": PROBE_TS, "core/lib.rs": PROBE_RS}, marker=False) as p:
        out = ".thailint.yaml" if mode == "auto" else "custom.yaml"
        args = ["init-config", "--non-interactive", "--preset", preset] + ([] if mode == "auto" else ["--output", out])
        r = _cli(args, p.root)
        data = _read(p.path(out))
        ctx = {"command": args, "exit": r.exit, "stderr": r.stderr[-300:]}
        d = _parse(data)
        if r.exit != 0 or d is None:
            failures.append(Failure("preset|generated-file-missing-or-unparseable", {**ctx, "file": (_txt(data) or "")[:600]}))
        elif b"{{" in data or b"}}" in data:
            failures.append(Failure("preset|placeholder-left-in-generated-file", {**ctx, "lines": [ln for ln in _txt(data).split("\n") if "{{" in ln][:5]}))
        else:
            mn = d.get("magic-numbers")
            if not (isinstance(mn, dict) and isinstance(mn.get("allowed_numbers"), list) and all(isinstance(x, (int, float)) and not isinstance(x, bool) for x in mn["allowed_numbers"])
                    and isinstance(mn.get("max_small_integer"), int)):
                failures.append(Failure("preset|magic-numbers-values-not-numbers", {**ctx, "magic-numbers": mn}))
        if not failures:
            largs = {"auto": [cmd, "--format", "json", "."], "group": ["--config", out, cmd, "--format", "json", "."],
                     "cmd": [cmd, "--config", out, "--format", "json", "."]}[mode]
            lr = _cli(largs, p.root)
            lctx = {"init": args, "command": largs, "exit": lr.exit, "stderr": lr.stderr[-400:], "stdout": lr.stdout[:300], "exception": lr.exception, "swallowed": lr.swallowed[:3]}
            okjson = False
            if lr.exit in (0, 1):
                try:
                    okjson = isinstance(lr.violations, list)
                except Exception:  # noqa: BLE001
                    okjson = False
            if lr.exit not in (0, 1) or lr.exception or not okjson:
                failures.append(Failure("preset|linter-command-does-not-accept-generated-file", lctx))
            elif lr.swallowed:
                failures.append(Failure("preset|rule-failure-swallowed-with-generated-file", lctx))
            if _read(p.path(out)) != data:
                failures.append(Failure("preset|linter-command-modified-config-file", lctx))
    return Case(key=h(cell), nontrivial=True, labels=labels, failures=failures, sample=cell)


# ------------------------------------------------------------------------------------ mode self-check

SELFCHECK_CASES = [
    {"kind": "history", "file": ".thailint.yaml", "probe": False,
     "doc": {"items": [{"key": "nesting", "quote": "", "style": "block", "value": {"max_nesting_depth": 2}, "before": [" keep me"], "trail": None},
                       {"key": "srp", "quote": "'", "style": "flow", "value": {"max_methods": 3}}], "head": [" mine"], "tail": [], "final_newline": False},
     "steps": [{"op": "init", "preset": "strict", "force": False, "again": "lenient"}, {"op": "show"},
               {"op": "init", "preset": None, "force": True, "again": None}]},
    {"kind": "history", "file": "config.yaml", "probe": False, "doc": None,
     "steps": [{"op": "set", "key": "log_level", "value": "DEBUG", "dd": True}, {"op": "set", "key": "max_retries", "value": "-1", "dd": True},
               {"op": "set", "key": "greeting", "value": "Hé ✓", "dd": False}, {"op": "get", "key": "greeting"},
               {"op": "set", "key": "timeout", "value": "0", "dd": True}, {"op": "reset"}, {"op": "get", "key": "log_level"}]},
]


def mode_selfcheck(ctx):
    for case in SELFCHECK_CASES:
        del TRACE[:]
        a = check(case)
        ta = list(TRACE)
        _MODE["sub"] = True
        try:
            del TRACE[:]
            b = check(case)
            tb = list(TRACE)
        finally:
            _MODE["sub"] = False
        if ta != tb or sorted(f.sig for f in a.failures) != sorted(f.sig for f in b.failures):
            raise runner.HarnessError(f"C20 mode self-check: in-process and subprocess histories differ\nP {ta} {[f.sig for f in a.failures]}\nS {tb} {[f.sig for f in b.failures]}")
        for f in ctx.record(a, case):
            ctx.add_violation(f, case)
    ctx.stats.extra["history_mode_selfcheck_cases"] = len(SELFCHECK_CASES)


# ------------------------------------------------------------------------------------ shared-configuration matrix

SHARE_BASE = [
    {"key": "nesting", "quote": "", "style": "block", "value": {"enabled": True, "max_nesting_depth": 2}, "before": [" stricter than the default"], "trail": None},
    {"key": "srp", "quote": "", "style": "block", "value": {"enabled": True, "max_methods": 3}, "before": [], "trail": " small classes"},
    {"key": "magic-numbers", "quote": "", "style": "flow", "value": {"enabled": True, "allowed_numbers": [0, 1, 42]}, "before": [], "trail": None},
    {"key": "project_owner", "quote": "", "style": "block", "value": "platform team", "before": [], "trail": None},
]


def share_cells():
    """Every way of sharing x holder written block/flow x document style (block, block with ---/CRLF, flow) x position of the shared part x preset:
    one non-forced init-config (and its second run) on a fixed small configuration whose nesting / srp values differ
    from every preset, with the linters run on the probe file before and after."""
    cells = []
    variants = [("merge-top", {"pick": 0, "two": False, "as_list": False}), ("merge-top", {"pick": 1, "two": False, "as_list": True}),
                ("merge-top", {"pick": 2, "two": True, "as_list": False}), ("merge-top", {"pick": 1, "two": True, "as_list": True}),
                ("alias-section", {"pick": 0}), ("alias-section", {"pick": 2}), ("alias-of-section", {"pick": 1}),
                ("merge-in-section", {"pick": 0, "j": 0}), ("merge-in-section", {"pick": 1, "j": 1})]
    n = 0
    for mode, extra in variants:
        for hstyle in ("block", "flow"):
            for dstyle in ("block", "block-crlf-marker", "flow"):
                for first in (True, False):
                    plan = {"mode": mode, "hstyle": hstyle, "two": False, "as_list": False, "i": 0 if first else 1, "j": 0 if first else 5, **extra}
                    if mode == "merge-in-section":
                        plan["j"] = extra["j"]
                    doc = {"items": apply_share(SHARE_BASE, plan), "doc_flow": dstyle == "flow", "crlf": dstyle == "block-crlf-marker", "start_marker": dstyle == "block-crlf-marker",
                           "head": [" team configuration"], "tail": [], "indent": 2}
                    preset = ([None] + PRESETS)[n % 4]
                    n += 1
                    cells.append({"kind": "history", "file": ".thailint.yaml" if n % 3 else "conf/custom.yaml", "doc": doc, "probe": True,
                                  "steps": [{"op": "init", "preset": preset, "force": False, "again": ([None] + PRESETS)[(n + 1) % 4]}]})
    return cells


# ------------------------------------------------------------------------------------ run


def run(ctx):
    if ctx.shard == 0:
        mode_selfcheck(ctx)
    cells = [{"kind": "preset", "preset": p, "mode": m, "cmd": c} for p in PRESETS for m in ("auto", "group", "cmd") for c in linter_commands()]
    mine = ctx.my_cells(cells)
    done = ctx.each(mine, check_preset)
    ctx.stats.extra.setdefault("matrix", {})["preset x carrier(auto/.thailint.yaml, group --config, command --config) x linter command"] = {"cells": len(mine), "done": done}
    shared = ctx.my_cells(share_cells())
    done = ctx.each(shared, check)
    ctx.stats.extra["matrix"]["way of sharing (merge key / alias / merge inside section) x holder style x document style x position x preset"] = {"cells": len(shared), "done": done}
    ctx.explore(cases(), check, max_examples=ctx.n(70, 2500), salt=1)


def replay(case) -> Case:
    return check(case)
