"""C11 - no input makes a linter crash, hang, or silently drop its analysis.

Generated: grammar-aware mutations of valid seed files (truncation, token deletion / duplication / swap,
bracket and quote imbalance, NUL / BOM / CR / CRLF / mixed endings / form feed, invalid UTF-8, very long
lines), structural blow-ups (nested parentheses / blocks, operator and method chains, elif chains, long
literals) in every language, raw bytes, empty / whitespace files, and the same content under every known,
upper-case, unknown and missing extension (+- shebang). The offending file sits between healthy siblings.
Line-cut matrix: a "commented zoo" per language (every comment form - line, doc, inner doc, block, block doc, nested,
docstring, trailing - in every member position of struct / enum / impl / trait / class / interface / body) and a file with
every seed family are cut at EVERY line boundary, with the final newline kept, cut off, or CRLF endings; the random stage
has the matching mutators (truncate-line, comment-line) and the commented zoo in part of its base files.

Oracle per case:
  * one library run of ALL rules over the directory (Orchestrator.lint_directory): no exception escapes,
    the swallowed-failure tap is empty, the siblings' violations equal the baseline run without the offender;
  * real CLI commands (rotating pair in-process, all 20 on a sample and whenever the library run was
    anomalous): exit code 0 or 1, no traceback on stderr, tap empty;
  * a wall-clock alarm of 60 s per call (re-checked in a fresh subprocess with 120 s before it counts).
The thorough tier adds a coverage-guided atheris stage with the same oracle inside the fuzz target.
"""
from __future__ import annotations

import os
import signal
import subprocess
import sys
import time
import traceback
from collections import Counter
from pathlib import Path

from hypothesis import strategies as st

from vf import runner, seeds
from vf.gen import c11_zoo as zoo
from vf.engine import Case, Failure, h
from vf.project import Project

ID = "C11"
TECHNIQUE = "Hypothesis grammar-aware mutators + structural blow-ups + raw bytes among healthy siblings; oracle = exit in {0,1}, swallowed-failure tap empty (hook H1), sibling findings unchanged, bounded time; coverage-guided atheris stage in the thorough tier"
CASE_LIMIT_S = 900  # backstop for a case stuck in C code; a command is judged by its own limits (60 s in-process, then 300 s in a fresh process)
HANG_IS_VIOLATION = True  # termination is part of this property: a case over the limit twice (in its shard, then alone) is a violation
RULE = (
    "case = (valid seed file of py/ts/js/rs, sequence of 1-4 byte/token-level mutations) | (structural blow-up kind, size n, language) | "
    "raw bytes | empty/whitespace | (syntax zoo of the language with ONE literal re-typed: enumerated literal x value matrix) | "
    "(commented zoo / all-seed-families file of the language cut at a line boundary: enumerated document x line x tail {newline kept, cut off, CRLF} matrix),  under a drawn extension (known, upper-case, unknown, none +- shebang), between two healthy siblings. "
    "Non-trivial: the offending file differs from every valid seed and its language is recognised or the decode path is hit. Distinct = "
    "(mutator kinds, language, extension class, size bucket) + content hash."
)
ASSUMPTIONS = [
    "a syntax-error VIOLATION for an unparsable file is accepted behaviour (exit 1); only abandonment through an exception, a changed sibling result, exit 2 or a hang is a failure",
    "configuration is fixed and valid, so no ValueError can be a legitimate configuration error",
    "a file cut at a line boundary (whole lines, final newline present or not) is ordinary 'truncated source' of the statement; its comment lines may be of any form the language documents",
    "hang = a call exceeding 60 s on an input <= 2 MB, confirmed in a fresh subprocess with a 120 s limit; otherwise counted as inconclusive",
]
BUDGET_S = {"quick": 220, "thorough": 1200}

CONFIG = {"dry": {"enabled": True, "min_duplicate_lines": 3}}
ALL_CMDS = ["nesting", "srp", "magic-numbers", "dry", "stringly-typed", "file-placement", "file-header", "improper-logging", "print-statements",
            "method-property", "stateless-class", "pipeline", "lbyl", "lazy-ignores", "perf", "string-concat-loop", "regex-in-loop",
            "unwrap-abuse", "clone-abuse", "blocking-async"]
EXTS = [".py", ".ts", ".tsx", ".js", ".jsx", ".rs", ".PY", ".Ts", ".RS", ".java", ".txt", ".md", ".json", ""]
LANG_OF = {"py": ".py", "ts": ".ts", "js": ".js", "rs": ".rs"}


class _Timeout(BaseException):
    """Raised by the harness's own alarm. A BaseException, so that the tool's `except Exception` around each rule cannot
    swallow it and turn the harness's impatience into a 'failed rule' record."""


def _alarm(signum, frame):
    raise _Timeout()


def _depth():
    f, n = sys._getframe(), 0
    while f is not None:
        n += 1
        f = f.f_back
    return n


def with_alarm(seconds, fn):
    """Run fn under a wall-clock alarm and with the stack head-room of a real `thailint` process:
    Hypothesis raises the interpreter's recursion limit while a test runs, which would hide (or move) the
    RecursionErrors a user gets; the limit is set to what a fresh CLI process has left when it starts linting
    (default limit 1000, about 40 frames used by click and the command)."""
    old = signal.signal(signal.SIGALRM, _alarm)
    old_limit = sys.getrecursionlimit()
    sys.setrecursionlimit(_depth() + 960)
    signal.alarm(seconds)
    try:
        return fn()
    finally:
        signal.alarm(0)
        signal.signal(signal.SIGALRM, old)
        sys.setrecursionlimit(old_limit)


# ------------------------------------------------------------------------------------------ content


MULTILINE_OPENERS = {
    # multi-line constructs at the top of the file: truncation / deletion mutators can cut them open, which is where
    # line-oriented analysers keep "inside a multi-line ..." state
    "py": ["from os import (", "    path,", "    sep,", ")", "import re", ""],
    "ts": ["import {", "    alpha,", "    beta,", '} from "./things";', ""],
    "js": ["import {", "    alpha,", "    beta,", '} from "./things";', ""],
    "rs": ["use std::{", "    fs,", "    io,", "};", ""],
}


def base_text(lang, fams, u):
    parts = [seeds.filler(lang, 700 + u)]
    allf = [f for f in seeds.families(lang)]
    for i, k in enumerate(fams):
        parts.append(seeds.seed(allf[k % len(allf)], lang, 500 + u * 5 + i, k))
    text = seeds.compose(lang, parts, header=(u % 2 == 0), gap=1)[0]
    if u % 3 != 1:
        text = "\n".join(MULTILINE_OPENERS[lang]) + "\n" + text
    if u % 4 != 3:
        text = text + zoo.ZOO[lang]
    if u % 5 in (1, 3):
        text = text + "\n" + zoo.COMMENTED[lang]
    return text


def linecut_doc(lang, doc):
    """The documents of the line-cut matrix: the commented zoo (every comment form in every member position) and one
    file with every seed family of the language (+ multi-line openers + syntax zoo)."""
    if doc == "commented":
        return zoo.COMMENTED[lang]
    if doc == "seeds":
        return base_text(lang, list(range(len(seeds.families(lang)))), 0)
    raise ValueError(doc)


TAILS = ["lf", "none", "crlf"]


def linecut(text, cut, tail):
    """The first `cut` lines of the text: a truncation at a line boundary (an interrupted write, a half-typed file in an
    editor, a merge cut). tail: the file still ends with its newline (lf), the newline is cut off too (none), or the
    whole prefix has CRLF endings (crlf)."""
    lines = text.split("\n")
    if lines and lines[-1] == "":
        lines.pop()
    head = lines[:cut]
    if tail == "lf":
        return "\n".join(head) + "\n"
    if tail == "none":
        return "\n".join(head)
    if tail == "crlf":
        return "\r\n".join(head) + "\r\n"
    raise ValueError(tail)


def _top_block(lang):
    """The same run of module-level statements at the very top of every sibling of a language: whichever sibling is
    analysed right after the offending file, its first lines are part of a cross-file finding."""
    if lang == "py":
        return [f"d69_{i} = transform_69_{i}(src_69, d69_x{i})" for i in range(4)] + [""]
    return [f"const d69_{i} = transform_69_{i}(src_69, d69_x{i});" for i in range(4)] + [""]


def sibling_files():
    """Healthy siblings live in pkg/ (walked after the project root and before zz/), so an offending file can be
    analysed before or after them; the siblings of a language share a duplicate run (cross-file findings)."""
    py = "\n".join(_top_block("py"))
    ts = "\n".join(_top_block("ts"))
    return {
        "pkg/sib_a.py": py + seeds.compose("py", [seeds.seed("magic", "py", 61, 0), seeds.seed("nesting", "py", 62, 0), seeds.seed("print", "py", 63, 0)], header=False)[0],
        "pkg/sib_b.ts": ts + seeds.compose("ts", [seeds.seed("magic", "ts", 64, 0), seeds.seed("srp", "ts", 65, 0), seeds.seed("concat", "ts", 66, 0)], header=False)[0],
        "pkg/sib_c.rs": seeds.compose("rs", [seeds.seed("unwrap", "rs", 67, 0), seeds.seed("clone", "rs", 68, 0)], header=False)[0],
        "pkg/sib_d.py": py + seeds.compose("py", [seeds.seed("lbyl", "py", 71, 0)], header=False)[0],
        "pkg/sib_e.ts": ts + seeds.compose("ts", [seeds.seed("print", "ts", 72, 0)], header=False)[0],
    }


def blowup(kind, n, lang):
    py = lang == "py"
    rs = lang == "rs"
    decl = "" if py else ("let " if rs else "const ")
    end = "" if py else ";"
    if kind == "parens":
        expr = "(" * n + "1" + ")" * n
        body = f"{decl}v = {expr}{end}"
    elif kind == "brackets":
        expr = "[" * n + "1" + "]" * n
        body = f"{decl}v = {expr}{end}"
    elif kind == "sum":
        body = f"{decl}v = " + " + ".join(["a"] * n) + end
    elif kind == "sum-numbers":
        body = f"{decl}v = " + " + ".join(str(1000 + i) for i in range(n)) + end
    elif kind == "chain":
        body = f"{decl}v = obj" + ".m()" * n + end
    elif kind == "strcat":
        body = f"{decl}v = " + " + ".join(['"s"'] * n) + end
    elif kind == "list":
        body = f"{decl}v = [" + ", ".join(str(i % 7) for i in range(n)) + "]" + end
    elif kind == "unary":
        body = f"{decl}v = " + ("not " * n if py else "!" * n) + ("a" if not py else "a") + end
    elif kind == "elif":
        if py:
            lines = ["def f(a):", "    if a == 0:", "        return 0"]
            for i in range(1, n):
                lines += [f"    elif a == {i % 5}:", f"        return {i % 5}"]
            return "\n".join(lines) + "\n"
        head = "fn f(a: i32) -> i32 {" if rs else "function f(a) {"
        cond = (lambda i: f"a == {i % 5}") if rs else (lambda i: f"(a === {i % 5})")
        lines = [head, f"    if {cond(0)} {{", "        return 0;"]
        for i in range(1, n):
            lines += [f"    }} else if {cond(i)} {{", f"        return {i % 5};"]
        lines += ["    }", "    return 1;" if not rs else "    1", "}"]
        return "\n".join(lines) + "\n"
    elif kind == "blocks":
        if py:
            m = min(n, 99)
            lines = ["def f(a):"] + ["    " * (i + 1) + "if a:" for i in range(m)] + ["    " * (m + 1) + "return a"]
            return "\n".join(lines) + "\n"
        head = "fn f(a: bool) {" if rs else "function f(a) {"
        opener = "if a {" if rs else "if (a) {"
        lines = [head] + [opener] * n + ["g(a);"] + ["}"] * n + ["}"]
        return "\n".join(lines) + "\n"
    elif kind == "functions":
        if py:
            return "\n".join(f"def f{i}(a):\n    return a + {i % 3}\n" for i in range(n))
        if rs:
            return "\n".join(f"fn f{i}(a: i32) -> i32 {{\n    a + {i % 3}\n}}\n" for i in range(n))
        return "\n".join(f"function f{i}(a) {{\n    return a + {i % 3};\n}}\n" for i in range(n))
    elif kind.startswith("directive-"):
        # a long run after a suppression / directive keyword (regex-parsed comments): n repetitions of a short token,
        # ended by a character the pattern does not expect
        c = "#" if py else "//"
        head = {"directive-noqa": f"{c} noqa: ", "directive-type": f"{c} type: ignore[", "directive-pylint": f"{c} pylint: disable=",
                "directive-thailint": f"{c} thailint: ignore[", "directive-eslint": f"{c} eslint-disable-next-line ", "directive-nosec": f"{c} nosec ",
                "directive-dry": f"{c} dry: ignore-block "}[kind]
        unit = ["E501", "a,", "B1 ", "x-y,", "W0"][n % 5]
        body = f"{decl}v = 1{end}  {head}" + unit * n + "!"
    elif kind == "bigdec":  # one numeric literal with n digits
        body = f"{decl}v = " + "7" * n + end
    elif kind == "bighex":
        body = f"{decl}v = 0x" + "f" * n + end
    elif kind == "longline":
        body = f'{decl}v = "' + "x" * n + f'"{end}'
    elif kind == "comment":
        body = ("# " if py else "// ") + "c" * n
    else:
        raise ValueError(kind)
    if py:
        return f"def f(a, obj):\n    {body}\n    return v\n"
    if rs:
        return f"fn f(a: i32) {{\n    {body}\n}}\n"
    return f"function f(a, obj) {{\n    {body}\n}}\n"


BLOWUPS = ["directive-noqa", "directive-type", "directive-pylint", "directive-thailint", "directive-eslint", "directive-nosec", "directive-dry",
           "bigdec", "bighex", "parens", "brackets", "sum", "sum-numbers", "chain", "strcat", "list", "unary", "elif", "blocks", "functions", "longline", "comment"]

BAD_UTF8 = [b"\xff\xfe", b"\xc3\x28", b"\xe2\x82", b"\xf0\x28\x8c\x28", b"\x80", b"\xed\xa0\x80"]
INSERTS = [b"(", b")", b"[", b"]", b"{", b"}", b'"', b"'", b"`", b'"""', b"\\", b"\x00", b"\x0c", b"\r", b"\t", b"\xef\xbb\xbf", b"/*", b"*/", b"#", b"//", b"${", b"<", b">", b"=>", b"|", b"\\u", b"\xe2\x80\xa8"]


COMMENT_LINES = [b"/// doc comment", b"//! inner doc comment", b"// comment", b"/* block comment */", b"/** block doc comment */", b"/*! inner block doc */",
                 b"# comment", b'"""docstring"""', b"/* open block comment", b"///", b"//", b"#", b"<!-- comment -->", b"-- comment", b"#![allow(dead_code)]", b"// thailint: ignore", b"# noqa"]


def mutate(data: bytes, muts) -> bytes:
    for m in muts:
        kind, a, b = m
        n = len(data)
        pos = int(a * n) if n else 0
        if kind == "truncate":
            data = data[:pos]
        elif kind == "truncate-early":  # cut inside the first lines (imports, header, first signature)
            data = data[: int(a * min(n, 120))]
        elif kind == "truncate-at-open":  # cut right after the k-th opening bracket: the file ends inside a construct
            opens = [i for i, ch in enumerate(data) if ch in b"([{"]
            if opens:
                data = data[: opens[int(a * (len(opens) - 1))] + 1 + int(b * 12)]
        elif kind == "ctrl":  # one control byte that is valid UTF-8 but no source character (NUL, FF, SUB, ESC, DEL, VT)
            data = data[:pos] + [b"\x00", b"\x0c", b"\x1a", b"\x1b", b"\x7f", b"\x0b", b"\x00\x00"][int(b * 7) % 7] + data[pos:]
        elif kind == "truncate-line":  # cut at a line boundary: the file ends with a whole line and its newline
            ends = [i + 1 for i, ch in enumerate(data) if ch == 0x0A]
            if ends:
                data = data[: ends[int(a * (len(ends) - 1))]]
        elif kind == "comment-line":  # a comment line of some language (not necessarily this one) at a line boundary
            starts = [0] + [i + 1 for i, ch in enumerate(data) if ch == 0x0A]
            at = starts[int(a * (len(starts) - 1))]
            indent = data[at: at + len(data[at:]) - len(data[at:].lstrip(b" "))]
            data = data[:at] + indent + COMMENT_LINES[int(b * len(COMMENT_LINES)) % len(COMMENT_LINES)] + b"\n" + data[at:]
        elif kind == "unclose":  # drop the first line that only closes a bracket
            lines = data.split(b"\n")
            for i, l in enumerate(lines):
                if l.strip()[:1] in (b")", b"}", b"]"):
                    del lines[i]
                    break
            data = b"\n".join(lines)
        elif kind == "delete":
            data = data[:pos] + data[pos + 1 + int(b * 40):]
        elif kind == "dup":
            seg = data[pos:pos + 1 + int(b * 60)]
            data = data[:pos] + seg + seg + data[pos + len(seg):]
        elif kind == "swap":
            toks = data.split(b" ")
            if len(toks) > 2:
                i, j = int(a * (len(toks) - 1)), int(b * (len(toks) - 1))
                toks[i], toks[j] = toks[j], toks[i]
            data = b" ".join(toks)
        elif kind == "insert":
            data = data[:pos] + INSERTS[int(b * len(INSERTS)) % len(INSERTS)] + data[pos:]
        elif kind == "badutf8":
            data = data[:pos] + BAD_UTF8[int(b * len(BAD_UTF8)) % len(BAD_UTF8)] + data[pos:]
        elif kind == "overwrite":
            k = 1 + int(b * 8)
            data = data[:pos] + bytes([0x80 + (i * 37 + k) % 0x7F for i in range(k)]) + data[pos + k:]
        elif kind == "crlf":
            data = data.replace(b"\n", b"\r\n")
        elif kind == "mixed":
            lines = data.split(b"\n")
            data = b"".join(l + (b"\r\n" if i % 3 == 0 else (b"\r" if i % 3 == 1 else b"\n")) for i, l in enumerate(lines))
        elif kind == "bom":
            data = b"\xef\xbb\xbf" + data
        elif kind == "utf16":
            data = data.decode("utf-8", "replace").encode("utf-16")
        elif kind == "delline":
            lines = data.split(b"\n")
            if len(lines) > 1:
                del lines[int(a * (len(lines) - 1))]
            data = b"\n".join(lines)
        elif kind == "dedent":
            lines = data.split(b"\n")
            if lines:
                i = int(a * (len(lines) - 1))
                lines[i] = lines[i].lstrip() if b < 0.5 else b"        " + lines[i]
            data = b"\n".join(lines)
        elif kind == "nonl":
            data = data.rstrip(b"\n")
        elif kind == "retype":  # one literal becomes a literal / expression of another type (the file usually stays valid)
            data = zoo.retype(data, a, b)
        else:
            raise ValueError(kind)
    return data


MUT_KINDS = ["retype", "retype", "retype", "truncate", "truncate-line", "truncate-line", "comment-line", "comment-line", "truncate-early", "truncate-at-open", "unclose", "ctrl", "ctrl", "delete", "dup", "swap", "insert", "insert", "badutf8", "overwrite", "crlf", "mixed", "bom", "utf16", "delline", "dedent", "nonl"]


def offender_bytes(case) -> bytes:
    k = case["kind"]
    if k == "mutant":
        return mutate(base_text(case["lang"], case["fams"], case["u"]).encode(), case["muts"])
    if k == "blowup":
        return blowup(case["blow"], case["n"], case["lang"]).encode()
    if k == "raw":
        return bytes.fromhex(case["hex"])
    if k == "blank":
        return case["text"].encode()
    if k == "zoo":  # the syntax zoo with ONE literal re-typed: (literal index, value index) is an enumerated matrix
        return zoo.retype_at(zoo.ZOO[case["lang"]].encode(), case["lit"], case["val"])
    if k == "linecut":  # (document, line boundary, tail form) is an enumerated matrix
        return linecut(linecut_doc(case["lang"], case["doc"]), case["cut"], case["tail"]).encode()
    if k == "ext":
        return ((case["shebang"] + "\n") if case["shebang"] else "").encode() + base_text(case["lang"], case["fams"], case["u"]).encode()
    raise ValueError(k)


# ------------------------------------------------------------------------------------------ oracle


_BASELINE = {}


def lib_run(root):
    """All rules once over the directory -> (violations, swallowed, escaped exception)."""
    orch = runner.fresh_orchestrator(root)
    with runner.capture_swallowed() as sw:
        try:
            vs = [runner.vdict(v) for v in orch.lint_directory(Path(root))]
            exc = None
        except _Timeout:
            raise
        except BaseException as e:  # noqa
            vs, exc = [], f"{type(e).__name__}: {str(e)[:200]} @ {_frame(e)}"
    return vs, list(sw), exc


def _frame(e):
    tb = traceback.extract_tb(e.__traceback__)
    for fr in reversed(tb):
        if "/src/" in fr.filename:
            return fr.filename.split("/src/", 1)[1] + ":" + fr.name
    return "?"


def sib_ms(vs, root):
    real = os.path.realpath(root)
    return Counter((v["rule_id"], os.path.basename(v["file_path"]), v["line"], v["column"],
                    v["message"].replace(real + "/", "").replace(root + "/", "")) for v in vs
                   if os.path.basename(v["file_path"]).startswith("sib_"))


def baseline():
    if "ms" not in _BASELINE:
        with Project(sibling_files(), config=CONFIG) as p:
            vs, sw, exc = lib_run(p.root)
            assert not sw and not exc, (sw, exc)
            _BASELINE["ms"] = sib_ms(vs, p.root)
            assert sum(_BASELINE["ms"].values()) >= 10 and any(k[0].startswith("dry.") for k in _BASELINE["ms"]), _BASELINE["ms"]
    return _BASELINE["ms"]


def sw_sig(rec):
    return f"{rec['exc_type']}@{rec['rule']}"


def sw_failure_sig(rec, where):
    """Root-cause signature of a swallowed rule failure. RecursionError is one class (the interpreter's
    recursion limit hit by ast.parse or by a rule's recursive tree walk) whatever rule trips over it first;
    every other exception type is identified by type, rule and language/extension."""
    if rec["exc_type"] == "RecursionError":
        return "swallowed|RecursionError"
    return f"swallowed|{sw_sig(rec)}|{where}"


def check(case) -> Case:
    data = offender_bytes(case)
    ext = case.get("ext", LANG_OF.get(case.get("lang", "py"), ".py"))
    name = "offender" + ext
    lang_label = case.get("lang", "raw")
    size_bucket = len(str(len(data)))
    labels = [f"kind={case['kind']}", f"ext={ext or 'none'}", f"size=1e{size_bucket}"]
    if case["kind"] == "mutant":
        labels += [f"mut={m[0]}" for m in case["muts"]]
    if case["kind"] == "blowup":
        labels.append(f"blow={case['blow']}")
    if case["kind"] == "linecut":
        labels += [f"linecut-doc={case['doc']}/{case['lang']}", f"linecut-tail={case['tail']}"]
    failures = []
    files = dict(sibling_files())
    where = ["", "zz/", "pkg/"][case.get("rot", 0) % 3]  # analysed before the siblings, after them, or among them
    files[where + name] = data
    labels.append("offender-" + (["first", "last", "among"][case.get("rot", 0) % 3]))
    detail = {"file": where + name, "size": len(data), "head": data[:160].decode("utf-8", "replace")}
    anomalous = False
    with Project(files, config=CONFIG) as p:
        t0 = time.time()
        try:
            vs, sw, exc = with_alarm(60, lambda: lib_run(p.root))
        except _Timeout:
            failures += confirm_hang(case, p.root, detail, "library")
            vs, sw, exc = [], [], None
            anomalous = True
        dt = time.time() - t0
        if exc:
            anomalous = True
            failures.append(Failure(f"escaped|{exc.split(':')[0]}@{exc.rsplit('@', 1)[1].strip()}", {**detail, "exception": exc}))
        for rec in sw:
            if rec["exc_type"] == "_Timeout":
                continue  # the harness's own alarm, not a failure of the rule
            anomalous = True
            failures.append(Failure(sw_failure_sig(rec, lang_label if case["kind"] == "blowup" else ext or "none"), {**detail, "record": rec}))
        if not exc:
            got = sib_ms(vs, p.root)
            if got != baseline():
                anomalous = True
                d = runner.diff_multisets(baseline(), got)
                rules = "+".join(sorted({k[0].split(".")[0] for k in d["only_left"] + d["only_right"]}))
                failures.append(Failure(f"siblings-changed|{rules}", {**detail, **d}))
        # real commands
        cmds = [ALL_CMDS[(case.get("rot", 0) + i) % len(ALL_CMDS)] for i in range(2)]
        if case.get("lib_only"):
            cmds = []  # enumerated matrices: the library run of all rules is the oracle, commands only to confirm an anomaly
        if anomalous or case.get("all_cmds"):
            cmds = ALL_CMDS
        for cmd in cmds:
            try:
                r = with_alarm(60, lambda cmd=cmd: runner.run_cli([cmd, "--format", "json", "."], cwd=p.root))
            except _Timeout:
                failures += confirm_hang(case, p.root, detail, cmd)
                continue
            if r.exit not in (0, 1) or r.exception:
                failures.append(Failure(f"cli-exit-{r.exit}|{cmd if not anomalous else 'any'}|{(r.exception or r.stderr.strip().splitlines()[-1:] or ['?'])[0] if r.exception else 'error'}"[:120],
                                        {**detail, "cmd": cmd, "exit": r.exit, "exception": r.exception, "stderr": r.stderr[-400:]}))
            elif "Traceback (most recent call last)" in r.stderr:
                failures.append(Failure(f"cli-traceback|{cmd}", {**detail, "cmd": cmd, "stderr": r.stderr[-600:]}))
            for rec in r.swallowed:
                if not any(f.sig.startswith("swallowed|" + sw_sig(rec)) or f.sig == sw_failure_sig(rec, "") for f in failures):
                    failures.append(Failure(sw_failure_sig(rec, ext or "none"), {**detail, "cmd": cmd, "record": rec}))
        labels.append("slow>5s" if dt > 5 else "fast")
    # de-duplicate signatures
    seen, uniq = set(), []
    for f in failures:
        if f.sig not in seen:
            seen.add(f.sig)
            uniq.append(f)
    recognised = ext.lower() in (".py", ".ts", ".tsx", ".js", ".jsx", ".rs") or case["kind"] in ("raw", "ext")
    nontrivial = recognised and case["kind"] != "blank" or case["kind"] == "blank"
    key = h([case["kind"], ext, [m[0] for m in case.get("muts", [])], case.get("blow"), size_bucket, case.get("lang"), h(data.hex()[:4000])])
    return Case(key=key, nontrivial=bool(nontrivial), labels=labels, failures=uniq)


SLOW = []  # commands that needed the fresh-process confirmation and finished there (reported in the evidence notes)


def confirm_hang(case, root, detail, where):
    """Re-run in a fresh subprocess with a generous limit; only then is it a hang."""
    args = ["nesting" if where == "library" else where, "--format", "json", "."]
    try:
        t0 = time.time()
        runner.run_cli_sub(args, cwd=root, timeout=300)
        # it terminated: slow (super-linear analysis, busy machine) is not "hangs" - a time budget never decides the property
        SLOW.append({"where": where, "seconds_in_fresh_process": round(time.time() - t0, 1), "case": {k: case.get(k) for k in ("kind", "blow", "n", "lang")}})
        return []
    except subprocess.TimeoutExpired:
        return [Failure(f"hang|{where}", {**detail, "limit_s": 300})]


# ------------------------------------------------------------------------------------------ strategies


frac = st.floats(0, 1, allow_nan=False, width=32).map(lambda x: round(x, 4))


@st.composite
def mutants(draw):
    lang = draw(st.sampled_from(["py", "py", "ts", "js", "rs"]))
    muts = draw(st.lists(st.tuples(st.sampled_from(MUT_KINDS), frac, frac).map(list), min_size=1, max_size=4))
    ext = LANG_OF[lang] if draw(st.integers(0, 9)) else draw(st.sampled_from(EXTS))
    return {"kind": "mutant", "lang": lang, "fams": draw(st.lists(st.integers(0, 12), min_size=1, max_size=4)), "u": draw(st.integers(0, 20)),
            "muts": muts, "ext": ext, "rot": draw(st.integers(0, 19)), "all_cmds": draw(st.integers(0, 15)) == 0}


def blowups(max_n):
    sizes = [n for n in (10, 50, 100, 200, 500, 1000, 2000, 3000, 5000, 20000, 100000, 1000000) if n <= max_n]

    @st.composite
    def s(draw):
        blow = draw(st.sampled_from(BLOWUPS))
        n = draw(st.sampled_from(sizes))
        if blow in ("parens", "brackets", "unary", "blocks", "elif") and n > 5000:
            n = 5000
        if blow == "functions" and n > 2000:
            n = 2000  # 5,000 functions take 35-80 s per command (super-linear but terminating): too close to the time limits
        if blow == "elif" and n > 1000:
            n = 1000  # a 2,000-link chain holds thousands of duplicate windows: DRY needs ~20 s for the file alone, minutes per case
        if blow not in ("longline", "comment") and n > 20000:
            n = 20000
        lang = draw(st.sampled_from(["py", "ts", "js", "rs"]))
        return {"kind": "blowup", "blow": blow, "n": n, "lang": lang, "rot": draw(st.integers(0, 19)), "all_cmds": False}
    return s()


@st.composite
def raws(draw):
    data = draw(st.one_of(st.binary(max_size=300), st.text(max_size=200).map(lambda t: t.encode("utf-8", "surrogatepass"))))
    return {"kind": "raw", "hex": data.hex(), "ext": draw(st.sampled_from(EXTS)), "rot": draw(st.integers(0, 19)), "all_cmds": False}


@st.composite
def blanks(draw):
    text = draw(st.sampled_from(["", " ", "\n", "\n\n\n", "\t\n  \n", "\r\n", "﻿", "\x0c", "　\n", "#", "//", "/*", '"""', "#!/usr/bin/env python3\n", "\x00", "x = 1\x00\n", "def f():\n    return 1\x00\n", "\x1a",
                                 # string literals whose VALUE is not encodable as UTF-8 (lone surrogate escapes), in the places string-valued rules look at
                                 'def f(x):\n    if x in ("a\\ud800", "b", "c"):\n        return 1\n    return 0\n',
                                 'def g(x):\n    if x == "\\udfff":\n        return 1\n    elif x == "ok":\n        return 2\n    return 0\n',
                                 'function h(x) {\n    if (x === "\\ud800") {\n        return 1;\n    } else if (x === "ok") {\n        return 2;\n    }\n    return 0;\n}\n',
                                 'setMode("\\ud800");\nsetMode("b");\n', 'set_mode("\\ud83d")\nset_mode("b")\n']))
    return {"kind": "blank", "text": text, "ext": draw(st.sampled_from(EXTS)), "rot": draw(st.integers(0, 19)), "all_cmds": draw(st.integers(0, 3)) == 0}


@st.composite
def exts(draw):
    lang = draw(st.sampled_from(["py", "ts", "js", "rs"]))
    return {"kind": "ext", "lang": lang, "fams": draw(st.lists(st.integers(0, 12), min_size=1, max_size=3)), "u": draw(st.integers(0, 20)),
            "ext": draw(st.sampled_from(EXTS)), "shebang": draw(st.sampled_from(["", "", "#!/usr/bin/env python3", "#!/usr/bin/python", "#!/bin/sh", "#!/usr/bin/env node"])),
            "rot": draw(st.integers(0, 19)), "all_cmds": draw(st.integers(0, 7)) == 0}


def run(ctx):
    baseline()
    # literal re-typing matrix over the syntax zoo: every literal x every replacement value (quick: the values that
    # change the literal's type most plainly, and the half of the cells selected by the seed)
    vals = range(len(zoo.RETYPE)) if not ctx.quick else range(12)
    cells = [{"kind": "zoo", "lang": lang, "lit": i, "val": v, "rot": (i + v) % 3, "lib_only": True}
             for lang in ("py", "ts", "js", "rs") for i in range(zoo.n_literals(lang)) for v in vals]
    if ctx.quick:
        cells = [c for k, c in enumerate(cells) if c["lang"] == "py" or (k + ctx.seed) % 2 == 0]
    mine = ctx.my_cells(cells)
    done = ctx.each(mine, check)
    ctx.stats.extra.setdefault("matrix", {})["syntax zoo: literal x replacement value"] = {"cells": len(mine), "done": done}
    # line-cut matrix: every document x every line boundary x tail form (the commented zoo under all three tails; the
    # all-families seed file with its newline kept / cut off, quick: the half of its cells selected by the seed)
    cuts = []
    for lang in ("py", "ts", "js", "rs"):
        for doc, tails in (("commented", TAILS), ("seeds", TAILS[:2])):
            n = zoo.n_lines(linecut_doc(lang, doc))
            cuts += [{"kind": "linecut", "lang": lang, "doc": doc, "cut": k, "tail": t, "rot": (k + j) % 3, "lib_only": True}
                     for k in range(1, n + 1) for j, t in enumerate(tails)
                     if not (ctx.quick and doc == "seeds" and (k + j + ctx.seed) % 2)]
    mine = ctx.my_cells(cuts)
    done = ctx.each(mine, check)
    ctx.stats.extra["matrix"]["line cut: document x line boundary x tail"] = {"cells": len(mine), "done": done}
    ctx.explore(mutants(), check, max_examples=ctx.n(45, 700), salt=1)
    ctx.explore(blowups(1000 if ctx.quick else 1000000), check, max_examples=ctx.n(12, 150), salt=2)
    ctx.explore(raws(), check, max_examples=ctx.n(15, 300), salt=3)
    ctx.explore(blanks(), check, max_examples=ctx.n(4, 30), salt=4)
    ctx.explore(exts(), check, max_examples=ctx.n(8, 100), salt=5)
    if not ctx.quick:
        fuzz_stage(ctx)
    for rec in SLOW[:10]:
        ctx.stats.notes.append(f"slow but terminating: {rec}")


def replay(case) -> Case:
    return check(case)


# ------------------------------------------------------------------------------------------ atheris stage (thorough)


def fuzz_stage(ctx):
    """Coverage-guided search with the same oracle inside the target; one fuzzer process per shard."""
    deps = os.path.join(os.path.dirname(os.path.dirname(os.path.dirname(os.path.abspath(__file__)))), ".deps")
    if not os.path.isdir(os.path.join(deps, "atheris")):
        ctx.stats.notes.append("atheris not installed (.deps missing): fuzz stage skipped")
        return
    budget = max(30, int(ctx.deadline - time.time()) - 20)
    if budget < 60:
        ctx.stats.notes.append("no time left for the fuzz stage")
        return
    out = os.path.join(runner.neutral_dir(), f"fuzz-{ctx.shard}.json")
    env = dict(os.environ, PYTHONPATH=os.pathsep.join([deps, os.environ.get("PYTHONPATH", "")]))
    p = subprocess.run([runner.PYTHON, "-m", "vf.props.c11_fuzz", str(ctx.seed * 100 + ctx.shard), str(budget), out, "seeded" if ctx.shard % 2 == 0 else "empty"],
                       env=env, capture_output=True, text=True, timeout=budget + 300)
    import json

    if not os.path.exists(out):
        ctx.stats.notes.append(f"fuzz stage produced no result (exit {p.returncode}): {p.stderr[-300:]}")
        return
    res = json.load(open(out))
    ctx.stats.extra["fuzz_executions"] = res["executions"]
    ctx.stats.extra["fuzz_corpus"] = {res["corpus_mode"]: 1}
    for c in res["findings"]:
        case = check(c)  # re-judge with the ordinary oracle: the saved input is the reproducible unit
        for f in ctx.record(case, c):
            ctx.add_violation(f, c)
