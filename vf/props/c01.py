"""C01 - nesting linter flags exactly the functions whose nesting exceeds the limit.

Generator: control-structure skeletons (vf/render/skeleton.py) rendered to py/ts/js/rs. Besides the tree itself a case
fixes the layout and the placement of a block's own plain statement relative to its control structures (before them |
after them | none, i.e. a control structure is the ONLY statement of the function body / loop body / else clause /
handler / case / closure around it). Python's `else:` clauses of for / async for / while / try are branches of their
statement (kinds forelse / aforelse / whileelse / tryelse): per the docs a statement in them is enclosed by that
statement exactly like one in the loop body or in an except handler.
Oracle: reference depth model on the abstract tree (depth = 1 + number of enclosing control
structures of the deepest statement; an if/elif/else chain is one structure, match/switch one),
checked for every limit 1..depth+2; plus the wrap-one-level metamorphic relation.
Known deviations of the tool are modelled explicitly (DEVIATIONS) so the search continues behind
them: a mismatch is a KNOWN finding only if the listed deviation explains it exactly.
"""
from __future__ import annotations

import copy
import itertools
import re

from hypothesis import strategies as st

from vf import runner
from vf.engine import Case, Failure, h, deviation_sets
from vf.project import Project
from vf.render import skeleton as sk

ID = "C01"
TECHNIQUE = "Hypothesis-generated control-structure skeletons rendered to 4 languages vs. a reference depth model; exhaustive small forests; wrap-one-level metamorphic relation"
RULE = (
    "case = list of functions (top-level/method/arrow/function-expression) whose bodies are forests of control "
    "structures (python: incl. the else clauses of for/async for/while/try as branches), rendered to every language that has "
    "all the kinds used in one of three layouts (one construct per line | one "
    "physical line per top-level item | leaf-only blocks written without a block) x three placements of a block's own plain "
    "statement (before its control structures | after them | none: a control structure is the only statement of its block), "
    "linted with every limit 1..maxdepth+2 "
    "(--max-depth or nesting.max_nesting_depth). Non-trivial: (>=2 functions or max depth >=3) and for some limit at "
    "least one function on each side of it. Distinct = structural hash of the skeleton (names erased) + language set."
)
ASSUMPTIONS = [
    "functions are never nested in another function's body",
    "every block without control structures contains a statement, so the deepest statement of a structure is inside it",
    "a python `else:` (of an if) that holds nothing but an `if` is an elif link (same AST): that block always keeps its own statement",
    "a loop's / try's `else:` clause is a nested block of that statement (docs: 'each nested block increments the depth')",
    "Rust closures / Python with,try / ts do-while etc. appear only in their own language's sub-domain",
    "in-process CLI (click CliRunner) equals a fresh process; cross-checked on the first cases of every run",
]
BUDGET_S = {"quick": 150, "thorough": 1500}

MSG = re.compile(r"^Function '([^']+)' has excessive nesting depth \((\d+)\)$")

# known deviations of the implementation from the documented model; each corresponds to one
# known_findings.json signature "dev:<name>". A deviation is only *accepted* when listed there.
DEVIATIONS = ("py-base-0", "py-match-case-double", "any-elseif-per-link", "ts-funcexpr-skipped")


def model_depth(forest, lang, devs=()) -> int:
    """Documented depth of a function body (1 for the body + enclosing control structures)."""
    base = 0 if (lang == "py" and "py-base-0" in devs) else 1
    return _forest_depth(forest, base, lang, devs)


def _forest_depth(forest, d, lang, devs):
    best = d
    for n in forest:
        k, b = n["k"], n["b"]
        if k == "if" and lang != "py" and "any-elseif-per-link" in devs:
            has_else = n.get("else") and len(b) >= 2
            conds = b[:-1] if has_else else b
            for idx, br in enumerate(conds):
                best = max(best, _forest_depth(br, d + 1 + idx, lang, devs))
            if has_else:
                best = max(best, _forest_depth(b[-1], d + len(conds), lang, devs))
        elif k == "match" and lang == "py" and "py-match-case-double" in devs:
            for br in b:
                best = max(best, _forest_depth(br, d + 2, lang, devs))
        else:
            for br in b:
                best = max(best, _forest_depth(br, d + 1, lang, devs))
    return best


def erase(forest):
    return [[n["k"], bool(n.get("else")), [erase(b) for b in n["b"]]] for n in forest]


# ------------------------------------------------------------------------------------ strategies


def _control(kinds, sub):
    opts = []
    for k in kinds:
        if k == "if":
            opts.append(st.builds(lambda b, e: {"k": "if", "b": b, "else": e and len(b) >= 2},
                                  st.lists(sub, min_size=1, max_size=4), st.booleans()))
        elif k in sk.BRANCHES:
            lo, hi = sk.BRANCHES[k]
            opts.append(st.builds(lambda b, k=k: {"k": k, "b": b}, st.lists(sub, min_size=lo, max_size=hi)))
        else:
            opts.append(st.builds(lambda b, k=k: {"k": k, "b": [b]}, sub))
    return st.one_of(opts)


def forests(kinds, max_leaves=10):
    return st.recursive(st.just([]), lambda sub: st.lists(_control(kinds, sub), min_size=0, max_size=3), max_leaves=max_leaves)


@st.composite
def deep_forest(draw, kinds, lo=2, hi=7):
    """A chain of `depth` nested controls with random side branches: makes deep cases likely."""
    depth = draw(st.integers(lo, hi))
    small = forests(kinds, max_leaves=3)
    inner = draw(small)
    for _ in range(depth):
        k = draw(st.sampled_from(kinds))
        if k == "if":
            n_br = draw(st.integers(1, 4))
            pos = draw(st.integers(0, n_br - 1))
            b = [inner if i == pos else draw(small) for i in range(n_br)]
            node = {"k": "if", "b": b, "else": draw(st.booleans()) and n_br >= 2}
        elif k in sk.BRANCHES:
            n_br = draw(st.integers(*sk.BRANCHES[k]))
            pos = draw(st.integers(0, n_br - 1))
            node = {"k": k, "b": [inner if i == pos else draw(small) for i in range(n_br)]}
        else:
            node = {"k": k, "b": [inner]}
        sib_before = draw(st.lists(_control(kinds, st.just([])), max_size=1))
        inner = sib_before + [node]
    return inner


@st.composite
def cases(draw):
    domain = draw(st.sampled_from(["common", "common", "py", "ts", "rs"]))
    kinds = list(sk.COMMON) + (list(sk.ONLY[domain]) if domain != "common" else [])
    nfun = draw(st.integers(1, 5))
    funcs = []
    for i in range(nfun):
        body = draw(st.one_of(forests(kinds), deep_forest(kinds)))
        cont = draw(st.sampled_from(["top", "top", "method", "arrow", "funcexpr", "curried", "callback", "defparam", "generator", "genexpr", "asyncfn",
                                     "objmethod", "classfield"]))
        funcs.append({"name": f"fn_{i}", "container": cont, "body": body})
    # methods are grouped so the class/impl block is contiguous
    funcs.sort(key=lambda f: f["container"] != "method")
    via = draw(st.sampled_from(["cli", "config"]))
    wrap = None
    if draw(st.booleans()):
        wk = [k for k in kinds if k not in ("match", "try", "tryelse")]
        wrap = {"func": draw(st.integers(0, nfun - 1)), "kind": draw(st.sampled_from(wk))}
    # the same skeleton written one construct per line, each function squeezed onto one physical line (ts/js/rs), or with
    # leaf-only blocks written without a block (one-line `if c: stmt`, brace-less bodies, bare match arms, expression closures)
    layout = draw(st.sampled_from(["lines", "lines", "compact", "terse", "terse"]))
    # where a block that holds control structures has its own plain statement: before them, after them, or not at all (then a
    # control structure is the only statement of the function body / loop body / else clause / handler / case around it)
    leaf = draw(st.sampled_from(["first", "omit", "omit", "last"]))
    return {"kind": "skeleton", "funcs": funcs, "via": via, "wrap": wrap, "layout": layout, "leaf": leaf}


# ------------------------------------------------------------------------------------ running


def observe(funcs, lang, limits, via, layout="lines", leaf="first"):
    """-> {limit: {fname: (depth, line)}}, headers, anomalies"""
    text, headers = sk.render(funcs, lang, layout, leaf)
    fname = "mod" + sk.EXT[lang]
    out = {}
    anomalies = []
    known_names = {f["name"] for f in funcs}
    by_line = {line: name for name, line in headers.items()}
    with Project({fname: text}) as p:
        for L in limits:
            if via == "config":
                p.set_config({"nesting": {"max_nesting_depth": L}})
                args = ["nesting", "--format", "json", fname]
            else:
                args = ["nesting", "--format", "json", "--max-depth", str(L), fname]
            r = runner.run_cli(args, cwd=p.root)
            if r.exit not in (0, 1) or r.swallowed or r.exception:
                anomalies.append({"limit": L, "exit": r.exit, "stderr": r.stderr[-300:], "swallowed": r.swallowed, "exc": r.exception})
                continue
            seen = {}
            for v in r.violations:
                m = MSG.match(v["message"])
                if v["rule_id"] != "nesting.excessive-depth" or not m:
                    anomalies.append({"limit": L, "unexpected_violation": v})
                    continue
                name = m.group(1)
                if name not in known_names and v["line"] in by_line:
                    # a function without a name of its own (curried / callback / parameter default) is identified by its line;
                    # the enclosing expression-bodied arrow function starts on the same line and has the same depth
                    name = by_line[v["line"]]
                    if name in seen and seen[name] == (int(m.group(2)), v["line"]):
                        continue
                if name in seen:
                    anomalies.append({"limit": L, "reported_twice": name})
                seen[name] = (int(m.group(2)), v["line"])
            if (r.exit == 1) != bool(r.violations):
                anomalies.append({"limit": L, "exit": r.exit, "n": len(r.violations)})
            out[L] = seen
    return out, headers, text, anomalies


def _deepest_path_kinds(forest):
    """kinds on one deepest path (for signatures)"""
    best = (0, [])
    for n in forest:
        for b in n["b"]:
            d, ks = _deepest_path_kinds(b)
            if d + 1 > best[0]:
                best = (d + 1, [n["k"]] + ks)
    return best


def judge_func(f, lang, obs, headers, limits, devs):
    """Compare one function's observations with the model under deviation set devs -> mismatches."""
    bad = []
    if "ts-funcexpr-skipped" in devs and lang in ("ts", "js") and f["container"] == "funcexpr":
        return [{"func": f["name"], "limit": L, "got": f"reported with depth {obs[L][f['name']][0]}"} for L in limits if L in obs and f["name"] in obs[L]]
    exp = model_depth(f["body"], lang, devs)
    for L in limits:
        if L not in obs:
            continue
        got = obs[L].get(f["name"])
        if exp > L:
            if got is None:
                bad.append({"func": f["name"], "limit": L, "expected_depth": exp, "got": "not reported"})
            elif got[0] != exp:
                bad.append({"func": f["name"], "limit": L, "expected_depth": exp, "got_depth": got[0]})
            elif got[1] != headers[f["name"]]:
                bad.append({"func": f["name"], "limit": L, "expected_line": headers[f["name"]], "got_line": got[1]})
        elif got is not None:
            bad.append({"func": f["name"], "limit": L, "expected_depth": exp, "got": f"reported with depth {got[0]}"})
    return bad


def explain_func(f, lang, obs, headers, limits):
    """-> None | ('known', [devs], spec_mismatches) | ('unknown', spec_mismatches)"""
    spec_bad = judge_func(f, lang, obs, headers, limits, ())
    if not spec_bad:
        return None
    applicable = [d for d in DEVIATIONS if d.split("-")[0] in (lang, "any") or (d.startswith("ts-") and lang == "js")]
    for devs in deviation_sets("C01", applicable, key=lambda n: "dev:" + n):
        if not judge_func(f, lang, obs, headers, limits, devs):
            return ("known", list(devs), spec_bad)
    return ("unknown", spec_bad)


def wrap_deepest(forest, kind):
    """Return a copy with the deepest leaf position wrapped in one more control of `kind`."""
    forest = copy.deepcopy(forest)

    def depth(fr):
        return max([0] + [1 + max(depth(b) for b in n["b"]) for n in fr])

    def go(fr):
        if not fr or depth(fr) == 0:
            # the leaf statement of this block is a deepest statement: wrap = new control holding a block
            fr.append({"k": kind, "b": [[] for _ in range(sk.BRANCHES.get(kind, (1, 1))[0])], **({"else": False} if kind == "if" else {})})
            return
        best_n, best_b, best_d = None, None, -1
        for n in fr:
            for b in n["b"]:
                d = depth(b)
                if d > best_d:
                    best_n, best_b, best_d = n, b, d
        go(best_b)

    go(forest)
    return forest


def check(case) -> Case:
    funcs = case["funcs"]
    langs = sk.langs_for(funcs)
    spec_depths = {f["name"]: model_depth(f["body"], "x") for f in funcs}
    dmax = max(spec_depths.values())
    limits = list(range(1, dmax + 3))
    failures = []
    labels = [f"langs={len(langs)}", f"dmax={min(dmax, 8)}", f"via={case['via']}", f"nfun={len(funcs)}", f"layout={case.get('layout', 'lines')}", f"leaf={case.get('leaf', 'first')}"]
    for lang in langs:
        obs, headers, text, anomalies = observe(funcs, lang, limits, case["via"], case.get("layout", "lines"), case.get("leaf", "first"))
        for a in anomalies:
            failures.append(Failure(f"{lang}|anomaly|{sorted(a)[0]}", {"lang": lang, **a, "source": text}))
        uniform = set()  # functions whose observed depth is the documented one up to the uniform python offset
        for f in funcs:
            ex = explain_func(f, lang, obs, headers, limits)
            # (a python function with `match` is left out: the known match/case deviation changes which
            # statement is the deepest one, so "wrap the deepest statement" is not well-defined for the tool)
            if (ex is None or (ex[0] == "known" and ex[1] == ["py-base-0"])) and not (lang == "py" and "match" in sk.kinds_in(f["body"])):
                uniform.add(f["name"])
            if ex is None:
                continue
            if ex[0] == "known":
                for d in ex[1]:
                    failures.append(Failure(f"dev:{d}", {"lang": lang, "mismatches_vs_documented_model": ex[2][:3], "source": text}))
                continue
            first = ex[1][0]
            kinds = sorted(set(_deepest_path_kinds(f["body"])[1]))
            if first.get("got") == "not reported":
                kind_of = "missing"
            elif "reported with" in str(first.get("got", "")):
                kind_of = "extra"
            elif "expected_line" in first:
                kind_of = "line"
            else:
                kind_of = "depth+" if first["got_depth"] > first["expected_depth"] else "depth-"
            cont = f["container"] if lang in ("ts", "js") or f["container"] == "method" else "top"
            failures.append(Failure(f"{lang}|{cont}|{kind_of}", {"lang": lang, "kinds_on_deepest_path": kinds, "mismatches": ex[1][:5], "source": text}))
        # metamorphic: wrapping the deepest statement raises the reported depth by exactly one
        w = case.get("wrap")
        if w and w["kind"] in (sk.COMMON + sk.ONLY[lang]) and funcs[w["func"] % len(funcs)]["name"] in uniform:
            tgt = funcs[w["func"] % len(funcs)]
            wrapped = [dict(f) for f in funcs]
            wi = w["func"] % len(funcs)
            wrapped[wi] = {**tgt, "body": wrap_deepest(tgt["body"], w["kind"])}
            obs2, headers2, text2, an2 = observe(wrapped, lang, limits + [dmax + 3], case["via"], case.get("layout", "lines"), case.get("leaf", "first"))
            name = tgt["name"]
            d1 = obs.get(1, {}).get(name)
            d2 = obs2.get(1, {}).get(name)
            labels.append("wrap")
            if d1 is not None and d2 is not None and d2[0] != d1[0] + 1:
                failures.append(Failure(f"{lang}|wrap-not-plus-one|{w['kind']}", {"lang": lang, "func": name, "before": d1[0], "after": d2[0], "source_before": text, "source_after": text2}))
            if d2 is not None:
                # verdict of the wrapped function flips at exactly one limit: reported for L < D, not for L >= D
                D = d2[0]
                for L in limits + [dmax + 3]:
                    rep = name in obs2.get(L, {})
                    if L in obs2 and rep != (D > L):
                        failures.append(Failure(f"{lang}|verdict-not-threshold|{w['kind']}", {"lang": lang, "func": name, "limit": L, "stated_depth": D, "reported": rep, "source": text2}))
                        break
    two_sided = any(any(d > L for d in spec_depths.values()) and any(d <= L for d in spec_depths.values()) for L in limits)
    nontrivial = (len(funcs) >= 2 or dmax >= 3) and two_sided
    key = h([sorted(langs), [[f["container"], erase(f["body"])] for f in funcs]])
    return Case(key=key, nontrivial=nontrivial, labels=labels, failures=failures)


# ------------------------------------------------------------------------------------ exhaustive small forests


COMMON_VARIANTS = [("if", 1, False), ("if", 2, True), ("if", 3, True), ("for", 1, False), ("while", 1, False), ("match", 2, False)]
# a language's own kinds: (kind, branches, else-flag); try = body + handler (+ finally)
OWN_VARIANTS = {
    "py": [("with", 1, False), ("awith", 1, False), ("afor", 1, False), ("try", 2, False), ("try", 3, False),
           ("forelse", 2, False), ("whileelse", 2, False), ("aforelse", 2, False), ("tryelse", 3, False), ("tryelse", 4, False)],
    "ts": [("dowhile", 1, False), ("forin", 1, False), ("forof", 1, False), ("try", 2, False), ("try", 3, False)],
    "rs": [("loop", 1, False), ("whilelet", 1, False), ("iflet", 1, False), ("closure", 1, False), ("asyncblock", 1, False)],
}


def small_forests(max_nodes, variants=None):
    """All forests over the given kinds (default: the common ones) with <= max_nodes control nodes (if-variants: plain,
    else, elif+else)."""
    from functools import lru_cache

    variants = list(variants or COMMON_VARIANTS)

    @lru_cache(None)
    def gen(n):  # forests with exactly n nodes (as tuples)
        if n == 0:
            return [()]
        out = []
        for first in range(1, n + 1):  # nodes in first tree
            for t in trees(first):
                for rest in gen(n - first):
                    out.append((t,) + rest)
        return out

    @lru_cache(None)
    def trees(n):  # a single control node with n nodes in total
        out = []
        for k, nb, e in variants:
            for split in splits(n - 1, nb):
                for combo in itertools.product(*[gen(s) for s in split]):
                    out.append((k, e, combo))
        return out

    def splits(total, parts):
        if parts == 1:
            return [(total,)]
        return [(i,) + r for i in range(total + 1) for r in splits(total - i, parts - 1)]

    def tod(fr):
        return [{"k": k, "else": e, "b": [tod(b) for b in bs]} for k, e, bs in fr]

    res = []
    for n in range(0, max_nodes + 1):
        res.extend(tod(f) for f in gen(n))
    return res


# (layout, placement of a block's own statement) variants every matrix forest is written in
VARIANTS_FULL = (("lines", "first"), ("terse", "first"), ("lines", "omit"), ("lines", "last"))
VARIANTS_QUICK_OWN = (("lines", "first"), ("lines", "omit"))


def _matrix_cells(mine, variants, group=4):
    cells = []
    for i in range(0, len(mine), group):
        chunk = mine[i:i + group]
        for layout, leaf in variants:
            cells.append({"kind": "skeleton", "via": "cli", "wrap": None, "layout": layout, "leaf": leaf,
                          "funcs": [{"name": f"fn_{j}", "container": "top", "body": b} for j, b in enumerate(chunk)]})
    return cells


def run(ctx):
    ctx.explore(cases(), check, max_examples=ctx.n(60, 600))
    # exhaustive sub-space: every forest with <= N control nodes over the common kinds, all 4 languages
    N = 2 if ctx.quick else 3
    group = 4
    allf = small_forests(N)
    mine = ctx.my_cells(allf)
    variants = VARIANTS_FULL
    done = ctx.each(_matrix_cells(mine, variants, group), check)
    ctx.stats.extra.setdefault("matrix", {})[f"all forests with <= {N} control nodes over if/if-else/if-elif-else/for/while/match"] = {
        "cells": len(mine), "done": min(len(mine), done * group // len(variants)), "layout x leaf": ["/".join(v) for v in variants]}
    ctx.stats.extra["exhaustive_subspace_nodes"] = N
    # the same for every language's own alphabet (common kinds + the kinds only that language has); only forests that hold
    # at least one of the language's own kinds are new here. ts cells are rendered to .ts and .js.
    for lang in ("py", "ts", "rs"):
        own = {k for k, _, _ in OWN_VARIANTS[lang]}
        allf = [f for f in small_forests(2, COMMON_VARIANTS + OWN_VARIANTS[lang]) if sk.kinds_in(f) & own]
        if ctx.quick:  # one half per seed parity, by a hash over the whole list (not by shard-local index)
            allf = [f for f in allf if (int(h(erase(f)), 16) + ctx.seed) % 2 == 0]
        mine = ctx.my_cells(allf)
        variants = VARIANTS_QUICK_OWN if ctx.quick else VARIANTS_FULL
        done = ctx.each(_matrix_cells(mine, variants, group), check)
        ctx.stats.extra["matrix"][f"{lang}: all forests with <= 2 control nodes over the common kinds + {'/'.join(sorted(own))} that use one of the latter" + (" (half by seed parity)" if ctx.quick else "")] = {
            "cells": len(mine), "done": min(len(mine), done * group // len(variants)), "layout x leaf": ["/".join(v) for v in variants]}


def replay(case) -> Case:
    return check(case)
