"""C14 - a run lints exactly the non-excluded, non-ignored files under the given paths.

Generator: directory trees over a name alphabet with ordinary, hidden, always-excluded and look-alike names at
every depth, source / compiled / other / extension-less files; 0-4 repository ignore patterns of the documented
forms derived from the tree, carried by .thailintignore or the config's `ignore:` list; recursive flag; target =
project root, a sub-directory, explicit files, or a directory plus files outside it.

"Was linted" is observable three ways: every source file carries its own magic number and its own deeply nested
function (commands magic-numbers, nesting), and a deny-everything file-placement rule makes EVERY regular file
report once (command file-placement) - that is what makes compiled artefacts and extension-less files visible.

Oracle: vf/oracle/select.py (written from the statement + docs, gitignore-style semantics for the documented pattern
forms). Observed multiset of files == model multiset, for the three commands through the CLI and through
Linter.lint (library walks are always recursive, so the library is compared on recursive runs only).

Deviations of the tool from the documented semantics that were confirmed by hand are modelled explicitly
(select.DEVIATIONS): a mismatch is a KNOWN finding only if a minimal set of recorded deviations explains the observed
set exactly; anything else is a violation.
"""
from __future__ import annotations

import itertools
from collections import Counter
import os

from hypothesis import strategies as st

from vf import runner, seeds
from vf.engine import Case, Failure, h, deviation_sets
from vf.oracle import select as sel
from vf.project import Project

ID = "C14"
TECHNIQUE = ("Hypothesis-generated directory trees x ignore-pattern sets x recursive flag x target kind; reference "
             "selection model (gitignore-style semantics of the documented pattern forms); per-file marker violations "
             "(magic number, nesting, deny-all file-placement) observed through the CLI and Linter.lint")
RULE = (
    "case = 3-16 files in a tree of <=6 directories (depth <=4) whose names are drawn from ordinary / hidden / "
    "always-excluded / look-alike alphabets, 0-4 ignore patterns of the documented forms built from names of the tree, "
    "carrier (.thailintignore | config ignore: | both, patterns shared out), recursive flag, targets (root | sub-directory | explicit files | "
    "directory + outside files, where with --no-recursive files deeper below the directory count as outside). Three CLI runs (magic-numbers, nesting, file-placement) and, when recursive, Linter.lint "
    "per target; each observed file multiset must equal the model's. Non-trivial: a source file inside an "
    "always-excluded directory AND a look-alike name AND a pattern that matches some but not all files. Distinct = hash "
    "of (name-class shape of the tree, pattern forms, recursive, target kind)."
)
ASSUMPTIONS = [
    "cwd = project root, targets spelled as relative paths (path spelling is C09's subject)",
    "always-excluded names are the statement's list (.git node_modules __pycache__ .venv venv build dist *_cache *.egg-info); "
    ".tox/.eggs/htmlcov/.svn/.hg, which the code also excludes but the statement does not list, are not generated",
    "carrier 'both': .thailintignore and the config list exist together and each holds a share of the patterns; the model is the union (statement: a pattern 'from .thailintignore or the config's ignore list'); the same pattern is never put into both",
    "patterns only of the documented forms over [A-Za-z0-9_.] names; an exact-path pattern for a root-level file is only "
    "generated when its basename is unique in the tree (gitignore would also match it deeper; the docs call it a single file)",
    "explicit file targets are never covered by a directory target of the same run (whether a doubly named file reports twice is C10's "
    "subject); with --no-recursive a file deeper below a directory target is not covered by it and is generated",
    "a .git directory is only generated directly in the project root (a nested .git turns the sub-directory into its own "
    "project root for targets below it, so 'the repository's' config and ignore file would be ambiguous)",
    "no symlinks; no negation / escapes / leading-slash patterns (not documented)",
    "in-process CLI (click CliRunner) equals a fresh process; cross-checked on the first cases of every run",
]
BUDGET_S = {"quick": 110, "thorough": 1300}

MAGIC_RULE = "magic-numbers.numeric-literal"
NEST_RULE = "nesting.excessive-depth"
FP_RULE = "file-placement"
LIB_RULES = [MAGIC_RULE, NEST_RULE, FP_RULE]
CMDS = (("magic-numbers", MAGIC_RULE), ("nesting", NEST_RULE), ("file-placement", FP_RULE))

# ------------------------------------------------------------------------------------ alphabet

ORD_DIRS = ["src", "pkg", "lib", "app", "legacy", "core", "tools"]
HID_DIRS = [".cfg", ".hid"]
EXC_DIRS = list(sel.EXCLUDED_DIRS) + ["pkg.egg-info"]
LOOK_DIRS = ["builder", "dist2", "venvs", "mybuild", "node_modules2", "git", "_build", "build.d", "egg-info",
             "srcs", "legacy2", "lib_old", "pycache", "pkg.egg-infos"]
STEMS = ["mod", "main", "item1", "item2", "itemA", "util_x", "api_gen", "mod_gen", "legacy_mod", "src_main", "lib_x",
         "build", "dist", "venv_tools", "conf", "mod.o", "lib.so", "app_x"]
SRC_EXT = {"py": ".py", "ts": ".ts", "js": ".js", "rs": ".rs"}
COMPILED = list(sel.COMPILED_EXT)
OTHER_EXT = [".txt", ".md", ".pyx", ".ob"]
EXTLESS = ["build", "dist", "venv", "Makefile", "notes"]
LOOK_STEMS = {"build", "dist", "venv_tools", "mod.o", "lib.so", "legacy_mod", "src_main", "lib_x"}


def name_class(n: str) -> str:
    if sel.is_excluded_dirname(n):
        return "E"
    if n in LOOK_DIRS:
        return "L"
    if n.startswith("."):
        return "H"
    return "o"


@st.composite
def cases(draw):
    # directories
    dirs = [""]
    for _ in range(draw(st.integers(1, 6))):
        parent = draw(st.sampled_from(dirs))
        if parent.count("/") >= 3 and parent:
            parent = ""
        pool = draw(st.sampled_from([ORD_DIRS, ORD_DIRS, EXC_DIRS, EXC_DIRS, LOOK_DIRS, HID_DIRS]))
        name = draw(st.sampled_from(pool))
        if name == ".git" and parent:
            parent = ""  # a nested .git makes the sub-directory its own repository: which root/config applies is ambiguous
        d = (parent + "/" if parent else "") + name
        if d not in dirs:
            dirs.append(d)
    # files
    files, taken = [], set(dirs)
    for _ in range(draw(st.integers(3, 16))):
        d = draw(st.sampled_from(dirs))
        kind = draw(st.sampled_from(["py", "py", "py", "ts", "rs", "js", "py", "ts", "compiled", "compiled", "other", "extless"]))
        if kind == "extless":
            base = draw(st.sampled_from(EXTLESS))
            kind = "other"
        elif kind == "compiled":
            base = draw(st.sampled_from(STEMS)) + draw(st.sampled_from(COMPILED))
        elif kind == "other":
            base = draw(st.sampled_from(STEMS)) + draw(st.sampled_from(OTHER_EXT))
        else:
            base = draw(st.sampled_from(STEMS)) + SRC_EXT[kind]
        p = (d + "/" if d else "") + base
        if p in taken:
            continue
        taken.add(p)
        files.append({"p": p, "k": kind})
    if not files:
        files.append({"p": "mod.py", "k": "py"})
    paths = [f["p"] for f in files]
    live_dirs = sorted({"/".join(p.split("/")[:k]) for p in paths for k in range(1, p.count("/") + 1)})
    comp_names = sorted({c for d in live_dirs for c in d.split("/")})
    # patterns
    patterns = []
    for _ in range(draw(st.sampled_from([0, 1, 1, 2, 2, 3, 4]))):
        form = draw(st.sampled_from(["name/", "name/", "**/name/", "*.ext", "dir/**", "**/*_suffix", "exact", "?", "[abc]"]))
        pat = None
        if form in ("name/", "**/name/"):
            cand = [c for c in comp_names if not sel.is_excluded_dirname(c)] or ORD_DIRS
            base = draw(st.sampled_from(sorted(set(cand + ["legacy", "src", "lib"]))))
            pat = ("**/" if form == "**/name/" else "") + base + "/"
        elif form == "*.ext":
            pat = "*" + draw(st.sampled_from([".py", ".ts", ".js", ".rs", ".txt", ".md"]))
        elif form == "dir/**":
            pat = draw(st.sampled_from(live_dirs or ["src"])) + "/**"
        elif form == "**/*_suffix":
            cand = sorted({"*_" + os.path.basename(p).rsplit("_", 1)[1] for p in paths if "_" in os.path.basename(p) and "." in os.path.basename(p).rsplit("_", 1)[1]})
            pat = "**/" + draw(st.sampled_from(cand or ["*_gen.py"]))
        elif form == "exact":
            bases = [os.path.basename(p) for p in paths]
            cand = [p for p in paths if "/" in p or bases.count(p) == 1]
            if cand:
                pat = draw(st.sampled_from(cand))
        else:
            cand = [os.path.basename(p) for p in paths if "." in os.path.basename(p)[1:]]
            if cand:
                b = draw(st.sampled_from(sorted(set(cand))))
                stem_len = b.index(".", 1)
                pos = draw(st.integers(0, stem_len - 1))
                if form == "?":
                    pat = b[:pos] + "?" + b[pos + 1:]
                else:
                    alt = draw(st.sampled_from("12Axz_"))
                    pat = b[:pos] + "[" + b[pos] + alt + "]" + b[pos + 1:]
        if pat and pat not in patterns:
            patterns.append(pat)
    carrier = draw(st.sampled_from(["file", "config", "both"]))
    recursive = draw(st.sampled_from([True, True, False]))
    tk = draw(st.sampled_from(["root", "root", "subdir", "files", "mixed"]))
    if tk in ("subdir", "mixed") and not live_dirs:
        tk = "root"
    if tk == "root":
        targets = ["."]
    elif tk == "subdir":
        targets = [draw(st.sampled_from(live_dirs))]
    elif tk == "files":
        targets = draw(st.lists(st.sampled_from(paths), min_size=1, max_size=4, unique=True))
    else:
        d = draw(st.sampled_from(live_dirs))
        outside = [p for p in paths if not p.startswith(d + "/")]
        if not recursive:
            # a non-recursive directory target covers its direct children only: files deeper below it are "outside" too
            deeper = [p for p in paths if p.startswith(d + "/") and "/" in p[len(d) + 1:]]
            outside = deeper + deeper + outside
        targets = [d] + (draw(st.lists(st.sampled_from(outside), min_size=1, max_size=2, unique=True)) if outside else [])
        if draw(st.booleans()):
            targets = targets[1:] + targets[:1]  # the order of the arguments is not supposed to matter
    return {"files": files, "patterns": patterns, "carrier": carrier, "recursive": recursive, "targets": targets, "tk": tk}


# ------------------------------------------------------------------------------------ rendering


def content(i: int, kind: str) -> str:
    if kind in SRC_EXT:
        text, _, _ = seeds.compose(kind, [seeds.seed("magic", kind, i), seeds.seed("nesting", kind, i)], header=False)
        return text
    return f"data {i}\n"


def magic_of(i: int) -> int:
    return 1300 + 7 * i


def build(case):
    cfg = {"file-placement": {"global_deny": [{"pattern": ".*", "reason": "marker"}]}}
    files = {}
    for i, f in enumerate(case["files"]):
        files[f["p"]] = content(i, f["k"])
    meta = [".thailint.yaml"]
    if case["carrier"] == "config":
        if case["patterns"]:
            cfg["ignore"] = list(case["patterns"])
    elif case["carrier"] == "both":
        # both sources at once, each carrying its share of the patterns (the statement: "a repository ignore pattern from
        # .thailintignore or the config's `ignore` list" - a file matching a pattern of either is not linted)
        cfg["ignore"] = list(case["patterns"][1::2])
        files[".thailintignore"] = "# generated ignore file\n\n" + "".join(p + "\n" for p in case["patterns"][0::2])
        meta.append(".thailintignore")
    else:
        files[".thailintignore"] = "# generated ignore file\n\n" + "".join(p + "\n" for p in case["patterns"])
        meta.append(".thailintignore")
    return files, cfg, meta


# ------------------------------------------------------------------------------------ judging


def file_class(rel: str) -> str:
    parts = rel.split("/")
    base = parts[-1]
    if sel.is_excluded_dirname(base):
        return "file-named-like-excluded-dir"
    if any(name_class(p) == "L" for p in parts[:-1]):
        return "in-lookalike-dir"
    if any(p.startswith(".") for p in parts[:-1]):
        return "in-hidden-dir"
    if base.startswith("."):
        return "hidden-file"
    if base.rsplit(".", 1)[0] in LOOK_STEMS:
        return "lookalike-file"
    return "plain"


def explain(obs, universe, case, entry):
    """Compare an observed file multiset with the model -> list[Failure]."""
    targets, rec, pats = case["targets"], case["recursive"], case["patterns"]
    exp = sel.select(universe, targets, rec, pats)
    if obs == exp:
        return []
    for devs in deviation_sets("C14", list(sel.DEVIATIONS)):
        if sel.select(universe, targets, rec, pats, devs) == obs:
            d = {"entry": entry, "targets": targets, "recursive": rec, "patterns": pats, "carrier": case["carrier"],
                 "linted_but_should_not": sorted((obs - exp).elements()), "not_linted_but_should": sorted((exp - obs).elements())}
            return [Failure("dev:" + x, d) for x in devs]
    extra = sorted((obs - exp).elements())
    missing = sorted((exp - obs).elements())
    detail = {"entry": entry, "targets": targets, "recursive": rec, "patterns": pats, "carrier": case["carrier"],
              "files": sorted(universe), "linted_but_should_not": extra, "not_linted_but_should": missing}
    ent = entry.split(":")[0]
    if extra:
        f = extra[0]
        if f not in universe:
            why = "unknown-path"
        elif exp[f] > 0:
            why = "reported-twice"
        else:
            why = sel.drop_reason(f, pats) or ("not-under-target" if not any(sel.under(f, t.rstrip("/") or ".", True) or f == t for t in targets) else "deeper-than-nonrecursive")
            if f in targets:
                why += "+explicit"
        return [Failure(f"{ent}|linted-but-should-not|{why}", detail)]
    f = missing[0]
    why = file_class(f) + ("+explicit" if f in targets else "")
    if obs[f] > 0:
        why = "reported-less-often"
    return [Failure(f"{ent}|not-linted|{why}", detail)]


def check(case) -> Case:
    files, cfg, meta = build(case)
    paths = [f["p"] for f in case["files"]]
    src = [f["p"] for f in case["files"] if f["k"] in SRC_EXT]
    idx = {f["p"]: i for i, f in enumerate(case["files"])}
    universe = {MAGIC_RULE: src, NEST_RULE: src, FP_RULE: paths + meta}
    failures = []
    rec, targets, pats = case["recursive"], case["targets"], case["patterns"]

    def tally(vs, root, entry):
        """violations -> {rule: Counter(file)}; content sanity of the markers"""
        per = {r: Counter() for r in LIB_RULES}
        for v in vs:
            rid = v["rule_id"]
            rel = runner.norm_path(v["file_path"], root, root)
            if rid not in per:
                failures.append(Failure(f"{entry.split(':')[0]}|foreign-rule", {"entry": entry, "violation": v}))
                continue
            if rid == MAGIC_RULE and rel in idx and str(magic_of(idx[rel])) not in v["message"]:
                failures.append(Failure("marker-attributed-to-wrong-file", {"entry": entry, "violation": v, "expected_number": magic_of(idx[rel])}))
            per[rid][rel] += 1
        return per

    with Project(files, config=cfg) as p:
        for cmd, rid in CMDS:
            args = [cmd, "--format", "json"] + ([] if rec else ["--no-recursive"]) + list(targets)
            r = runner.run_cli(args, cwd=p.root)
            entry = f"cli:{cmd}"
            if r.exit not in (0, 1) or r.swallowed or r.exception:
                failures.append(Failure("cli|anomaly", {"args": args, "exit": r.exit, "stderr": r.stderr[-400:], "swallowed": r.swallowed, "exc": r.exception}))
                continue
            vs = r.violations
            if (r.exit == 1) != bool(vs):
                failures.append(Failure("cli|exit-code-vs-count", {"args": args, "exit": r.exit, "n": len(vs)}))
            per = tally(vs, p.root, entry)
            for other in LIB_RULES:
                if other != rid and per[other]:
                    failures.append(Failure("cli|foreign-rule", {"args": args, "rule": other}))
            failures.extend(explain(per[rid], universe[rid], case, entry))
        if rec:
            old = os.getcwd()
            os.chdir(p.root)
            try:
                with runner.capture_swallowed() as swallowed:
                    linter = runner.fresh_linter(p.root)
                    vs = []
                    for t in targets:
                        vs.extend(runner.vdict(v) for v in linter.lint(t, rules=LIB_RULES))
            finally:
                os.chdir(old)
            if swallowed:
                failures.append(Failure("lib|anomaly", {"swallowed": swallowed[:3]}))
            per = tally(vs, p.root, "lib")
            for rid in LIB_RULES:
                failures.extend(explain(per[rid], universe[rid], case, f"lib:{rid}"))

    # ---- measuring the generator
    spec = sel.select(paths + meta, ["."], True, pats)
    allf = sel.select(paths + meta, ["."], True, [])
    exc_with_src = any(sel.in_excluded_dir(f) for f in src)
    look = any(name_class(c) == "L" for f in paths for c in f.split("/")[:-1]) or any(file_class(f) in ("lookalike-file", "file-named-like-excluded-dir") for f in paths)
    partial = any(0 < sum(1 for f in allf if sel.matches(f, q)) < len(allf) for q in pats)
    forms = sorted({sel.pattern_form(q) for q in pats})
    labels = [f"target={case['tk']}", f"recursive={rec}", f"carrier={case['carrier']}", f"npatterns={len(pats)}",
              f"nfiles={'<=5' if len(paths) <= 5 else '<=10' if len(paths) <= 10 else '>10'}",
              f"depth={max(f.count('/') for f in paths)}"] + [f"form={x}" for x in forms]
    if exc_with_src:
        labels.append("src-in-excluded-dir")
    if look:
        labels.append("lookalike")
    if partial:
        labels.append("partial-pattern")
    if any(f["k"] == "compiled" for f in case["files"]):
        labels.append("compiled-file")
    if any(t in paths and sel.drop_reason(t, pats) for t in targets):
        labels.append("explicit-excluded-or-ignored-target")
    if len(spec) < len(allf):
        labels.append("some-file-ignored")
    shape = sorted("/".join(name_class(c) for c in f["p"].split("/")[:-1]) + ":" + f["k"] for f in case["files"])
    key = h([shape, forms, rec, case["tk"], case["carrier"]])
    return Case(key=key, nontrivial=bool(exc_with_src and look and partial), labels=labels, failures=failures)


def run(ctx):
    ctx.explore(cases(), check, max_examples=ctx.n(200, 6000))


def replay(case) -> Case:
    return check(case)
