"""C15 - each command reports only its own rules; rules fire only on their languages.

lang case : one bait (a seed of some rule in its native language) stored under an extension from
            {.py .PY .Py .ts .TS .tsx .TSX .js .JS .jsx .rs .RS .Rs .java .go .txt .md .json .yaml .toml .sh .py.txt .rs.bak .ts.orig,
             none, none + python shebangs, none + non-python shebangs}; EVERY command is run on it.
            (a) ownership  every printed rule id belongs to the command (table checked against the registry);
                           print-statements == improper-logging; perf == string-concat-loop (+) regex-in-loop
            (c) language   a source-analysis rule reports on f only if lang(f) is one of the rule's documented
                           languages; unrecognised type => no source-analysis violation; an upper/mixed-case
                           extension or an extensionless python-shebang script gives the lower-case / .py result.
link case : the linted name is not a regular file but a symbolic link (relative / absolute) or a hard link whose target has a name of
            ANOTHER type (unknown-type name -> source target, source name -> unknown-type target, foreign source name -> native
            target and back, extensionless + python shebang -> .rs/.ts/.js target), the target lying in the project (pkg/) or beside
            it (../shared/). The file is the directory entry that is linted and reported: its OWN name (and the content read
            through it) gives the language, so (a)+(c) as above for link and target each under its own name, and every command
            must report on the link exactly what it reports on a regular file of that name and content.
mix case  : a project holding bait for every rule of every language; command X is run under the default
            config, after another command Y has run, and under Hypothesis-drawn documented settings of the
            OTHER linters' sections: (b) X's multiset must not move (and (a) again).
"""
from __future__ import annotations

import os
import re
from collections import Counter

from hypothesis import strategies as st

from vf import runner, seeds
from vf.engine import Case, Failure, h
from vf.project import Project

ID = "C15"
TECHNIQUE = ("exhaustive matrix extension/shebang x directory-entry kind (regular, symlink, hard link to a target of another type) x bait x command against a rule-ownership table (re-derived from the registry "
             "at run time) and a documented language map; Hypothesis-drawn configurations of the other linters' sections for "
             "the non-interference differential")
RULE = (
    "lang case = (extension or shebang kind, bait = seed of one rule family in its native language, variant) and all 20 commands "
    "are run on it; non-trivial iff the bait fires under its native extension (validated per run) AND the file's language differs "
    "from the bait's (foreign, unknown type, case variant or shebang). Distinct = (extension/shebang, bait family, bait language). "
    "link case = lang case whose file is a symlink/hard link (kind of link, target inside/outside the project, target extension of another "
    "type); non-trivial iff the bait fires natively; distinct = (name extension, target extension, link kind, target place, bait). "
    "mix case = (command X, other command Y, drawn settings for sections other than X's, key spelling); non-trivial iff X reports "
    ">= 1 violation on the all-baits project AND the drawn settings change Y's output. Distinct = (X, Y, set of drawn sections+keys)."
)
ASSUMPTIONS = [
    "languages per rule family are the ones the linter's docs page lists (DESIGN Appendix A); .tsx = TypeScript, .jsx = JavaScript",
    "unrecognised types generated: .java .go .txt .md .json .yaml .toml .sh, double suffixes .py.txt .rs.bak .ts.orig (the extension is the "
    "last suffix) and extensionless files without a python shebang; "
    ".mjs/.cjs/.mts/.pyi/.pyw are not generated (the docs do not say what they are)",
    "python shebangs generated: `#!/usr/bin/env python3`, `#!/usr/bin/python`; a mapped/unmapped extension WITH a shebang is not generated",
    "a symbolic or hard link is a file of the type its OWN name says (the name under which it is linted and reported), never of its "
    "target's; a python shebang under an unmapped extension is not generated for link targets either; in a link case whose target is "
    "itself a source file in the project the cross-file commands (dry, stringly-typed) are held to the language check only; links to "
    "directories, dangling links and link chains are not generated",
    "source-analysis rule = every rule family except file-placement and file-header (those judge any path / non-code types by design)",
    "other-section settings are documented keys with valid values only; top-level keys that are not a linter's section are not drawn",
    "in-process CLI (click CliRunner) equals a fresh process; cross-checked on the first cases of every run",
]
BUDGET_S = {"quick": 150, "thorough": 1500}

PY, TS, JS, RS = "py", "ts", "js", "rs"

# ------------------------------------------------------------------------------------ tables (Appendix A)
# command -> [(rule family, exact rule id or None)]
OWN = {
    "nesting": [("nesting", None)], "srp": [("srp", None)], "magic-numbers": [("magic-numbers", None)], "dry": [("dry", None)],
    "stringly-typed": [("stringly-typed", None)], "file-placement": [("file-placement", None)], "file-header": [("file-header", None)],
    "improper-logging": [("improper-logging", None)], "print-statements": [("improper-logging", None)],
    "method-property": [("method-property", None)], "stateless-class": [("stateless-class", None)],
    "pipeline": [("collection-pipeline", None)], "lbyl": [("lbyl", None)], "lazy-ignores": [("lazy-ignores", None)],
    "perf": [("performance", None)], "string-concat-loop": [("performance", "performance.string-concat-loop")],
    "regex-in-loop": [("performance", "performance.regex-in-loop")],
    "unwrap-abuse": [("unwrap-abuse", None)], "clone-abuse": [("clone-abuse", None)], "blocking-async": [("blocking-async", None)],
}
CMDS = sorted(OWN)
NON_LINT_COMMANDS = {"config", "hello", "init-config"}
LIBRARY_ONLY_FAMILIES = {"cqs"}
LANGS = {
    "nesting": {PY, TS, JS, RS}, "srp": {PY, TS, JS, RS}, "magic-numbers": {PY, TS, JS, RS}, "dry": {PY, TS, JS},
    "stringly-typed": {PY, TS, JS}, "improper-logging": {PY, TS, JS}, "method-property": {PY}, "stateless-class": {PY},
    "collection-pipeline": {PY}, "lbyl": {PY}, "lazy-ignores": {PY, TS, JS}, "performance": {PY, TS, JS},
    "unwrap-abuse": {RS}, "clone-abuse": {RS}, "blocking-async": {RS},
}
NOT_SOURCE_ANALYSIS = {"file-placement", "file-header"}
# command -> config sections that are the command's OWN (both documented names where two exist)
OWN_SECTIONS = {c: {c} for c in CMDS}
OWN_SECTIONS["improper-logging"] = OWN_SECTIONS["print-statements"] = {"improper-logging", "print-statements"}
OWN_SECTIONS["pipeline"] = {"collection-pipeline", "pipeline"}
for _c in ("perf", "string-concat-loop", "regex-in-loop"):
    OWN_SECTIONS[_c] = {"performance"}

EXT_LANG = {".py": PY, ".ts": TS, ".tsx": TS, ".js": JS, ".jsx": JS, ".rs": RS}
EXTS = [".py", ".PY", ".Py", ".ts", ".TS", ".tsx", ".TSX", ".js", ".JS", ".jsx", ".Jsx", ".rs", ".RS", ".Rs",
        ".java", ".go", ".txt", ".md", ".json", ".yaml", ".toml", ".sh", ".py.txt", ".rs.bak", ".ts.orig", ""]
SHEBANGS = {"py3": "#!/usr/bin/env python3", "py": "#!/usr/bin/python", "sh": "#!/bin/sh", "node": "#!/usr/bin/env node",
            "copyq": "#!/usr/bin/env copyq",
            # first lines that mention python but are NOT a shebang (no "#!"): the file stays of unrecognised type
            "pytext": "python-3.11.4", "pycmd": "python3 -m venv .venv", "pycomment": "# python helper, run with python3"}
PY_SHEBANGS = {"py3", "py"}
NOT_SHEBANGS = ("pytext", "pycmd", "pycomment")


def family_of(rule_id: str) -> str:
    return rule_id.split(".")[0]


def belongs(rule_id: str, cmd: str) -> bool:
    for fam, exact in OWN[cmd]:
        if exact is not None:
            if rule_id == exact:
                return True
        elif rule_id == fam or rule_id.startswith(fam + "."):
            return True
    return False


def lang_of(ext: str, shebang: str | None):
    """The statement's language map: extension (= last suffix) lower-cased; extensionless scripts by a python shebang."""
    if ext:
        return EXT_LANG.get("." + ext.lower().rsplit(".", 1)[-1])
    if shebang in PY_SHEBANGS:
        return PY
    return None


_TABLE_OK = False


def check_tables():
    """Appendix A self-check: the committed tables must match the registry and the CLI of the tree under test."""
    global _TABLE_OK
    if _TABLE_OK:
        return
    runner.init()
    from src.cli_main import cli
    from src.core.registry import RuleRegistry

    reg = RuleRegistry()
    reg.discover_rules("src.linters")
    fams = {family_of(r.rule_id) for r in reg.list_all()}
    table_fams = {f for own in OWN.values() for f, _ in own}
    if fams - LIBRARY_ONLY_FAMILIES != table_fams:
        raise runner.HarnessError(f"rule families in the registry {sorted(fams)} differ from the C15 ownership table {sorted(table_fams)}")
    exact = {e for own in OWN.values() for _, e in own if e}
    ids = {r.rule_id for r in reg.list_all()}
    if not exact <= ids:
        raise runner.HarnessError(f"sub-command rule ids {sorted(exact - ids)} are not registered")
    cmds = set(cli.commands) - NON_LINT_COMMANDS
    if cmds != set(OWN):
        raise runner.HarnessError(f"CLI commands {sorted(cmds)} differ from the C15 table {sorted(OWN)}")
    if table_fams - NOT_SOURCE_ANALYSIS != set(LANGS):
        raise runner.HarnessError("language table does not cover the rule families")
    _TABLE_OK = True


# ------------------------------------------------------------------------------------ baits

BAITS = ([(f, PY) for f in seeds.families(PY)] + [(f, TS) for f in seeds.families(TS)] + [(f, JS) for f in ("magic", "print", "nesting")]
         + [(f, RS) for f in seeds.families(RS)] + [("dryset", PY), ("dryset", TS), ("strset", PY), ("strset", TS), ("lazy", TS)])
BASE_CFG = {"dry": {"enabled": True}}
U = 53


def bait_texts(fam, lang, var):
    """-> list of file texts (1, or 2 for the cross-file sets)"""
    if fam == "dryset":
        return list(seeds.dry_set(lang, U, 2).values())
    if fam == "strset":
        return list(seeds.stringly_set(lang, U, 2).values())
    if fam == "lazy" and lang in (TS, JS):  # in the seed module but not in its family table
        sn = seeds.ts_lazy(lang, U, var)
        sn.family = "lazy"
    else:
        sn = seeds.seed(fam, lang, U, var)
    t, _, _ = seeds.compose(lang, [seeds.filler(lang, U + 20), sn, seeds.filler(lang, U + 21)])
    return [t]


def bait_cmd_rule(fam):
    if fam == "dryset":
        return "dry", "dry.duplicate-code"
    if fam == "strset":
        return "stringly-typed", "stringly-typed."
    return seeds.FAMILY_CMD[fam], seeds.FAMILY_RULE[fam]


def _names(n, ext):
    return [f"unit{'ab'[i]}{ext}" for i in range(n)]


_NATIVE = {}


def native_fires(fam, lang, var) -> bool:
    """Does the bait fire under its native extension? (validated once per process per bait)"""
    k = (fam, lang, var)
    if k not in _NATIVE:
        texts = bait_texts(fam, lang, var)
        cmd, rule = bait_cmd_rule(fam)
        with Project(dict(zip(_names(len(texts), seeds.EXT[lang]), texts)), config=BASE_CFG) as p:
            r = runner.run_cli([cmd, "--format", "json", "."], p.root)
            _NATIVE[k] = r.exit == 1 and any(family_of(v["rule_id"]) == family_of(rule) for v in r.violations)
    return _NATIVE[k]


ANSI = re.compile(r"\x1b\[[0-9;]*m")


def _exc(stderr):
    txt = ANSI.sub("", stderr)
    names = re.findall(r"^((?:[A-Za-z_]\w*\.)*[A-Z]\w*(?:Error|Exception))\b", txt, flags=re.M)
    frames = re.findall(r'File "[^"]*?/(src/[^"]+\.py)", line \d+, in (\w+)', txt)
    return (names[-1].split(".")[-1] if names else "?") + ("@" + frames[-1][0] if frames else "")


def run_all(root, cmds, fails, ctxinfo):
    """Run every command on '.', -> {cmd: [violations]} (commands that do not exit 0/1 are reported and dropped)."""
    out = {}
    for cmd in cmds:
        r = runner.run_cli([cmd, "--format", "json", "."], root)
        if r.exception or r.exit not in (0, 1):
            fails.append(Failure(f"run|exit{r.exit}|{_exc(r.stderr)}", {"cmd": cmd, "exit": r.exit, "exception": r.exception,
                                                                        "stderr": ANSI.sub("", r.stderr)[-400:], **ctxinfo}))
            continue
        out[cmd] = r.violations
    return out


def ms(vs, rename=None):
    """Multiset of full records; `rename` maps file names (in file_path and message) onto the reference names."""
    c = Counter()
    for v in vs:
        fp, msg = v["file_path"], v["message"]
        for a, b in (rename or {}).items():
            fp, msg = fp.replace(a, b), msg.replace(a, b)
        c[(v["rule_id"], fp, v["line"], v["column"], msg)] += 1
    return c


def ownership_failures(obs, fails, info):
    for cmd, vs in obs.items():
        for v in vs:
            if not belongs(v["rule_id"], cmd):
                fails.append(Failure(f"ownership|{cmd}|prints-{family_of(v['rule_id'])}", {"cmd": cmd, "violation": v, **info}))
                break
    if "print-statements" in obs and "improper-logging" in obs and ms(obs["print-statements"]) != ms(obs["improper-logging"]):
        fails.append(Failure("alias|print-statements-vs-improper-logging",
                             {**runner.diff_multisets(ms(obs["print-statements"]), ms(obs["improper-logging"])), **info}))
    if all(c in obs for c in ("perf", "string-concat-loop", "regex-in-loop")):
        u = ms(obs["string-concat-loop"]) + ms(obs["regex-in-loop"])
        if ms(obs["perf"]) != u:
            fails.append(Failure("union|perf-vs-subcommands", {**runner.diff_multisets(ms(obs["perf"]), u), **info}))


# ------------------------------------------------------------------------------------ lang cases


LINK_HOWS = ("sym-rel", "sym-abs", "hard")  # relative symlink, absolute symlink, hard link
LINK_WHERE = ("inside", "outside")         # the link's target lies in the project (pkg/) or beside it (../shared/)


def _make_links(p, names, tnames, texts, link):
    """Store the bait under the target names and make every linted name a link to it."""
    tdir = os.path.join(p.root, "pkg") if link["where"] == "inside" else os.path.join(p.top, "shared")
    os.makedirs(tdir, exist_ok=True)
    for name, tname, text in zip(names, tnames, texts):
        target = os.path.join(tdir, tname)
        with open(target, "w", encoding="utf-8", newline="") as fh:
            fh.write(text)
        dest = os.path.join(p.root, name)
        if link["how"] == "hard":
            os.link(target, dest)
        elif link["how"] == "sym-abs":
            os.symlink(target, dest)
        else:
            os.symlink(os.path.relpath(target, p.root), dest)


def check_lang(case) -> Case:
    ext, sb, (fam, blang), var = case["ext"], case.get("shebang"), case["bait"], case["var"]
    link = case.get("link")
    texts = bait_texts(fam, blang, var)
    if sb:
        texts = [SHEBANGS[sb] + "\n" + t for t in texts]
    names = _names(len(texts), ext)
    flang = lang_of(ext, sb)
    file_lang = dict.fromkeys(names, flang)  # base name -> language the statement gives the file
    info = {"files": names, "bait": f"{fam}/{blang}", "first_lines": texts[0].splitlines()[:3]}
    fails = []
    tlang = None
    if link:
        # the linted name is a LINK (its own name decides the type); the content lives under another name / type
        tnames = [f"orig{'ab'[i]}{link['target_ext']}" for i in range(len(texts))]
        tlang = lang_of(link["target_ext"], sb)
        if link["where"] == "inside":
            file_lang.update(dict.fromkeys(tnames, tlang))
        info.update(link=link, targets=tnames)
        with Project({}, config=BASE_CFG) as p:
            _make_links(p, names, tnames, texts, link)
            obs = run_all(p.root, CMDS, fails, info)
    else:
        with Project(dict(zip(names, texts)), config=BASE_CFG) as p:
            obs = run_all(p.root, CMDS, fails, info)
    ownership_failures(obs, fails, info)
    # (c) language
    kind = "native" if (ext in EXT_LANG and flang == blang) else "case-variant" if (ext and ext != ext.lower() and flang) else \
        "shebang-python" if (not ext and flang) else "unknown-type" if flang is None else "foreign-language"
    via = ("|via-hardlink" if link["how"] == "hard" else "|via-symlink") if link else ""
    for cmd, vs in obs.items():
        for v in vs:
            f = family_of(v["rule_id"])
            base = os.path.basename(v["file_path"])
            if f in NOT_SOURCE_ANALYSIS or base not in file_lang or not belongs(v["rule_id"], cmd):
                continue
            if file_lang[base] not in LANGS[f]:
                where = "unknown-type" if file_lang[base] is None else f"{file_lang[base]}-file"
                fails.append(Failure(f"language|{f}|reports-on-{where}{via if base in names else ''}",
                                     {"cmd": cmd, "violation": v, "file_language": file_lang[base], "rule_languages": sorted(LANGS[f]), **info}))
                break
    # case variants / python shebang: same result as the canonical spelling; a link: same result as a regular file of that name
    ref_ext = None
    if link:
        ref_ext = ext
    elif kind == "case-variant":
        ref_ext = ext.lower()
    elif kind == "shebang-python":
        ref_ext = ".py"
    if ref_ext is not None:
        ref_names = _names(len(texts), ref_ext)
        with Project(dict(zip(ref_names, texts)), config=BASE_CFG) as p:
            ref = run_all(p.root, CMDS, fails, {**info, "files": ref_names})
        rename = dict(zip(names, ref_names))
        # a target that lies in the project and is a source file itself takes part in the cross-file rules (and has findings of
        # its own): there only the findings ON the link are compared, and the cross-file commands are left to the language check
        target_linted = bool(link) and link["where"] == "inside" and tlang is not None
        link_diffs = {}
        for cmd in CMDS:
            if cmd in obs and cmd in ref:
                if kind == "shebang-python" and not link and cmd in NOT_SOURCE_ANALYSIS:
                    continue  # judged on the path / non-code type, not on the language
                if target_linted and cmd in ("dry", "stringly-typed"):
                    continue
                mine = [v for v in obs[cmd] if os.path.basename(v["file_path"]) in names] if link else obs[cmd]
                a, b = ms(mine, rename), ms(ref[cmd])
                if a != b and link:
                    link_diffs[cmd] = runner.diff_multisets(a, b)
                elif a != b:
                    fails.append(Failure(f"{kind}|{cmd}|differs-from-canonical-spelling", {"cmd": cmd, "ext": ext, "shebang": sb,
                                                                                 **runner.diff_multisets(a, b), **info}))
        if link_diffs:  # one root cause (how a link's type is decided), whatever the commands that show it
            shape = f"{'source' if flang else 'unknown-type'}-name-to-{'source' if tlang else 'unknown-type'}-target"
            fails.append(Failure(f"link|{'hardlink' if link['how'] == 'hard' else 'symlink'}|{shape}|differs-from-regular-file-of-that-name",
                                 {"ext": ext, "shebang": sb, "name_language": flang, "target_language": tlang,
                                  "left=link, right=regular file; per command": link_diffs, **info}))
    fires = native_fires(fam, blang, var)
    nontrivial = fires and (kind != "native" or bool(link))
    total = sum(len(v) for v in obs.values())
    labels = [f"kind={kind}", f"ext={ext or 'none'}{('+' + sb) if sb else ''}", f"bait={fam}/{blang}", f"file-lang={flang}",
              "bait-fires-natively" if fires else "bait-silent-natively", f"violations={'0' if not total else '1+'}"]
    if link:
        labels += [f"entry={link['how']}", f"link-target={link['where']}", f"link={ext or 'none'}->{link['target_ext'] or 'none'}",
                   f"link-langs={flang}<-{tlang}"]
    else:
        labels.append("entry=regular")
    return Case(key=h(["lang", ext, sb, fam, blang] + ([link["how"], link["where"], link["target_ext"]] if link else [])),
                nontrivial=nontrivial, labels=labels, failures=fails)


def lang_cells():
    cells = []
    for ext in EXTS:
        sbs = [None] + list(SHEBANGS) if not ext else ([None] + list(NOT_SHEBANGS) if ext.lower() in (".txt", ".md") else [None])
        for sb in sbs:
            for i, (fam, lang) in enumerate(BAITS):
                cells.append({"kind": "lang", "ext": ext, "shebang": sb, "bait": [fam, lang], "var": i % 2})
    return cells


UNKNOWN_LINK_EXTS = ("", ".txt", ".md")
UNKNOWN_TARGET_EXTS = (".txt", "")
SOURCE_EXTS = (".py", ".ts", ".js", ".rs", ".tsx", ".jsx")


def link_cells():
    """The linted name is a symbolic (relative / absolute) or hard link; name and target differ in type.

    per bait (native extension N):  unknown-type name -> N / upper-case N;  N / upper-case N -> unknown-type target;
    foreign source name -> N;  N -> foreign source target;  extensionless + python shebang -> .rs/.ts/.js;
    extensionless + non-python first line -> N.  Kind of link and
    place of the target (in the project / beside it) rotate over the rows so that every row shape meets every combination.
    """
    cells = []

    def add(ext, target_ext, bait, var, sb=None):
        n = len(cells)
        # (the quick tier takes every 3rd row: rotate in blocks of 3 so that each residue class meets all six combinations)
        link = {"how": LINK_HOWS[(n // 3) % 3], "where": LINK_WHERE[(n // 9) % 2], "target_ext": target_ext}
        cells.append({"kind": "lang", "ext": ext, "shebang": sb, "bait": list(bait), "var": var, "link": link})

    for i, (fam, lang) in enumerate(BAITS):
        nat = seeds.EXT[lang]
        foreign = [e for e in SOURCE_EXTS if EXT_LANG[e] != lang]
        var = i % 2
        for e in UNKNOWN_LINK_EXTS:
            add(e, nat, (fam, lang), var)
        add(UNKNOWN_LINK_EXTS[i % 3], nat.upper(), (fam, lang), var)
        add(nat, UNKNOWN_TARGET_EXTS[i % 2], (fam, lang), var)
        add(nat.upper(), UNKNOWN_TARGET_EXTS[(i + 1) % 2], (fam, lang), var)
        add(foreign[i % len(foreign)], nat, (fam, lang), var)
        add(foreign[(i + 2) % len(foreign)], nat, (fam, lang), var)
        add(nat, foreign[(i + 1) % len(foreign)], (fam, lang), var)
        # (python shebang under an unmapped EXTENSION is outside the statement - see ASSUMPTIONS - so the target is a source type)
        add("", (".rs", ".ts", ".js")[i % 3], (fam, lang), var, sb="py3")
        add("", nat, (fam, lang), var, sb=("sh", "pycomment")[i % 2])
    return cells


# ------------------------------------------------------------------------------------ mix cases


def mix_files():
    files = {}
    u = 61
    for lang in (PY, TS, JS, RS):
        fams = seeds.families(lang) if lang != JS else ["magic", "print", "nesting", "srp", "concat"]
        sn = [seeds.filler(lang, u)] + [seeds.seed(f, lang, u + 1 + i, i) for i, f in enumerate(fams)]
        files[f"mix{lang}{seeds.EXT[lang]}"], _, _ = seeds.compose(lang, sn)
        u += 20
    # files in places that the linters' own DEFAULT settings treat specially (tests/, examples/): another section's
    # configuration must not move those defaults either
    rs = [seeds.filler(RS, 151)] + [seeds.seed(f, RS, 152 + i, i) for i, f in enumerate(("unwrap", "clone", "blocking", "magic"))]
    files["tests/integration.rs"], _, _ = seeds.compose(RS, rs)
    files["examples/demo.rs"], _, _ = seeds.compose(RS, [seeds.seed("clone", RS, 161, 0), seeds.seed("blocking", RS, 162, 1)])
    py = [seeds.seed(f, PY, 171 + i, i) for i, f in enumerate(("magic", "stateless", "print"))]
    files["tests/test_mix.py"], _, _ = seeds.compose(PY, py)
    files.update(seeds.dry_set(PY, 141, 2))
    files.update(seeds.dry_set(TS, 142, 2))
    files.update(seeds.stringly_set(PY, 143, 2))
    files.update(seeds.stringly_set(TS, 144, 2))
    # files whose header silences ONE linter by name while they hold findings of several: switching that linter (or any
    # other) on or off in the configuration must not move the findings of the rest
    supp = ("magic", "nesting", "print", "stateless", "lbyl", "pipeline")
    for k, named in enumerate(supp):
        body, _, _ = seeds.compose(PY, [seeds.seed(f, PY, 181 + 10 * k + i, i) for i, f in enumerate(supp)], header=False)
        files[f"supp_{named}.py"] = f"# thailint: ignore-file[{seeds.FAMILY_RULE[named].split('.')[0]}]\n" + body
    return files


B = st.booleans()
GLOBS = st.lists(st.sampled_from(["*.py", "**/*.ts", "mix*", "**/mixrs.rs", "dup*", "str*.py", "*.js", "docs/**"]), min_size=1, max_size=3, unique=True)


def _sec(**keys):
    """dict strategy drawing a non-empty subset of the documented keys"""
    names = sorted(keys)

    @st.composite
    def s(draw):
        chosen = draw(st.lists(st.sampled_from(names), min_size=1, max_size=min(4, len(names)), unique=True))
        return {k: draw(keys[k]) for k in sorted(chosen)}

    return s()


def I(a, b):  # noqa: E743
    return st.integers(a, b)


SECTIONS = {
    "nesting": _sec(enabled=B, max_nesting_depth=I(1, 8)),
    "srp": _sec(enabled=B, max_methods=I(1, 20), max_loc=I(5, 400), check_keywords=B),
    "magic-numbers": _sec(enabled=B, allowed_numbers=st.lists(st.sampled_from([0, 1, 2, 10, 1307, 1734, 1748, 100]), max_size=5, unique=True),
                          max_small_integer=I(1, 20), ignore=GLOBS),
    "dry": _sec(enabled=B, min_duplicate_lines=I(2, 8), min_occurrences=I(2, 3), storage_mode=st.sampled_from(["memory", "tempfile"]), ignore=GLOBS),
    "stringly-typed": _sec(enabled=B, min_occurrences=I(2, 4), min_values_for_enum=I(2, 3), max_values_for_enum=I(4, 8), require_cross_file=B, ignore=GLOBS),
    "file-header": _sec(enabled=B, check_atemporal=B, ignore=GLOBS, mandatory_fields=st.just(["Purpose"])),
    "file-placement": _sec(global_patterns=st.sampled_from([{"deny": [{"pattern": r".*\.py$", "message": "no python here"}]},
                                                            {"allow": [r".*\.md$"]}, {"deny": [r"mix.*"]}])),
    "improper-logging": _sec(enabled=B, allow_in_scripts=B, console_methods=st.just(["log"]), ignore=GLOBS),
    "print-statements": _sec(enabled=B, allow_in_scripts=B, ignore=GLOBS),
    "method-property": _sec(enabled=B, max_body_statements=I(1, 5), ignore=GLOBS, ignore_methods=st.just(["get_n66"])),
    "stateless-class": _sec(enabled=B, min_methods=I(1, 4), ignore=GLOBS),
    "collection-pipeline": _sec(enabled=B, min_continues=I(1, 3), ignore=GLOBS),
    "lbyl": _sec(enabled=B, detect_dict_key=B, detect_hasattr=B, detect_isinstance=B, detect_none_check=B, detect_len_check=B, ignore=GLOBS),
    "lazy-ignores": _sec(enabled=B, check_noqa=B, check_type_ignore=B, check_ts_ignore=B, check_orphaned=B, ignore_patterns=GLOBS),
    "performance": _sec(enabled=B),
    "unwrap-abuse": _sec(enabled=B, allow_in_tests=B, allow_expect=B, ignore=GLOBS),
    "clone-abuse": _sec(enabled=B, allow_in_tests=B, detect_clone_in_loop=B, detect_clone_chain=B, detect_unnecessary_clone=B, ignore=GLOBS),
    "blocking-async": _sec(enabled=B, allow_in_tests=B, detect_fs_in_async=B, detect_sleep_in_async=B, detect_net_in_async=B, ignore=GLOBS),
    "cqs": _sec(enabled=B, min_operations=I(1, 3), detect_fluent_interface=B, ignore_patterns=GLOBS),
}
# a setting of Y's section that should visibly change Y's own output on the all-baits project
STRONG = {c: {"enabled": False} for c in CMDS}
SECTION_OF = {c: sorted(OWN_SECTIONS[c])[0] for c in CMDS}
SECTION_OF["pipeline"] = "collection-pipeline"


@st.composite
def mix_cases(draw):
    x = draw(st.sampled_from(CMDS))
    ys = [c for c in CMDS if not (OWN_SECTIONS[c] & OWN_SECTIONS[x])]
    y = draw(st.sampled_from(ys))
    allowed = [s for s in SECTIONS if s not in OWN_SECTIONS[x]]
    names = draw(st.lists(st.sampled_from(allowed), min_size=0, max_size=5, unique=True))
    others = {}
    for s in names:
        others[s] = draw(SECTIONS[s])
    ysec = SECTION_OF[y]
    if ysec == "dry" and x != "dry":
        others[ysec] = {**others.get(ysec, {}), "enabled": draw(st.booleans())}  # base config has dry on; off or on are both "other" settings
    else:
        others[ysec] = {**others.get(ysec, {}), **(STRONG[y] if draw(st.integers(0, 3)) else {})} or draw(SECTIONS[ysec])
    under = draw(st.booleans())
    return {"kind": "mix", "x": x, "y": y, "others": others, "underscore": under}


def _spell(name, under):
    return name.replace("-", "_") if under else name


def own_cfg(x):
    """X's own section, identical in every run of a mix case."""
    if x == "dry":
        return {"dry": {"enabled": True}}
    if x == "file-placement":  # no findings without rules: give X something to report
        return {"file-placement": {"global_patterns": {"deny": [{"pattern": r"mix.*", "message": "mix files are denied"}]}}}
    return {}


def mix_config(x, others, under):
    cfg = dict(own_cfg(x))
    if x != "dry" and "dry" not in others:
        cfg["dry"] = {"enabled": True}  # the default of the all-baits project (dry is opt-in)
    for s_, v in others.items():
        cfg[_spell(s_, under)] = v
    return cfg


def check_mix(case) -> Case:
    x, y, others, under = case["x"], case["y"], case["others"], case["underscore"]
    bad = [s_ for s_ in others if s_ in OWN_SECTIONS[x]]
    if bad:
        raise runner.HarnessError(f"mix case configures X's own section: {bad}")
    fails = []
    info = {"x": x, "y": y, "others": others}
    with Project(mix_files(), config=mix_config(x, {}, under)) as p:
        def one(cmd, tag):
            r = runner.run_cli([cmd, "--format", "json", "."], p.root)
            if r.exception or r.exit not in (0, 1):
                fails.append(Failure(f"run|{tag}|exit{r.exit}|{_exc(r.stderr)}", {"cmd": cmd, "exit": r.exit, "stderr": ANSI.sub("", r.stderr)[-400:], **info}))
                return None
            return r.violations

        x0 = one(x, "base")
        y0 = one(y, "base")
        x1 = one(x, "base")
        p.set_config(mix_config(x, others, under))
        x2 = one(x, "others-configured")
        y2 = one(y, "others-configured")
        culprit = None
        if x0 is not None and x2 is not None and ms(x0) != ms(x2):
            for s_, v in sorted(others.items()):  # which single section moves X?
                p.set_config(mix_config(x, {s_: v}, under))
                xs = one(x, "single-section")
                if xs is not None and ms(xs) != ms(x0):
                    culprit = s_
                    break
    obs = {c: v for c, v in ((x, x0), (y, y0)) if v is not None}
    ownership_failures(obs, fails, info)
    if x2 is not None:
        ownership_failures({x: x2}, fails, info)
    if x0 is not None and x1 is not None and ms(x0) != ms(x1):
        fails.append(Failure(f"interference|ran-other-command|{x}-after-{y}", {**runner.diff_multisets(ms(x0), ms(x1)), **info}))
    if x0 is not None and x2 is not None and ms(x0) != ms(x2):
        fails.append(Failure(f"interference|{x}|moved-by-section-{culprit or 'combination'}", {**runner.diff_multisets(ms(x0), ms(x2)), **info}))
    y_moved = y0 is not None and y2 is not None and ms(y0) != ms(y2)
    nontrivial = bool(x0) and y_moved
    keysig = sorted((s, sorted(v)) for s, v in others.items())
    labels = ["kind=mix", f"x={x}", f"x-findings={'0' if not x0 else '1+'}", f"y-moved={y_moved}", f"sections={min(len(others), 5)}",
              f"spelling={'underscore' if case['underscore'] else 'hyphen'}"] + [f"other-section={s}" for s in others]
    return Case(key=h(["mix", x, y, keysig]), nontrivial=nontrivial, labels=labels, failures=fails)


# single documented switches per section (one at a time): the smallest "configuring another linter" there is
SINGLE_KEYS = {
    "nesting": [("max_nesting_depth", 1), ("enabled", False)],
    "srp": [("max_methods", 1), ("check_keywords", False)],
    "magic-numbers": [("allowed_numbers", []), ("max_small_integer", 1)],
    "dry": [("min_duplicate_lines", 2), ("storage_mode", "tempfile")],
    "stringly-typed": [("require_cross_file", False), ("min_occurrences", 4)],
    "print-statements": [("allow_in_scripts", False)], "improper-logging": [("allow_in_scripts", False)],
    "method-property": [("max_body_statements", 1)], "stateless-class": [("min_methods", 1)], "collection-pipeline": [("min_continues", 1)],
    "lbyl": [("detect_isinstance", True), ("detect_dict_key", False)], "lazy-ignores": [("check_noqa", False)], "performance": [("enabled", False)],
    "unwrap-abuse": [("allow_in_tests", False), ("allow_expect", False)],
    "clone-abuse": [("allow_in_tests", False), ("detect_clone_in_loop", False)],
    "blocking-async": [("allow_in_tests", False), ("detect_fs_in_async", False)],
    "file-header": [("enabled", False)],
}


def single_key_cells():
    """Command X x ONE switch of ONE other section (no other key in that section: defaults such as ignore lists stay)."""
    cells = []
    for x in CMDS:
        ys = [c for c in CMDS if not (OWN_SECTIONS[c] & OWN_SECTIONS[x])]
        for sec, kvs in SINGLE_KEYS.items():
            if sec in OWN_SECTIONS[x]:
                continue
            for i, (k, v) in enumerate(kvs):
                cells.append({"kind": "mix", "x": x, "y": ys[(len(cells)) % len(ys)], "others": {sec: {k: v}}, "underscore": bool((len(cells) + i) % 2)})
    return cells


def mix_cells():
    """Deterministic floor: every command X with every other linter disabled / strongly reconfigured at once, both spellings."""
    cells = []
    for x in CMDS:
        for under in (False, True):
            others = {}
            for c in CMDS:
                s = SECTION_OF[c]
                if s in OWN_SECTIONS[x] or s in others:
                    continue
                others[s] = {"enabled": False}
            others["cqs"] = {"enabled": False}
            y = [c for c in CMDS if not (OWN_SECTIONS[c] & OWN_SECTIONS[x])][(CMDS.index(x) * 7 + under) % (len(CMDS) - len([c for c in CMDS if OWN_SECTIONS[c] & OWN_SECTIONS[x]]))]
            cells.append({"kind": "mix", "x": x, "y": y, "others": others, "underscore": under})
    return cells


def check(case) -> Case:
    check_tables()
    if case["kind"] == "lang":
        return check_lang(case)
    return check_mix(case)


def run(ctx):
    check_tables()
    m = ctx.stats.extra.setdefault("matrix", {})
    cells = lang_cells()
    if ctx.quick:
        # every (extension/shebang, bait) pair is 20 command runs; quick takes every 3rd pair, rotating with the seed
        # (32 baits per extension, so the stride walks through all baits of every extension across seeds 1..3)
        cells = [c for i, c in enumerate(cells) if (i + ctx.seed) % 3 == 0]
    mine = ctx.my_cells(cells)
    done = ctx.each(mine, check)
    m["extension/shebang x bait (x 20 commands each)"] = {"cells": len(mine), "done": done}
    cells = link_cells()
    if ctx.quick:  # every 3rd row, rotating with the seed (11 rows per bait: the stride meets every row shape and link kind)
        cells = [c for i, c in enumerate(cells) if (i + ctx.seed) % 3 == 0]
    mine = ctx.my_cells(cells)
    done = ctx.each(mine, check)
    m["link name type x target type x link kind x target place x bait (x 20 commands each)"] = {"cells": len(mine), "done": done}
    mine = ctx.my_cells(mix_cells())
    done = ctx.each(mine, check)
    m["command X x all other sections disabled x key spelling"] = {"cells": len(mine), "done": done}
    sk = single_key_cells()
    if ctx.quick:  # a third of the single-switch matrix, rotating with the seed
        # (sibling linters that share code - the three Rust linters - are always paired with each other)
        rust = ("unwrap-abuse", "clone-abuse", "blocking-async")
        sk = [c for i, c in enumerate(sk) if (i + ctx.seed) % 3 == 0 or (c["x"] in rust and next(iter(c["others"])) in rust)]
    mine = ctx.my_cells(sk)
    done = ctx.each(mine, check)
    m["command X x one switch of one other section"] = {"cells": len(mine), "done": done}
    ctx.explore(mix_cases(), check, max_examples=ctx.n(10, 500), salt=15)
    ctx.stats.extra["ownership_table_checked_against_registry"] = True


def replay(case) -> Case:
    return check(case)
