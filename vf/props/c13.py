"""C13 - meaning-preserving edits leave the findings unchanged up to line shift.

Generator: projects built from the seed library (vf/seeds.py: single files of 2-5 planted constructs in py/ts/js/rs,
DRY and stringly-typed file sets, plus vf/render/c13_extra.py: a class whose LOC sits at the srp.max_loc limit, a
"decoy" ignore-next-line directive, and `stmtlimit`: getter-like Python methods whose multi-statement bodies sit at /
next to the documented statement-count limit method-property.max_body_statements (2..5; one-line statements, a
parenthesised two-line return, a docstring) - a limit counted in statements, which inserted lines must not move) x a sequence of 1-4 edits (vf/gen/c13_edits.py): blank line(s), directive-free
comment line, trailing whitespace, consistent re-indent, LF<->CRLF, BOM add/remove, appended finding-free code,
consistent rename of locals in snippets of rules that do not inspect names.

Oracle (per edit step, so a sequence is a chain of pairs): for every command run, the violations after the edit equal
the violations before it as multisets of (rule_id, file, line + delta(line), message', column) where delta(l) is the
number of lines inserted strictly above l, message' has `file:line` references shifted the same way and renamed
identifiers substituted; columns are only compared for edits that cannot move columns.

Matrices (one edit per case): language x family x whole-file edit; and language x family variant x EVERY insertion
point below the header x {comment line, 2 blank lines}, so that every gap between two body statements and every line
break inside a multi-line statement of every planted construct receives an insertion (insertion_cells).
"""
from __future__ import annotations

import os
import re
from collections import Counter

from hypothesis import strategies as st

from vf import runner, seeds
from vf.engine import Case, Failure, h
from vf.gen import c13_edits as ed
from vf.project import Project
from vf.render import c13_extra as extra

ID = "C13"
TECHNIQUE = ("Hypothesis-generated seed programs x sequences of meaning-preserving edits; metamorphic oracle: violation multisets of "
             "consecutive versions are equal up to the exact line shift (two-sided, per command)")
RULE = (
    "case = project (single file of 2-5 planted constructs in py/ts/js/rs incl. a class at the srp.max_loc limit and an "
    "ignore-next-line decoy and context-exempt literals (UPPER_CASE constants, range()) and Python getter methods with 1-6-statement bodies "
    "at the method-property.max_body_statements limit, or a 2-3 file DRY / stringly-typed set; all with the documented file header so header-sensitive "
    "linters only see edits below it) + initial layout (LF/CRLF, BOM, final newline) + 1-4 edits + 4-7 commands (those of the planted "
    "constructs plus drawn others); plus two one-edit matrices: family x whole-file edit, and family variant x every insertion point "
    "below the header x (comment line | 2 blank lines). Every consecutive pair of versions is compared for every command. Non-trivial: the version "
    "before some effective edit has >= 1 violation, and for a line-inserting edit there is a violation below and one above the "
    "insertion point (for whole-file edits: >= 2 violations). Distinct = (project kind, language, planted families, edit-kind sequence)."
)
ASSUMPTIONS = [
    "comment lines carry directive-free prose from a fixed pool (no thailint/noqa/type:/pylint/eslint/TODO/header keywords)",
    "nothing is inserted inside the header block, directly below a line that carries a suppression directive, or inside a multi-line token (the seeds have none below the header)",
    "a blank or comment line between two lines of a bracketed multi-line expression is not part of the program (Python ignores both inside brackets)",
    "re-indent maps every leading 4-space unit below the header to 2 spaces / 8 spaces / a tab (tab not for Python); header docstring untouched",
    "rename touches only parameters/locals ([a-z]+digits, not after '.', not called, not inside string literals) of snippets whose rule does not inspect names; messages are compared after the same substitution",
    "for a DRY/stringly message the `file:a-b` references are expected to shift like line numbers (a and b each by the lines inserted above them)",
    "lf and unbom (inverse edits) are judged as crlf / bom with before and after exchanged, so one defect has one signature",
    "in-process CLI equals a fresh process (cross-checked on the first cases of every run)",
]
BUDGET_S = {"quick": 100, "thorough": 1500}

LANGS = ("py", "ts", "js", "rs")
HEADER_CMDS = ("file-header", "lazy-ignores")
OTHER_CMDS = {
    "py": ["nesting", "srp", "magic-numbers", "improper-logging", "method-property", "stateless-class", "pipeline", "lbyl", "lazy-ignores", "perf",
           "file-header", "dry", "stringly-typed"],
    "ts": ["nesting", "srp", "magic-numbers", "improper-logging", "lazy-ignores", "perf", "file-header", "dry", "stringly-typed"],
    "rs": ["nesting", "srp", "magic-numbers", "unwrap-abuse", "clone-abuse", "blocking-async"],
}
OTHER_CMDS["js"] = OTHER_CMDS["ts"]
FAM_CMD = dict(seeds.FAMILY_CMD, srploc="srp", decoy="magic-numbers", exempt="magic-numbers", cloneuse="clone-abuse", stmtlimit="method-property",
               filler=None)
RUN_LEN = 5  # statements in a planted duplicate run (seeds.dry_set default)
REF = re.compile(r"([\w./-]+\.(?:py|ts|js|rs)|\btool):(\d+)(?:-(\d+))?")  # `tool` = the extension-less script of the "script" layout


# ------------------------------------------------------------------------------------ building projects


def families(lang):
    return (seeds.families(lang) + ["srploc", "decoy", "exempt"] + (["cloneuse", "cloneuse"] if lang == "rs" else [])
            + (["stmtlimit", "stmtlimit"] if lang == "py" else []))


def stmt_limit(var):
    """(max_body_statements the file is linted with, body shape) of a stmtlimit part"""
    return 2 + (var // len(extra.STMT_SHAPES)) % 4, var % len(extra.STMT_SHAPES)


def build(case):
    """-> (list[FileState], config dict)"""
    lang = case["lang"]
    cfg = {"dry": {"enabled": True}}
    states = []
    lay = case.get("layout", {})
    common = dict(eol="\r\n" if lay.get("crlf") else "\n", bom=bool(lay.get("bom")), final_nl=not lay.get("no_final_nl"))
    if case["kind"] == "single":
        snippets, renameable = [], []
        u = 101
        for part in case["parts"]:
            fam = part["fam"]
            if fam == "srploc":
                sn, loc = extra.srploc(lang, u, 1 + part["var"] % 5, 1 + (part["var"] // 5) % 3)
                cfg["srp"] = {"max_loc": max(1, loc + part.get("d", 0))}
            elif fam == "decoy":
                sn = extra.decoy(lang, u)
            elif fam == "exempt":
                sn = extra.exempt(lang, u)
            elif fam == "cloneuse":
                sn = extra.cloneuse(lang, u)
            elif fam == "stmtlimit":
                # the first such part fixes the limit of the file (3 = the documented default: left unconfigured)
                limit = cfg.get("method-property", {}).get("max_body_statements") or stmt_limit(part["var"])[0]
                if limit != 3:
                    cfg["method-property"] = {"max_body_statements": limit}
                sn = extra.stmtlimit(lang, u, limit, stmt_limit(part["var"])[1])
            elif fam == "filler":
                sn = seeds.filler(lang, u)
            else:
                sn = seeds.seed(fam, lang, u, part["var"])
            sn.family = fam
            snippets.append(sn)
            if fam in ed.RENAME_FAMILIES:
                renameable += ed.collect_locals(sn.lines)
            u += 1
        text, exp, spans = seeds.compose(lang, snippets, header=True, gap=1 + case.get("gap", 1) % 3)
        lines = text.split("\n")[:-1]
        marks = sorted({ln - 1 for _r, ln in exp} | {first - 1 for fam, first, _l in spans if fam == "srploc"})
        fname, hdr = "mod" + seeds.EXT[lang], len(seeds.HEADERS[lang])
        if lay.get("script") and lang == "py":
            # an extensionless script recognised by its python shebang (line 1 belongs to the header block)
            fname, hdr = "tool", hdr + 1
            lines = ["#!/usr/bin/env python3"] + lines
            marks = [m + 1 for m in marks]
        states.append(ed.FileState(name=fname, lang=lang, lines=lines, hdr=hdr, locals=renameable, marks=marks, **common))
    else:
        fs = (seeds.dry_set if case["kind"] == "dry" else seeds.stringly_set)(lang, 103, case.get("nfiles", 2))
        for name, text in fs.items():
            body = text.split("\n")[:-1]
            if case.get("fill"):
                body = seeds.filler(lang, 200 + len(states)).lines + ["", ""] + body
            lines = list(seeds.HEADERS[lang]) + body
            marks = [i for i, ln in enumerate(lines) if "_0 = transform_" in ln or "(\"stage" in ln or "=== \"stage" in ln]
            runs = [[m, m + RUN_LEN - 1] for m in marks] if case["kind"] == "dry" else []
            states.append(ed.FileState(name=name, lang=lang, lines=lines, hdr=len(seeds.HEADERS[lang]), marks=marks, runs=runs,
                                       next_u=900 + 20 * len(states), **common))
    return states, cfg


def observe(p, cmds):
    """-> ({cmd: [violation dict with project-relative file]}, anomalies)"""
    out, anomalies = {}, []
    for cmd in cmds:
        r = runner.run_cli([cmd, "--format", "json", "."], cwd=p.root)
        if r.exit not in (0, 1) or r.swallowed or r.exception:
            anomalies.append({"cmd": cmd, "exit": r.exit, "swallowed": r.swallowed[:2], "exception": r.exception, "stderr": r.stderr[-300:]})
            out[cmd] = None
            continue
        vs = []
        for v in r.violations:
            vs.append({"rule": v["rule_id"], "file": runner.norm_path(v["file_path"], p.root, p.root), "line": v["line"], "col": v["column"],
                       "msg": v["message"].replace(os.path.realpath(p.root) + "/", "").replace(p.root + "/", "")})
        if (r.exit == 1) != bool(vs):
            anomalies.append({"cmd": cmd, "exit": r.exit, "n": len(vs)})
        out[cmd] = vs
    return out, anomalies


# ------------------------------------------------------------------------------------ oracle


def expected_after(v, eff: ed.Effect):
    """The violation `v` of the version before the edit, as it must appear after the edit."""
    def ref(m):
        f = os.path.basename(m.group(1))
        a = eff.shift(f, int(m.group(2)))
        if m.group(3) is None:
            return f"{m.group(1)}:{a}"
        return f"{m.group(1)}:{a}-{eff.shift(f, int(m.group(3)))}"

    msg = REF.sub(ref, v["msg"])
    msg = ed.rename_message(msg, eff.rename)
    return {"rule": v["rule"], "file": v["file"], "line": eff.shift(os.path.basename(v["file"]), v["line"]), "col": v["col"], "msg": msg}


DRY_N = re.compile(r"^Duplicate code \((\d+) lines")


def _dry_range(v):
    """(first, last) physical line of the block a DRY violation reports, by its own message; None for other rules"""
    m = DRY_N.match(v["msg"])
    return (v["line"], v["line"] + int(m.group(1)) - 1) if m else None


def _key(v, cols, mask=()):
    msg = v["msg"]
    if (v["file"], v["line"]) in mask:
        # "(N lines" of a duplicate block into which lines were inserted: code lines or physical span - both readings accepted
        msg = DRY_N.sub("Duplicate code (* lines", msg)
    return (v["rule"], v["file"], v["line"], msg, v["col"] if cols else None)


def compare(before, after, eff: ed.Effect):
    """-> list of (rule, file, kind, info). kinds: lost, gained, gained-syntax-notice, wrong-shift, message-changed, column-changed"""
    cols = eff.columns_stable
    exp = [expected_after(v, eff) for v in before]
    mask = set()
    if eff.ins_n:
        for v in before:
            r = _dry_range(v)
            if r and v["file"] == eff.file and r[0] <= eff.ins_at < r[1]:
                mask.add((v["file"], v["line"]))
    ce, ca = Counter(_key(v, cols, mask) for v in exp), Counter(_key(v, cols, mask) for v in after)
    only_e = list((ce - ca).elements())
    only_a = list((ca - ce).elements())
    out = []
    for e in sorted(only_e, key=repr):
        match = None
        for kind, same in (("column-changed", lambda a: a[:4] == e[:4]),
                           ("wrong-shift", lambda a: (a[0], a[1], a[3]) == (e[0], e[1], e[3])),
                           ("message-changed", lambda a: a[:3] == e[:3])):
            for a in only_a:
                if same(a):
                    match = (kind, a)
                    break
            if match:
                break
        if match:
            only_a.remove(match[1])
            out.append((e[0], e[1], match[0], {"expected": list(e), "observed": list(match[1])}))
        else:
            out.append((e[0], e[1], "lost", {"expected": list(e)}))
    for a in sorted(only_a, key=repr):
        if a[3].startswith("Syntax error") or a[0].endswith("syntax-error"):
            out.append(("syntax-error-notice", a[1], "gained", {"observed": list(a)}))  # one class, whatever rule id carries it
        else:
            out.append((a[0], a[1], "gained", {"observed": list(a)}))
    return out


def _overlaps_reported_block(info, state_after) -> bool:
    """Does the lost/gained DRY block overlap another block reported for the same file after the edit?"""
    e = info.get("expected") or info.get("observed")
    me = {"rule": e[0], "file": e[1], "line": e[2], "msg": e[3]}
    mr = _dry_range({**me, "msg": me["msg"].replace("(* lines", "(3 lines")})
    for v in state_after:
        r = _dry_range(v)
        if r and v["file"] == me["file"] and v["line"] != me["line"] and r[0] <= mr[1] and mr[0] <= r[1]:
            return True
    return False


def check(case) -> Case:
    states, cfg = build(case)
    lang = case["lang"]
    cmds = list(case["cmds"])
    failures, labels = [], [f"kind={case['kind']}", f"lang={lang}"]
    fams = sorted({p["fam"] for p in case.get("parts", [])}) or [case["kind"]]
    nontrivial = False
    kinds_seq = []
    with Project({s.name: s.data() for s in states}, config=cfg) as p:
        prev, an = observe(p, cmds)
        for a in an:
            failures.append(Failure(f"initial|{lang}|anomaly|{a['cmd']}", {**a, "files": {s.name: s.text() for s in states}}))
        labels.append("base_violations=" + str(min(5, sum(len(v or []) for v in prev.values()))))
        for edit in case["edits"]:
            fi = edit.get("f", 0) % len(states)
            old = states[fi]
            new, eff = ed.apply(old, edit)
            if edit["k"] in ("blank", "comment"):
                # never directly below a directive line (the documented scope of ignore-next-line is the next line)
                if eff.ins_at > 0 and "thailint:" in old.lines[eff.ins_at - 1]:
                    new, eff = ed.apply(old, {**edit, "p": edit.get("p", 0) + 1, "off": edit.get("off", 0) + 1})
                    if eff.ins_at > 0 and "thailint:" in old.lines[eff.ins_at - 1]:
                        continue
            if eff.noop:
                labels.append("edit=noop")
                continue
            states[fi] = new
            p.write(new.name, new.data())
            cur, an = observe(p, cmds)
            name = eff.kind
            kinds_seq.append(name + ("-inv" if eff.swap else ""))
            labels.append(f"edit={name}" + ("-inv" if eff.swap else ""))
            for a in an:
                failures.append(Failure(f"{name}|{lang}|anomaly|{a['cmd']}", {**a, "edit": edit, "before": old.text(), "after": new.text()}))
            nviol_before = 0
            below = above = False
            for cmd in cmds:
                b, a = prev.get(cmd), cur.get(cmd)
                if b is None or a is None:
                    continue
                if name == "bom" and cmd in HEADER_CMDS:
                    continue  # quantifier: header-sensitive linters only for edits below the header; a BOM sits above it
                nviol_before += len(b)
                for v in b:
                    if v["file"] == old.name:
                        below |= v["line"] > eff.ins_at
                        above |= v["line"] <= eff.ins_at
                if eff.swap:  # inverse edit: the relation is symmetric; judge it as the forward edit
                    inv = ed.Effect(kind=eff.kind, file=eff.file, columns_stable=eff.columns_stable)
                    diffs = compare(a, b, inv)
                else:
                    diffs = compare(b, a, eff)
                seen = set()
                for rule, vfile, kind, info in diffs:
                    if rule == "dry.duplicate-code" and kind in ("lost", "gained") and _overlaps_reported_block(info, b if eff.swap else a):
                        kind += "-overlapping-window"  # the same run is reported before and after; only the number of windows differs
                    vlang = {"py": "py", "ts": "ts", "js": "js", "rs": "rs"}.get(vfile.rsplit(".", 1)[-1], lang)
                    sig = f"{name}|{vlang}|{rule}|{kind}"
                    if sig in seen:
                        continue
                    seen.add(sig)
                    failures.append(Failure(sig, {
                        "command": cmd, "edit": edit, "effective_edit": name, "judged_in_reverse": eff.swap, "file": old.name, **info,
                        "inserted": {"after_line": eff.ins_at, "count": eff.ins_n} if eff.ins_n else None,
                        "config": cfg, "before": old.text(), "after": new.text(),
                        "violations_before": [list(_key(v, True)) for v in b][:12], "violations_after": [list(_key(v, True)) for v in a][:12],
                    }))
            if eff.ins_n:
                nontrivial |= below and above
            else:
                nontrivial |= nviol_before >= 2
            prev = cur
    labels.append(f"nedits={len(kinds_seq)}")
    key = h([case["kind"], lang, fams, kinds_seq])
    return Case(key=key, nontrivial=nontrivial and bool(kinds_seq), labels=labels, failures=failures)


# ------------------------------------------------------------------------------------ strategies

EDIT_KINDS = ["blank"] * 4 + ["comment"] * 4 + ["trail"] * 3 + ["reindent"] * 2 + ["eol"] * 2 + ["bom"] + ["append"] * 2 + ["rename"] * 2


@st.composite
def edits(draw, nfiles, lang, units, can_rename):
    """One edit; `units` (current indentation unit per file) is updated so re-indents are never no-ops."""
    kinds = [k for k in EDIT_KINDS if can_rename or k != "rename"]
    k = draw(st.sampled_from(kinds + ["commentid"] * 5))
    if k == "commentid":
        # a remark that mentions a local name, placed just below a planted construct (inside the same block)
        n = len(ed.COMMENT_TEXTS)
        ids = [i for i, t in enumerate(ed.COMMENT_TEXTS) if "{id" in t]
        return {"k": "comment", "f": draw(st.integers(0, nfiles - 1)), "near": draw(st.integers(0, 5)), "off": draw(st.integers(1, 3)),
                "t": draw(st.sampled_from(ids)) + n * draw(st.integers(0, 7)), "ind": 1}
    e = {"k": k, "f": draw(st.integers(0, nfiles - 1))}
    if k in ("blank", "comment", "trail"):
        if draw(st.booleans()):
            e["p"] = draw(st.integers(0, 400))
        else:  # next to / inside a planted construct
            e["near"] = draw(st.integers(0, 5))
            e["off"] = draw(st.integers(-1, 4))
    if k == "blank":
        e["n"] = draw(st.integers(0, 2))
        e["w"] = draw(st.integers(0, 4))
    if k == "comment":
        e["t"] = draw(st.integers(0, 8 * len(ed.COMMENT_TEXTS) - 1))
        e["ind"] = draw(st.integers(0, 1))
    if k == "trail":
        e["w"] = draw(st.integers(0, len(ed.TRAILING) - 1))
    if k == "reindent":
        e["to"] = draw(st.sampled_from([u for u in ["2", "8", "4"] + (["tab"] if lang != "py" else []) if u != units[e["f"]]]))
        units[e["f"]] = e["to"]
    if k == "rename":
        e["t"] = draw(st.integers(0, 2))
    if k == "append":
        e["nl"] = draw(st.integers(0, 1))
    return e


@st.composite
def cases(draw):
    kind = draw(st.sampled_from(["single"] * 6 + ["dry", "dry", "stringly"]))
    layout = {"crlf": draw(st.integers(0, 5)) == 0, "bom": draw(st.integers(0, 11)) == 0, "no_final_nl": draw(st.integers(0, 4)) == 0,
              "script": draw(st.integers(0, 5)) == 0}
    if kind == "single":
        lang = draw(st.sampled_from(LANGS))
        n = draw(st.integers(2, 4))
        fam_pool = families(lang)
        parts = []
        boundary = draw(st.integers(0, 3)) == 0  # every 4th single-file case carries the class at the srp.max_loc limit
        for i in range(n):
            fam = "srploc" if (boundary and i == 0) else draw(st.sampled_from(fam_pool))
            part = {"fam": fam, "var": draw(st.integers(0, 14))}
            if fam == "srploc":
                if any(q["fam"] == "srploc" for q in parts):
                    continue
                part["d"] = draw(st.sampled_from([-1, 0, 0, 1]))
            parts.append(part)
            if draw(st.booleans()):
                parts.append({"fam": "filler", "var": 0})
        cmds = []
        for q in parts:
            c = FAM_CMD.get(q["fam"])
            if c and c not in cmds:
                cmds.append(c)
        others = [c for c in OTHER_CMDS[lang] if c not in cmds]
        nextra = draw(st.integers(1, 2))
        for c in draw(st.permutations(others))[:nextra]:
            cmds.append(c)
        case = {"kind": kind, "lang": lang, "parts": parts, "gap": draw(st.integers(0, 2)), "layout": layout, "cmds": cmds}
        nfiles = 1
    else:
        lang = draw(st.sampled_from(("py", "ts", "js")))
        nfiles = draw(st.integers(2, 3))
        main = "dry" if kind == "dry" else "stringly-typed"
        others = [c for c in OTHER_CMDS[lang] if c != main]
        cmds = [main] + list(draw(st.permutations(others))[: draw(st.integers(1, 2))])
        case = {"kind": kind, "lang": lang, "nfiles": nfiles, "fill": draw(st.booleans()), "layout": layout, "cmds": cmds}
    can_rename = kind == "single" and any(q["fam"] in ed.RENAME_FAMILIES for q in case["parts"])
    units = ["4"] * nfiles
    case["edits"] = [draw(edits(nfiles, lang, units, can_rename)) for _ in range(draw(st.integers(1, 4)))]
    return case


def matrix_cells():
    """Every language x every planted family x every whole-file edit, one edit per case: the drawn cases above combine
    edits freely, this matrix guarantees that no (family, whole-file edit) pair is left to chance."""
    cells = []
    for lang in LANGS:
        for fam in sorted(set(families(lang))):
            for e in ([{"k": "reindent", "f": 0, "to": t} for t in (["2", "8"] + (["tab"] if lang != "py" else []))]
                      + [{"k": "eol", "f": 0}, {"k": "bom", "f": 0}]):
                part = {"fam": fam, "var": 0}
                if fam == "srploc":
                    part["d"] = 0
                cmd = FAM_CMD.get(fam)
                cells.append({"kind": "single", "lang": lang, "parts": [part, {"fam": "filler", "var": 0}], "gap": 1, "layout": {},
                              "cmds": [c for c in (cmd, "nesting", "magic-numbers") if c][:2] if cmd != "nesting" else ["nesting", "magic-numbers"], "edits": [e]})
    return cells


def family_variants(lang, fam):
    """The `var` values of a family enumerated by the insertion matrix: the first form of a seed family (the drawn cases
    vary it), and for the statement-limit family every body shape at the default limit (3) and at a configured one (2)."""
    if fam == "stmtlimit":
        return [v for v in range(4 * len(extra.STMT_SHAPES)) if stmt_limit(v)[0] in (2, 3)]
    return [0]


def insertion_cells():
    """Every language x every planted family (each variant) x EVERY insertion point below the header - above the
    construct, between any two of its lines (so between the statements of every body and inside every multi-line
    statement), after it - x {one comment line at the next line's indentation, two blank lines}; one edit per case.
    The drawn cases reach positions inside a construct only by an offset from its reported line."""
    cells = []
    for lang in LANGS:
        for fam in sorted(set(families(lang))):
            for var in family_variants(lang, fam):
                part = {"fam": fam, "var": var}
                if fam == "srploc":
                    part["d"] = 0
                cmd = FAM_CMD[fam]
                base = {"kind": "single", "lang": lang, "parts": [part], "gap": 1, "layout": {},
                        "cmds": [cmd]}
                st = build({**base, "edits": []})[0][0]
                for pos in range(ed.positions(st)):
                    cells.append({**base, "edits": [{"k": "comment", "f": 0, "p": pos, "t": pos % 10, "ind": 1}]})
                    cells.append({**base, "edits": [{"k": "blank", "f": 0, "p": pos, "n": 1, "w": 0}]})
    return cells


def run(ctx):
    cells = matrix_cells()
    mine = ctx.my_cells(cells)
    done = ctx.each(mine, check)
    ctx.stats.extra.setdefault("matrix", {})["language x planted family x whole-file edit (re-indent to each unit, CRLF, BOM)"] = {"cells": len(mine), "done": done}
    cells = insertion_cells()
    mine = ctx.my_cells(cells)
    done = ctx.each(mine, check)
    ctx.stats.extra["matrix"]["language x planted family variant x every insertion point below the header x (comment line, 2 blank lines)"] = {"cells": len(mine), "done": done}
    ctx.explore(cases(), check, max_examples=ctx.n(70, 1500))


def replay(case) -> Case:
    return check(case)
