"""C06 - exit code and text/JSON/SARIF outputs always agree with the violations found.

One case = one scratch project (seed-library load for one command, hostile file/dir names, non-ASCII
identifiers, user-controlled file-placement message) linted three times with the same arguments, once per
format. Oracle (vf/oracle/c06_formats.py): exit 0 <=> 0 violations, exit 1 <=> >= 1, the three exit codes
agree; JSON is a well-formed `{"violations": [...], "total": N}` with N == len; SARIF passes a structural
2.1.0 validator (1-based lines/columns, every ruleId declared); the multiset of
(rule id, file, line, column, message) is the same in JSON, SARIF (column - 1) and text (reference
renderer). Usage-error cells: every class of "run cannot be performed" must exit exactly 2.
"""
from __future__ import annotations

import json
import os
import re
from collections import Counter

from hypothesis import strategies as st

from vf import runner, seeds
from vf.engine import Case, Failure, h
from vf.oracle import c06_formats as F
from vf.project import Project

ID = "C06"
TECHNIQUE = ("exhaustive matrix command x load x language (x 3 formats per cell) and command x usage-error class, plus "
             "Hypothesis-drawn hostile path/identifier/message ingredients; cross-format multiset oracle, structural "
             "SARIF 2.1.0 validator, text reference renderer; a sample of every matrix in real subprocesses")
RULE = (
    "run case = (command, language, load 0/1/many from the seed library, hostile class of directory and file names "
    "[space, non-ASCII, astral, quotes, colon-digits, newline, control/ANSI, non-UTF-8 bytes, URI-special, backslash], "
    "non-ASCII identifiers, user-controlled file-placement message text, how paths are passed [. / file list / absolute], "
    "config carrier [.thailint.yaml / --config yaml / --config json], execution mode [in-process / subprocess]); the same "
    "arguments are run with --format text, json and sarif. Non-trivial: >= 1 violation reported AND >= 1 hostile "
    "ingredient present. Distinct = (command, language, count bucket, ingredient classes, path passing, carrier, mode). "
    "usage case = (command, usage-error class [15 classes + the benign empty-config control], project with/without violations) "
    "must exit exactly 2 (benign control: 0/1 by count); every usage cell is a distinct (command, class, load) and counts as "
    "non-trivial; label kind=usage separates them from run cases in the histogram."
)
ASSUMPTIONS = [
    "the three renderings are taken from three runs of the same project with the same arguments (a run has one format)",
    "invalid bytes in file names are isolated single bytes, so 'one U+FFFD per byte' and 'one per maximal invalid sequence' coincide",
    "text layout: `Found N violation(s):`, blank line, per violation `  path[:line[:col]]` + `    [ERROR] rule: message` + blank line; a 0 line/column is omitted",
    "a missing file given to the GLOBAL --config option is not generated (the tool documents a fall-back to defaults there); the per-command --config is",
    "--parallel is not combined with the format matrix (C07 owns it)",
    "in-process CLI (click CliRunner) equals a fresh process; cross-checked on the first cases of every run and by the subprocess cells",
]
BUDGET_S = {"quick": 150, "thorough": 1400}

PY, TS, JS, RS = "py", "ts", "js", "rs"
# command -> {language: [seed families the command reports]}  (languages per the linters' docs pages, DESIGN Appendix A)
SRC_CMDS = {
    "nesting": {PY: ["nesting"], TS: ["nesting"], JS: ["nesting"], RS: ["nesting"]},
    "srp": {PY: ["srp"], TS: ["srp"], JS: ["srp"], RS: ["srp"]},
    "magic-numbers": {PY: ["magic"], TS: ["magic"], JS: ["magic"], RS: ["magic"]},
    "improper-logging": {PY: ["print"], TS: ["print"], JS: ["print"]},
    "print-statements": {PY: ["print"], TS: ["print"], JS: ["print"]},
    "method-property": {PY: ["methodprop"]},
    "stateless-class": {PY: ["stateless"]},
    "pipeline": {PY: ["pipeline"]},
    "lbyl": {PY: ["lbyl"]},
    "lazy-ignores": {PY: ["lazy"]},
    "perf": {PY: ["concat", "regex"], TS: ["concat"], JS: ["concat"]},
    "string-concat-loop": {PY: ["concat"], TS: ["concat"], JS: ["concat"]},
    "regex-in-loop": {PY: ["regex"]},
    "unwrap-abuse": {RS: ["unwrap"]},
    "clone-abuse": {RS: ["clone"]},
    "blocking-async": {RS: ["blocking"]},
    "file-header": {PY: [], TS: [], JS: []},
}
SET_CMDS = {"dry": [PY, TS, JS], "stringly-typed": [PY, TS, JS]}
CMDS = sorted(list(SRC_CMDS) + list(SET_CMDS) + ["file-placement"])
INT_OPTS = {"nesting": ["--max-depth"], "srp": ["--max-methods", "--max-loc"], "dry": ["--min-lines"], "pipeline": ["--min-continues"]}


def langs_of(cmd):
    if cmd in SRC_CMDS:
        return list(SRC_CMDS[cmd])
    if cmd in SET_CMDS:
        return SET_CMDS[cmd]
    return [PY, TS, RS]  # file-placement: any path


# ------------------------------------------------------------------------------------ hostile ingredients

NAMES = {
    "plain": "mod",
    "space": "my mod",
    "nonascii": "módulo_日本",
    "astral": "m\U0001F600d",
    "quote": "m'o\"d",
    "colon": "m:12:7",
    "newline": "m\nod",
    "control": "m\x1b[31m\td",
    "badutf8": os.fsdecode(b"m\xffo\xe9d"),
    "uri": "m%20#[x]?&",
    "backslash": "m\\od",
}
NAMECLS = list(NAMES)
MSG_ALPHABET = list("ab Z9") + ['"', "'", "\n", "\t", "\r", "\x01", "\x1b", "\x7f", "\x85", "\u2028", "\u00e9", "\u65e5",
                                 "\U0001F600", "\\", ":", "%", "{", "}", "[", "<", "&", "\u200f", "\ufffd"]


def uni_ident(text: str, u: int) -> str:
    """Give every identifier ending in the unique number u a non-ASCII letter (valid in py/ts/js/rs)."""
    return re.sub(rf"(?<=[A-Za-z_]){u}\b", "ñ" + str(u), text)


def msg_classes(msg: str) -> list:
    out = set()
    for ch in msg:
        o = ord(ch)
        if ch in "\"'":
            out.add("quote")
        elif ch in "\n\r\x85\u2028":
            out.add("newline")
        elif o < 32 or o == 127:
            out.add("control")
        elif o > 0xFFFF:
            out.add("astral")
        elif o > 127:
            out.add("nonascii")
        elif ch in "\\:%{}[<&":
            out.add("punct")
    return sorted(out)


# ------------------------------------------------------------------------------------ loads


def _many(k):
    return max(3, min(int(k), 7))


def build_load(case):
    """-> (texts [str per logical file], ext, config dict, fp_pattern or None)"""
    cmd, lang, load, k, var, uni = case["cmd"], case["lang"], case["load"], case["k"], case["var"], case["uni"]
    ext = seeds.EXT[lang]
    base = 41
    config = {}

    def fin(text, us):
        if uni:
            for u in us:
                text = uni_ident(text, u)
        return text

    def fillers(n, header=True):
        out = []
        for i in range(n):
            us = [base + 20 + 2 * i, base + 21 + 2 * i]
            t, _, _ = seeds.compose(lang, [seeds.filler(lang, u) for u in us], header=header)
            out.append(fin(t, us))
        return out

    if cmd in SET_CMDS:
        config = {"dry": {"enabled": True}} if cmd == "dry" else {}
        mk = seeds.dry_set if cmd == "dry" else seeds.stringly_set
        if load == 0:
            return fillers(2), ext, config, None
        sets = [mk(lang, base, 2)] if load == 1 else [mk(lang, base, 3), mk(lang, base + 1, 2)]
        texts = []
        for j, s in enumerate(sets):
            for t in s.values():
                texts.append(fin(t, [base + j]))
        return texts + fillers(1), ext, config, None

    if cmd == "file-placement":
        n = 2 if load != "many" else 3
        if k % 2 == 0:  # deny rule carrying the user's own text
            pat = "zzz_never_matches" if load == 0 else (rf"0\{ext}$" if load == 1 else rf"\{ext}$")
            key = "message" if var % 2 == 0 else "reason"  # both spellings are accepted for the user's text
            config = {"file-placement": {"global_patterns": {"deny": [{"pattern": pat, key: case["msg"]}]}}}
        else:  # allow list: the tool's own message quotes the file path
            cfgfiles = r"\.(yaml|json)$"
            pat = [rf"\{ext}$", cfgfiles] if load == 0 else ([rf"[^0]\{ext}$", cfgfiles] if load == 1 else [cfgfiles])
            config = {"file-placement": {"global_patterns": {"allow": pat}}}
        return fillers(n), ext, config, pat

    if cmd == "file-header":
        if load == 0:
            return fillers(2), ext, config, None
        n = 1 if load == 1 else 3
        # a header that names only its purpose: several findings of one rule at one position that differ in the message only
        partial = ['"""', "Purpose: partial header", '"""', ""] if lang == PY else ["/**", " * Purpose: partial header", " */", ""]
        body = fillers(1, header=False)[0]
        return fillers(n, header=False) + ["\n".join(partial) + body] + fillers(1), ext, config, None

    fams = SRC_CMDS[cmd][lang]
    if load == 0:
        return fillers(2), ext, config, None
    nseeds = 1 if load == 1 else _many(k)
    per_file = [[], []]
    us_file = [[], []]
    for i in range(nseeds):
        u = base + i
        per_file[i % 2].append(seeds.seed(fams[i % len(fams)], lang, u, var + i))
        us_file[i % 2].append(u)
    texts = []
    for j in (0, 1):
        fu = base + 30 + j
        t, _, _ = seeds.compose(lang, [seeds.filler(lang, fu)] + per_file[j])
        texts.append(fin(t, us_file[j] + [fu]))
    return texts, ext, config, None


def layout(case, ntexts, ext):
    """Relative paths of the logical files: file i lives in the hostile directory for even i (if any)."""
    d = NAMES[case["dircls"]] if case["dircls"] != "none" else None
    stem = NAMES[case["namecls"]]
    rels = []
    for i in range(ntexts):
        name = f"{stem}{i}{ext}"
        if d is not None and i % 2 == 0:
            rels.append(f"d{d}/{name}" if i < 2 else f"d{d}/sub/{name}")
        else:
            rels.append(name)
    return rels


# ------------------------------------------------------------------------------------ running one project


ANSI = re.compile(r"\x1b\[[0-9;]*m")
CLICK_ANSI = re.compile(r"\033\[[;?0-9]*[a-zA-Z]")  # what click's strip_ansi removes


def _exc_name(stderr: str) -> str:
    """Exception class + innermost thai-lint frame of the traceback the CLI logs before exiting 2 (root-cause id)."""
    txt = ANSI.sub("", stderr)
    names = re.findall(r"^((?:[A-Za-z_]\w*\.)*[A-Z]\w*(?:Error|Exception|Exit|Interrupt))\b", txt, flags=re.M)
    frames = re.findall(r'File "[^"]*?/(src/[^"]+\.py)", line \d+, in (\w+)', txt)
    name = names[-1].split(".")[-1] if names else "?"
    if frames:
        return f"{name}@{frames[-1][0]}"
    m = re.search(r"Error during linting: (.{0,80})", txt)
    if m and not names:
        return "msg:" + re.sub(r"[^A-Za-z ]+", "", m.group(1))[:30].strip()
    return name


def _run(args, cwd, mode):
    return runner.run_cli_sub(args, cwd) if mode == "S" else runner.run_cli(args, cwd)


def _fold_crlf(s):
    return s.replace("\r\n", "\n")


def judge_run(results, mode, ingredient_tag):
    """results: {fmt: Result}. -> (failures, count or None, json violations or None)"""
    fails = []

    def fail(sig, **detail):
        fails.append(Failure(sig, detail))

    tail = lambda r: ANSI.sub("", r.stderr)[-400:]  # noqa: E731
    crashed = {}
    for fmt, r in results.items():
        if r.exception:
            crashed[fmt] = ("exception", r.exception.split(":")[0])
        elif r.exit not in (0, 1):
            crashed[fmt] = (f"exit{r.exit}", _exc_name(r.stderr))
    if crashed:
        kinds = sorted(set(crashed.values()))
        fmts = "all" if len(crashed) == len(results) else "+".join(sorted(crashed))
        fail(f"run|{kinds[0][0]}|{fmts}|{kinds[0][1]}|{ingredient_tag}",
             exits={f: r.exit for f, r in results.items()}, stderr={f: tail(results[f]) for f in crashed},
             exception={f: results[f].exception for f in crashed})
    ok = {f: r for f, r in results.items() if f not in crashed}
    for fmt, r in ok.items():
        if mode == "S" and F.has_surrogate(r.stdout):
            fail(f"stdout|invalid-utf8|{fmt}", stdout=r.stdout[:400])
    exits = {f: r.exit for f, r in ok.items()}
    if len(set(exits.values())) > 1:
        fail("exit|formats-disagree|" + ",".join(f"{f}={e}" for f, e in sorted(exits.items())), exits=exits)

    jv = None
    if "json" in ok:
        doc, prob = F.parse_json(ok["json"].stdout)
        if prob:
            fail("json|not-json", problem=prob, stdout=ok["json"].stdout[:400])
        else:
            jv, problems = F.validate_json_doc(doc)
            for code, det in problems:
                fail(f"json|{code}", problem=det)
            if jv is not None and (ok["json"].exit == 1) != (len(jv) >= 1):
                fail(f"exit|json|exit{ok['json'].exit}-with-{'some' if jv else 'no'}-violations", exit=ok["json"].exit, n=len(jv))

    sv = None
    if "sarif" in ok:
        doc, prob = F.parse_json(ok["sarif"].stdout)
        if prob:
            fail("sarif|not-json", problem=prob, stdout=ok["sarif"].stdout[:400])
        else:
            sv, problems = F.validate_sarif(doc)
            for code, det in problems:
                fail(f"sarif|{code}", problem=det)
            if sv is not None and (ok["sarif"].exit == 1) != (len(sv) >= 1):
                fail(f"exit|sarif|exit{ok['sarif'].exit}-with-{'some' if sv else 'no'}-results", exit=ok["sarif"].exit, n=len(sv))

    if jv is not None and sv is not None:
        a = Counter((v["rule_id"], v["file_path"], v["line"], v["column"], v["message"]) for v in jv)
        b = Counter((rid, F.sanitize(uri), line, col, F.sanitize(msg)) for rid, uri, line, col, msg in sv)
        if a != b:
            field = "several"
            names = ["rule_id", "file", "line", "column", "message"]
            for i, nm in enumerate(names):
                proj = lambda c: Counter(t[:i] + t[i + 1:] for t in c.elements())  # noqa: E731
                if proj(a) == proj(b):
                    field = nm
                    break
            if sum(a.values()) != sum(b.values()):
                field = "count"
            fail(f"multiset|json-vs-sarif|{field}", **runner.diff_multisets(a, b))

    if "text" in ok:
        r = ok["text"]
        if jv is not None:
            fold = _fold_crlf if mode == "P" else (lambda x: x)
            problems = F.match_text(r.stdout, jv, fold=fold)
            if problems and any(CLICK_ANSI.search(v["file_path"] + v["message"]) for v in jv):
                # modelled deviation (known finding): click.echo drops ANSI CSI sequences when stdout is not a terminal
                if not F.match_text(r.stdout, jv, fold=lambda x: CLICK_ANSI.sub("", fold(x))):
                    fail("dev:text-ansi-sequence-stripped", problem=problems[0][1])
                    problems = []
            if problems and mode == "P" and any("\r" in v["file_path"] + v["message"] for v in jv):
                # the in-process runner's text stream translates carriage returns in ways a real terminal pipe does not (seen
                # with a message of two lone CRs); texts with CR are judged by the subprocess mode only
                problems = []
            for code, det in problems:
                fail(f"text|{code}", problem=det)
            if not problems and (r.exit == 1) != (len(jv) >= 1):
                fail(f"exit|text|exit{r.exit}-with-{'some' if jv else 'no'}-violations", exit=r.exit, n=len(jv))
    return fails, (len(jv) if jv is not None else None), jv


def check_run(case) -> Case:
    cmd, mode = case["cmd"], case["mode"]
    texts, ext, config, _ = build_load(case)
    rels = layout(case, len(texts), ext)
    files = dict(zip(rels, texts))
    carrier = case["carrier"]
    cfgargs = []
    if carrier == "auto":
        proj = Project(files, config=config)
    elif carrier == "rules":  # file-placement only: inline JSON rules
        proj = Project(files, config=None)
        cfgargs = ["--rules", json.dumps(config)]
    else:
        proj = Project(files, config=None)
        if carrier == "opt-yaml":
            from vf.project import to_yaml

            proj.write("cfg.yaml", to_yaml(config) if config else "{}\n")
            cfgargs = ["--config", "cfg.yaml"]
        else:
            proj.write("cfg.json", json.dumps(config))
            cfgargs = ["--config", "cfg.json"]
    hostile = sorted(set(([case["dircls"]] if case["dircls"] not in ("none", "plain") else [])
                         + ([case["namecls"]] if case["namecls"] != "plain" else [])
                         + (["uni-ident"] if case["uni"] else [])
                         + ([f"msg-{c}" for c in msg_classes(case["msg"])] if cmd == "file-placement" else [])))
    tag = "plain-input" if not hostile else ("badutf8-path" if "badutf8" in hostile else "hostile-input")
    with proj as p:
        if case["target"] == "dot":
            targets = ["."]
        elif case["target"] == "abs":
            targets = [p.root]
        else:
            targets = [r for r in rels]
        results = {}
        for fmt in ("json", "sarif", "text"):
            fa = [] if (fmt == "text" and case.get("deftext")) else ["--format", fmt]
            results[fmt] = _run([cmd] + cfgargs + fa + targets, p.root, mode)
        fails, n, jv = judge_run(results, mode, tag)
        swallowed = any(r.swallowed for r in results.values())
    for f in fails:
        f.detail.setdefault("cmd", cmd)
        f.detail.setdefault("files", list(rels))
    bucket = "?" if n is None else ("0" if n == 0 else "1" if n == 1 else "2-3" if n <= 3 else "4+")
    labels = [f"cmd={cmd}", f"mode={mode}", f"n={bucket}", f"load={case['load']}", f"target={case['target']}", f"carrier={carrier}",
              f"lang={case['lang']}"] + [f"hostile={x}" for x in hostile] + (["hostile=none"] if not hostile else [])
    if swallowed:
        labels.append("swallowed-rule-exception")
    if jv and hostile and any(F.REPLACEMENT in v["file_path"] or any(ord(c) > 127 or ord(c) < 32 for c in v["file_path"] + v["message"]) for v in jv):
        labels.append("hostile-text-reached-output")
    if case["load"] != 0 and n == 0:
        labels.append("load-did-not-fire")
    nontrivial = bool(n) and bool(hostile)
    key = h([cmd, case["lang"], bucket, hostile, case["target"], carrier, mode])
    return Case(key=key, nontrivial=nontrivial, labels=labels, failures=fails)


# ------------------------------------------------------------------------------------ usage errors

BAD_YAML = "magic-numbers: [1, 2\n  x: {\n"
BAD_JSON = "{not json"
USAGE = ["missing-path", "missing-path-among-valid", "missing-path-first", "missing-path-middle", "missing-path-two", "config-missing", "config-malformed-yaml", "config-malformed-json",
         "config-yaml-not-a-mapping", "config-json-not-a-mapping", "auto-config-not-a-mapping",
         "auto-config-malformed", "global-config-malformed", "format-invalid", "format-no-value", "unknown-option",
         "threshold-nonint", "threshold-nonpositive", "rules-invalid-json", "perf-rule-invalid", "project-root-missing", "project-root-is-file"]
BENIGN = ["config-empty-file", "config-comments-only"]


def usage_applicable(cmd, cls):
    if cls in ("threshold-nonint", "threshold-nonpositive"):
        return cmd in INT_OPTS
    if cls == "rules-invalid-json":
        return cmd == "file-placement"
    if cls == "perf-rule-invalid":
        return cmd == "perf"
    return True


def usage_args(cmd, cls, k):
    g, a = [], [cmd]
    if cls == "missing-path":
        a += ["no_such_dir/none.py"]
    elif cls == "missing-path-among-valid":
        a += [".", "no_such_file.py"]
    elif cls == "missing-path-first":  # the position of the missing path among the targets must not matter
        a += ["no_such_file.py", "."]
    elif cls == "missing-path-middle":
        a += [".", "no_such_file.py", "."]
    elif cls == "missing-path-two":
        a += ["no_such_file.py", "no_such_dir", "."]
    elif cls == "config-missing":
        a += ["--config", "absent.yaml", "."]
    elif cls == "config-malformed-yaml":
        a += ["--config", "bad.yaml", "."]
    elif cls == "config-malformed-json":
        a += ["--config", "bad.json", "."]
    elif cls == "config-yaml-not-a-mapping":  # parses, but is a list / a bare scalar: a malformed configuration
        a += ["--config", ["list.yaml", "scalar.yaml"][k % 2], "."]
    elif cls == "config-json-not-a-mapping":
        a += ["--config", "list.json", "."]
    elif cls in ("auto-config-malformed", "auto-config-not-a-mapping"):
        a += ["."]
    elif cls == "global-config-malformed":
        g, a = ["--config", "bad.yaml"], [cmd, "."]
    elif cls == "format-invalid":
        a += ["--format", ["xml", "JSON", ""][k % 3], "."]
    elif cls == "format-no-value":
        a += [".", "--format"]
    elif cls == "unknown-option":
        a += [["--no-such-option", "--max-widgets=3", "-Z"][k % 3], "."]
    elif cls == "threshold-nonint":
        opts = INT_OPTS[cmd]
        a += [opts[k % len(opts)], ["x", "1.5", ""][k % 3], "."]
    elif cls == "threshold-nonpositive":  # documented as invalid: limits must be positive
        opts = INT_OPTS[cmd]
        a += [opts[k % len(opts)], ["0", "-1", "-7"][k % 3], "."]
    elif cls == "rules-invalid-json":
        a += ["--rules", ["{bad", "[1,", "{'a': 1}"][k % 3], "."]
    elif cls == "perf-rule-invalid":
        a += ["--rule", "no-such-rule", "."]
    elif cls == "project-root-missing":
        g = ["--project-root", "no_such_root"]
        a += ["."]
    elif cls == "project-root-is-file":
        g = ["--project-root", "plainfile.txt"]
        a += ["."]
    elif cls in BENIGN:
        a += ["--config", "benign.yaml", "--format", "json", "."]
    return g + a


OWN_CODE_PATH = {"dry", "file-placement", "nesting", "srp", "pipeline", "perf"}  # commands not built by the shared command factory


def _grp(cmd):
    """Signature granularity only: commands sharing one option/validation code path share one repair."""
    return cmd if cmd in OWN_CODE_PATH else "standard-command"


def check_usage(case) -> Case:
    cmd, cls, mode = case["cmd"], case["cls"], case["mode"]
    lang = langs_of(cmd)[0]
    sub = {"kind": "run", "cmd": cmd, "lang": lang, "load": case["load"], "k": 3, "var": 0, "uni": False, "msg": "denied here",
           "dircls": "none", "namecls": "plain"}
    texts, ext, config, _ = build_load(sub)
    rels = layout(sub, len(texts), ext)
    files = dict(zip(rels, texts))
    files["bad.yaml"] = BAD_YAML
    files["bad.json"] = BAD_JSON
    files["plainfile.txt"] = "x\n"
    files["list.yaml"] = "- nesting\n- srp\n"
    files["scalar.yaml"] = "nesting max_nesting_depth 2\n"
    files["list.json"] = '["nesting", "srp"]\n'
    files["benign.yaml"] = "" if cls == "config-empty-file" else "# nothing configured here\n# dry:\n#   enabled: true\n"
    fails = []
    with Project(files, config=config) as p:
        if cls == "auto-config-malformed":
            p.write(".thailint.yaml", BAD_YAML)
        if cls == "auto-config-not-a-mapping":
            p.write(".thailint.yaml", "- nesting\n- srp\n")
        args = usage_args(cmd, cls, case["k"])
        r = _run(args, p.root, mode)
        if cls in BENIGN:
            # an empty / comments-only YAML document is a valid configuration that configures nothing
            if r.exception or r.exit not in (0, 1):
                fails.append(Failure(f"usage|benign-empty-config|{_grp(cmd)}|exit{r.exit}|{_exc_name(r.stderr)}",
                                     {"args": args, "exit": r.exit, "exception": r.exception, "stderr": ANSI.sub("", r.stderr)[-500:]}))
            else:
                doc, prob = F.parse_json(r.stdout)
                vs = None if prob else F.validate_json_doc(doc)[0]
                if vs is None or (r.exit == 1) != (len(vs) >= 1):
                    fails.append(Failure(f"usage|benign-empty-config|{_grp(cmd)}|exit-vs-count", {"args": args, "exit": r.exit, "stdout": r.stdout[:300]}))
        elif r.exit != 2 or r.exception:
            fails.append(Failure(f"usage|{cls}|{_grp(cmd)}|exit{r.exit}",
                                 {"cmd": cmd, "args": args, "exit": r.exit, "exception": r.exception, "stdout": r.stdout[:300],
                                  "stderr": ANSI.sub("", r.stderr)[-500:], "project_has_violations": case["load"] != 0}))
    labels = [f"usage={cls}", f"cmd={cmd}", f"mode={mode}", "kind=usage"]
    return Case(key=h(["usage", cmd, cls, case["load"], mode]), nontrivial=True, labels=labels, failures=fails)


def check(case) -> Case:
    if case["kind"] == "usage":
        return check_usage(case)
    return check_run(case)


# ------------------------------------------------------------------------------------ strategies / matrices


@st.composite
def run_cases(draw):
    cmd = draw(st.sampled_from(CMDS + ["file-placement"] * 4))  # the command whose message text is user-controlled
    lang = draw(st.sampled_from(langs_of(cmd)))
    load = draw(st.sampled_from([1, "many", "many", 0]))
    namecls = draw(st.sampled_from(NAMECLS))
    dircls = draw(st.sampled_from(["none"] + NAMECLS))
    msg = draw(st.text(alphabet=st.sampled_from(MSG_ALPHABET), min_size=1, max_size=14)) if cmd == "file-placement" else "denied here"
    return {"kind": "run", "cmd": cmd, "lang": lang, "load": load, "k": draw(st.integers(3, 7)), "var": draw(st.integers(0, 5)),
            "uni": draw(st.booleans()), "dircls": dircls, "namecls": namecls, "msg": msg,
            "target": draw(st.sampled_from(["dot", "files", "abs"])), "carrier": draw(st.sampled_from(["auto", "auto", "opt-yaml", "opt-json"] + (["rules", "rules"] if cmd == "file-placement" else []))),
            "deftext": draw(st.booleans()), "mode": "P"}


def matrix_cells():
    """command x language x load, plain names (P) - the full finite matrix; formats are the 3 runs of each cell."""
    cells = []
    for cmd in CMDS:
        for lang in langs_of(cmd):
            for load in (0, 1, "many"):
                cells.append({"kind": "run", "cmd": cmd, "lang": lang, "load": load, "k": 4, "var": 0, "uni": False, "dircls": "none",
                              "namecls": "plain", "msg": "denied here", "target": "dot", "carrier": "auto", "deftext": False, "mode": "P"})
    return cells


def hostile_cells(mode, per_cmd):
    """For every command: `per_cmd` hostile combinations rotating through all name classes (deterministic)."""
    cells = []
    hostile = [c for c in NAMECLS if c != "plain"]
    i = 0
    for ci, cmd in enumerate(CMDS):
        ls = langs_of(cmd)
        for j in range(per_cmd):
            namecls = hostile[(ci + j * 3) % len(hostile)]
            dircls = (["none"] + hostile)[(ci * 2 + j * 5 + 1) % (len(hostile) + 1)]
            msg = ["no \"py\" here\n\tline2 \x01 \U0001F600 é", "it's: 100% {wrong}\r\n<&>", "日本 x\x1b[0m", "tail \n\n"][(ci + j) % 4]
            cells.append({"kind": "run", "cmd": cmd, "lang": ls[(ci + j) % len(ls)], "load": "many" if j % 3 != 2 else 1, "k": 3 + (i % 4), "var": i % 3,
                          "uni": (i % 2 == 0), "dircls": dircls, "namecls": namecls, "msg": msg,
                          "target": ["dot", "files", "abs"][i % 3], "carrier": ["auto", "opt-yaml", "auto", "opt-json"][i % 4],
                          "deftext": i % 2 == 1, "mode": mode})
            i += 1
    return cells


def fp_cells(mode, classes=None):
    """file-placement (user text / file path flows into the message) x every hostile class x {deny+message, allow list}."""
    cells = []
    msgs = ["no \"py\" here\n\tline2 \x01 \U0001F600 \u00e9", "it's: 100% {wrong}\r\n<&>", "\u65e5\u672c\u2028x\x1b[0m", "tail \n\n"]
    i = 0
    for cls in (classes or [c for c in NAMECLS if c != "plain"]):
        for k in (3, 4):
            for dircls in ("none", cls):
                cells.append({"kind": "run", "cmd": "file-placement", "lang": [PY, TS, RS][i % 3], "load": "many" if i % 4 else 1, "k": k, "var": i // 2,
                              "uni": False, "dircls": dircls, "namecls": cls, "msg": msgs[i % 4], "target": ["dot", "files", "abs"][i % 3],
                              "carrier": ["auto", "rules", "opt-yaml", "opt-json"][i % 4], "deftext": i % 2 == 1, "mode": mode})
                i += 1
    return cells


def usage_cells(mode, loads=(0, 1), ks=(0,)):
    cells = []
    for cmd in CMDS:
        for cls in USAGE + BENIGN:
            if not usage_applicable(cmd, cls):
                continue
            for load in loads:
                for k in ks:
                    cells.append({"kind": "usage", "cmd": cmd, "cls": cls, "load": load, "k": k, "mode": mode})
    return cells


def usage_sub_sample():
    """One real-process cell per usage class, commands rotating."""
    cells = []
    for i, cls in enumerate(USAGE + BENIGN):
        cmds = [c for c in CMDS if usage_applicable(c, cls)]
        cells.append({"kind": "usage", "cmd": cmds[(i * 7) % len(cmds)], "cls": cls, "load": 1, "k": i, "mode": "S"})
    return cells


def zero_sub_sample():
    """Real-process runs with nothing to report (exit 0, 'No violations found', empty JSON/SARIF)."""
    return [{"kind": "run", "cmd": cmd, "lang": langs_of(cmd)[0], "load": 0, "k": 4, "var": 0, "uni": False, "dircls": "space", "namecls": "nonascii",
             "msg": "denied here", "target": "dot", "carrier": "auto", "deftext": i % 2 == 0, "mode": "S"}
            for i, cmd in enumerate(["nesting", "dry", "file-placement", "perf"])]


def run(ctx):
    m = ctx.stats.extra.setdefault("matrix", {})

    def do(name, cells):
        mine = ctx.my_cells(cells)
        done = ctx.each(mine, check)
        m[name] = {"cells": len(mine), "done": done}

    do("command x language x load {0,1,many} (x 3 formats), plain names, in-process", matrix_cells())
    do("command x usage-error class x load {0,1}, in-process", usage_cells("P", ks=(0,) if ctx.quick else (0, 1, 2)))
    do("usage-error class sample, real subprocess", usage_sub_sample())
    do("zero-violation runs, real subprocess", zero_sub_sample())
    do("command x hostile-name rotation, real subprocess (byte-exact stdout, real exit status)", hostile_cells("S", 3 if ctx.quick else 12))
    do("command x hostile-name rotation, in-process", hostile_cells("P", 6 if ctx.quick else 20))
    do("file-placement x hostile class x {deny+user message, allow list}, in-process", fp_cells("P"))
    do("file-placement x {non-UTF-8, control} names, real subprocess", fp_cells("S", ["badutf8", "control"] if ctx.quick else None))
    ctx.explore(run_cases(), check, max_examples=ctx.n(45, 900), salt=6)
    ctx.stats.exhaustive = "command x documented language x load x format matrix with plain names; command x usage-error class"


def replay(case) -> Case:
    return check(case)
