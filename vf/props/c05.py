"""C05 - configuration is honoured identically in every format and for every linter.

Sub-checks (case["kind"]):
  diff     one drawn section dict rendered into every carrier x section-name spelling
           (.thailint.yaml, .thailint.json, pyproject.toml [tool.thailint.*], --config x.yaml, --config x.json,
           each with hyphen and underscore spelling): identical (exit, violations); plus `enabled: false` => no
           violation of that linter, in every rendering.
  sweep    a documented threshold / switch swept from strict to permissive: the violation multisets are nested
           (never more when more permissive) and at least one step changes the result (a knob without any effect fails).
           Also delivered through the command-line option where one exists.
  stack    2-3 carriers present at once with different values (+ optionally the CLI option, + a per-language
           override): result == result of the documented winner alone (CLI option > .thailint.yaml > .thailint.json
           > pyproject.toml).
  lang     per-language override: files of that language follow the override, other files the top-level value.
  invalid  documented-invalid value / unparsable file => exit 2 in every carrier.
  ignore   top-level `ignore:` list removes the same files in every carrier.
"""
from __future__ import annotations

import json
import os
from collections import Counter

from hypothesis import strategies as st

from vf import runner, seeds
from vf.engine import Case, Failure, h
from vf.project import Project, to_yaml

ID = "C05"
TECHNIQUE = "exhaustive matrix (linter section x carrier x key spelling) with Hypothesis-drawn option values; carrier/spelling differential, enabled:false => empty, monotone threshold sweeps, precedence-stack differential, invalid => exit 2"
RULE = (
    "case = (linter section, documented knob values drawn by Hypothesis) applied to that linter's seed project. diff: 10 renderings "
    "(5 carriers x 2 section spellings) must agree; sweep: ordered values strict->permissive give nested violation multisets; stack: "
    "several carriers + CLI option, result == winner alone; lang: per-language override; invalid: exit 2; ignore: top-level ignore "
    "list per carrier. Non-trivial: the drawn config changes the outcome relative to the default config. Distinct = (kind, section, "
    "knob/value set, carrier set)."
)
ASSUMPTIONS = [
    "only documented keys and value ranges (config template + per-linter docs); hyphen/underscore variation at the section level only",
    "every project carries an empty .git/ directory as root marker so that the carrier under test is the only configuration source",
    "'invalid' only where the config class documents the constraint (non-positive limits, unknown storage_mode) or the file is unparsable",
]
BUDGET_S = {"quick": 150, "thorough": 1500}

CARRIERS = ("yaml", "json", "pyproject", "cfg-yaml", "cfg-json")
SPELLINGS = ("hyphen", "underscore")


# ------------------------------------------------------------------------------------------ linter table


def _files(pairs, extra=None):
    """pairs: [(lang, family, u, var)] -> {path: text} one file per language."""
    by_lang = {}
    for lang, fam, u, var in pairs:
        by_lang.setdefault(lang, []).append(seeds.seed(fam, lang, u, var))
    files = {}
    for lang, parts in by_lang.items():
        files[f"src/mod_{lang}{seeds.EXT[lang]}"] = seeds.compose(lang, [seeds.filler(lang, 1)] + parts + [seeds.filler(lang, 2)], header=False, gap=1)[0]
    files.update(extra or {})
    return files


def _dry_files():
    fs = {}
    for lang in ("py", "ts"):
        for k, v in seeds.dry_set(lang, 40, 3, n=5).items():
            fs["src/" + k] = v
    return fs


def _stringly_files():
    fs = {}
    for lang in ("py", "ts"):
        for k, v in seeds.stringly_set(lang, 41, 3).items():
            fs["src/" + k] = v
    # a value set that is repeated inside ONE file only (require_cross_file decides)
    fs["src/solo.py"] = "\n".join(["def solo_a(mode_9):", '    if mode_9 == "fast9":', "        return run_a(mode_9)", '    elif mode_9 == "slow9":',
                                   "        return run_b(mode_9)", "    return None", ""])
    return fs


def _script_files():
    # a print in a __main__ block (allow_in_scripts) and one in a function
    py = "\n".join(["def show_5(a5):", "    print(a5)", "    return a5", "", "", 'if __name__ == "__main__":', "    print(show_5(2))", ""])
    return {"src/tool.py": py, **_files([("ts", "print", 6, 0)])}


def _srp_loc_files():
    """Classes with few methods but many lines: only max_loc decides."""
    body = ["class Ledger9:", "    def __init__(self, v9):", "        self.v9 = v9", "", "    def settle9(self, p9):"]
    body += [f"        self.v9 = self.v9 + p9 + {i % 3}" for i in range(45)] + ["        return self.v9", ""]
    ts = ["class Ledger8 {", "    settle8(p8: number) {"] + [f"        this.v8 = this.v8 + p8 + {i % 3};" for i in range(25)] + ["        return this.v8;", "    }", "}", ""]
    return {"src/loc.py": "\n".join(body), "src/loc.ts": "\n".join(ts)}


def _srp_kw_files():
    return {"src/kw.py": "\n".join(["class ReportManager:", "    def __init__(self, v):", "        self.v = v", "", "    def run(self, p):", "        self.v = p", "        return self.v", ""])}


def _rs(fam_vars):
    return _files([("rs", f, 10 + i, v) for i, (f, v) in enumerate(fam_vars)])


def _unwrap_files():
    src = "\n".join([
        "fn risky_1(x1: Option<i32>) -> i32 {", "    let v1 = x1.unwrap();", "    v1", "}", "",
        "fn risky_2(x2: Option<i32>) -> i32 {", '    let v2 = x2.expect("e2");', "    v2", "}", "",
        "#[cfg(test)]", "mod tests {", "    #[test]", "    fn t1() {", "        let v3 = Some(1).unwrap();", "        assert_eq!(v3, 1);", "    }", "}", ""])
    return {"src/lib.rs": src}


def _clone_files():
    src = "\n".join([
        "fn cl_1(items1: Vec<String>) {", "    for it1 in items1.iter() {", "        let c1 = it1.clone();", "        use_1(c1);", "    }", "}", "",
        "fn cl_2(a2: String) {", "    let b2 = a2.clone().clone();", "    use_2(b2);", "}", "",
        "fn cl_3(a3: String) {", "    let b3 = a3.clone();", "    use_3(b3);", "}", "",
        "#[test]", "fn t_cl() {", "    for it4 in items4.iter() {", "        let c4 = it4.clone();", "        use_4(c4);", "    }", "}", ""])
    return {"src/lib.rs": src}


def _blocking_files():
    src = "\n".join([
        "async fn blk_1() {", '    let s1 = std::fs::read_to_string("f1");', "    use_1(s1);", "}", "",
        "async fn blk_2(d2: std::time::Duration) {", "    std::thread::sleep(d2);", "}", "",
        "async fn blk_3() {", '    let c3 = std::net::TcpStream::connect("127.0.0.1:80");', "    use_3(c3);", "}", "",
        "#[tokio::test]", "async fn t_blk() {", '    let s4 = std::fs::read_to_string("f4");', "    use_4(s4);", "}", ""])
    return {"src/lib.rs": src}


def _lazy_files():
    return _files([("py", "lazy", 7, 0)], {"src/t.py": "def lazy_8(x8):\n    return compute_8(x8)  # type: ignore\n"})


# knob: (key, ordered values strict -> permissive)
LINTERS = {
    "nesting": dict(cmd="nesting", sections=["nesting"], files=lambda: _files([("py", "nesting", 1, 0), ("ts", "nesting", 2, 1), ("rs", "nesting", 3, 0), ("py", "nesting", 4, 1), ("js", "nesting", 5, 1)]),
                    knobs=[("max_nesting_depth", [1, 2, 3, 4, 5, 6, 7, 8, 9])], cli={"max_nesting_depth": "--max-depth"},
                    invalid=[("max_nesting_depth", 0), ("max_nesting_depth", -2)], lang_knob="max_nesting_depth"),
    "srp": dict(cmd="srp", sections=["srp"], files=lambda: {**_files([("py", "srp", 1, 0), ("ts", "srp", 2, 1), ("rs", "srp", 3, 2), ("py", "srp", 4, 2), ("js", "srp", 5, 1)]), **_srp_kw_files(), **_srp_loc_files()},
                knobs=[("max_methods", [2, 5, 7, 8, 9, 10, 11, 15]), ("max_loc", [3, 10, 20, 30, 40, 60, 200]), ("check_keywords", [True, False])],
                cli={"max_methods": "--max-methods", "max_loc": "--max-loc"}, invalid=[("max_methods", 0), ("max_loc", -1)], lang_knob="max_methods"),
    "magic-numbers": dict(cmd="magic-numbers", sections=["magic-numbers"], files=lambda: _files([("py", "magic", 1, 0), ("ts", "magic", 2, 1), ("rs", "magic", 3, 0), ("py", "magic", 4, 2), ("js", "magic", 5, 1)]),
                          knobs=[("allowed_numbers", [[], [1307], [1307, 1314], [1307, 1314, 1321], [1307, 1314, 1321, 1328, 1335]])], cli={},
                          invalid=[("max_small_integer", 0), ("max_small_integer", -5)], lang_knob="allowed_numbers"),
    "dry": dict(cmd="dry", sections=["dry"], files=_dry_files, base={"enabled": True},
                knobs=[("min_duplicate_lines", [2, 3, 4, 5, 6, 7]), ("min_occurrences", [2, 3, 4, 5]), ("min_duplicate_tokens", [5, 30, 200, 5000])],
                cli={"min_duplicate_lines": "--min-lines"},
                invalid=[("min_duplicate_lines", 0), ("min_occurrences", 0), ("storage_mode", "cloud")], lang_knob="min_occurrences",
                lang_knobs_extra=["min_duplicate_lines"]),  # documented per-language key without an implementation (known finding)
    "print-statements": dict(cmd="improper-logging", sections=["print-statements", "improper-logging"], files=_script_files,
                             knobs=[("allow_in_scripts", [False, True])], cli={}, invalid=[], lang_knob=None),
    "method-property": dict(cmd="method-property", sections=["method-property"], files=lambda: {"src/rec.py": "\n".join([
                                "class Rec9:", "    def __init__(self, a9, b9):", "        self._a9 = a9", "        self._b9 = b9", "",
                                "    def get_a9(self):", "        return self._a9", "",
                                "    def total9(self):", "        t9 = self._a9 + self._b9", "        u9 = t9 * self._b9", "        return u9", ""])},
                            knobs=[("max_body_statements", [5, 3, 2, 1])], cli={}, invalid=[], lang_knob=None),
    "stateless-class": dict(cmd="stateless-class", sections=["stateless-class"], files=lambda: _files([("py", "stateless", 1, 0), ("py", "stateless", 2, 0)]),
                            knobs=[("min_methods", [1, 2, 3, 4])], cli={}, invalid=[], lang_knob=None),
    "collection-pipeline": dict(cmd="pipeline", sections=["collection-pipeline", "pipeline"], files=lambda: _files([("py", "pipeline", 1, 0), ("py", "pipeline", 2, 0)]),
                                knobs=[("min_continues", [1, 2, 3])], cli={"min_continues": "--min-continues"}, invalid=[("min_continues", 0)], lang_knob=None),
    "lbyl": dict(cmd="lbyl", sections=["lbyl"], files=lambda: _files([("py", "lbyl", 1, 0), ("py", "lbyl", 2, 0)]),
                 knobs=[("detect_dict_key", [True, False])], cli={}, invalid=[], lang_knob=None),
    "performance": dict(cmd="perf", sections=["performance"], files=lambda: _files([("py", "concat", 1, 0), ("py", "regex", 2, 0), ("ts", "concat", 3, 0)]),
                        knobs=[], cli={}, invalid=[], lang_knob=None),
    "stringly-typed": dict(cmd="stringly-typed", sections=["stringly-typed"], files=_stringly_files,
                           knobs=[("min_occurrences", [2, 3, 4, 5]), ("min_values_for_enum", [2, 3, 4, 5]), ("require_cross_file", [False, True]),
                                  # documented option "Variable names to exclude from detection": the compared / tested variable of the planted sets
                                  ("exclude_variables", [[], ["env_41"], ["env_41", "mode_9"]])], cli={},
                           invalid=[("min_occurrences", 0), ("min_values_for_enum", 1)], lang_knob=None),
    "lazy-ignores": dict(cmd="lazy-ignores", sections=["lazy-ignores"], files=_lazy_files,
                         knobs=[("check_noqa", [True, False]), ("check_type_ignore", [True, False])], cli={}, invalid=[], lang_knob=None),
    "file-header": dict(cmd="file-header", sections=["file-header"], files=lambda: _files([("py", "magic", 1, 0), ("ts", "magic", 2, 0)]),
                        knobs=[], cli={}, invalid=[], lang_knob=None),
    "unwrap-abuse": dict(cmd="unwrap-abuse", sections=["unwrap-abuse"], files=_unwrap_files,
                         knobs=[("allow_expect", [False, True]), ("allow_in_tests", [False, True])], cli={}, invalid=[], lang_knob=None),
    "clone-abuse": dict(cmd="clone-abuse", sections=["clone-abuse"], files=_clone_files,
                        knobs=[("allow_in_tests", [False, True]), ("detect_clone_in_loop", [True, False]), ("detect_clone_chain", [True, False]), ("detect_unnecessary_clone", [True, False])],
                        cli={}, invalid=[], lang_knob=None),
    "blocking-async": dict(cmd="blocking-async", sections=["blocking-async"], files=_blocking_files,
                           knobs=[("allow_in_tests", [False, True]), ("detect_fs_in_async", [True, False]), ("detect_sleep_in_async", [True, False]), ("detect_net_in_async", [True, False])],
                           cli={}, invalid=[], lang_knob=None),
}


# ------------------------------------------------------------------------------------------ rendering configs


def toml_value(v):
    if isinstance(v, bool):
        return "true" if v else "false"
    if isinstance(v, (int, float)):
        return repr(v)
    if isinstance(v, str):
        return json.dumps(v)
    if isinstance(v, list):
        return "[" + ", ".join(toml_value(x) for x in v) + "]"
    raise TypeError(v)


def to_toml(cfg: dict) -> str:
    out = []
    top = {k: v for k, v in cfg.items() if not isinstance(v, dict)}
    if top:
        out.append("[tool.thailint]")
        out += [f"{k} = {toml_value(v)}" for k, v in top.items()]
        out.append("")
    for sec, body in cfg.items():
        if not isinstance(body, dict):
            continue
        out.append(f"[tool.thailint.{sec}]")
        sub = {}
        for k, v in body.items():
            if isinstance(v, dict):
                sub[k] = v
            else:
                out.append(f"{k} = {toml_value(v)}")
        out.append("")
        for k, v in sub.items():
            out.append(f"[tool.thailint.{sec}.{k}]")
            out += [f"{kk} = {toml_value(vv)}" for kk, vv in v.items()]
            out.append("")
    if not out:
        out = ["[tool.thailint]", ""]
    return "\n".join(out) + "\n"


def respell(cfg: dict, spelling: str) -> dict:
    if spelling == "hyphen":
        return dict(cfg)
    return {k.replace("-", "_"): v for k, v in cfg.items()}


def install(proj, carrier: str, cfg: dict, spelling: str):
    """Write cfg through carrier; -> extra argv placed before the command (global options) and after it."""
    cfg = respell(cfg, spelling)
    if carrier == "yaml":
        proj.write(".thailint.yaml", to_yaml(cfg) if cfg else "{}\n")
        return []
    if carrier == "json":
        proj.write(".thailint.json", json.dumps(cfg, indent=1))
        return []
    if carrier == "pyproject":
        proj.write("pyproject.toml", '[project]\nname = "scratch"\nversion = "0"\n\n' + to_toml(cfg))
        return []
    if carrier == "cfg-yaml":
        proj.write("custom-config.yaml", to_yaml(cfg) if cfg else "{}\n")
        return ["--config", "custom-config.yaml"]
    if carrier == "cfg-json":
        proj.write("custom-config.json", json.dumps(cfg, indent=1))
        return ["--config", "custom-config.json"]
    raise ValueError(carrier)


def new_project(files):
    p = Project(files, marker=False)
    p.write(".git/HEAD", "ref: refs/heads/main\n")
    return p


def lint(proj, cmd, cfg_args, opts=()):
    args = [cmd, *cfg_args, "--format", "json", *opts, "."]
    r = runner.run_cli(args, cwd=proj.root)
    if r.exit not in (0, 1):
        return r, None
    ms = Counter((v["rule_id"], runner.norm_path(v["file_path"], proj.root, proj.root), v["line"], v["column"], v["message"]) for v in r.violations)
    return r, ms


def run_with(files, cmd, carrier, spelling, cfg, opts=()):
    with new_project(files) as p:
        cfg_args = install(p, carrier, cfg, spelling)
        r, ms = lint(p, cmd, cfg_args, opts)
        return r.exit, ms, (r.stderr[-300:] if ms is None else ""), r.swallowed


def full_cfg(name, section, body):
    L = LINTERS[name]
    return {section: {**L.get("base", {}), **body}}


# ------------------------------------------------------------------------------------------ checks


def check_diff(case) -> Case:
    name, section, body = case["linter"], case["section"], case["body"]
    L = LINTERS[name]
    files = L["files"]()
    cfg = full_cfg(name, section, body)
    failures, labels = [], ["kind=diff", f"section={section}"]
    ref_exit, ref, err, sw = run_with(files, L["cmd"], "yaml", "hyphen", cfg)
    d_exit, dflt, _, _ = run_with(files, L["cmd"], "yaml", "hyphen", full_cfg(name, section, {}))
    if ref is None:
        return Case(h(case), False, labels, [Failure(f"{section}|diff|reference-run-exit-{ref_exit}", {"cfg": cfg, "stderr": err})])
    if sw:
        failures.append(Failure(f"{section}|diff|swallowed-failure", {"cfg": cfg, "swallowed": sw[:2]}))
    for carrier in CARRIERS:
        for spelling in SPELLINGS:
            if (carrier, spelling) == ("yaml", "hyphen"):
                continue
            if spelling == "underscore" and "-" not in section:
                continue
            e, ms, err, _ = run_with(files, L["cmd"], carrier, spelling, cfg)
            if e != ref_exit or ms != ref:
                why = "differs-from-default-too" if ms != dflt else "falls-back-to-default"
                failures.append(Failure(f"{section}|diff|{carrier}|{spelling}|{why}", {"cfg": cfg, "exit": [ref_exit, e], "stderr": err,
                                                                                      **(runner.diff_multisets(ref, ms) if ms is not None else {})}))
    # enabled: false => nothing from this linter, in every rendering
    off = full_cfg(name, section, {**body, "enabled": False})
    for carrier in CARRIERS:
        for spelling in SPELLINGS:
            if spelling == "underscore" and "-" not in section:
                continue
            e, ms, err, _ = run_with(files, L["cmd"], carrier, spelling, off)
            if ms is None or sum(ms.values()) or e != 0:
                failures.append(Failure(f"{section}|enabled-false|{carrier}|{spelling}|still-reports", {"cfg": off, "exit": e, "n": None if ms is None else sum(ms.values()), "stderr": err,
                                                                                                       "sample": sorted(map(list, ms))[:2] if ms else None}))
    nontrivial = ref != dflt or bool(sum(dflt.values()))
    return Case(key=h(["diff", section, sorted(body)]), nontrivial=nontrivial, labels=labels + (["changes-outcome"] if ref != dflt else []), failures=failures)


def check_sweep(case) -> Case:
    name, section, key = case["linter"], case["section"], case["key"]
    L = LINTERS[name]
    files = L["files"]()
    values = dict(L["knobs"])[key]
    via = case["via"]  # "config" | "cli"
    failures, labels = [], ["kind=sweep", f"section={section}", f"via={via}", f"knob={key}"]
    results = []
    for v in values:
        if via == "cli":
            e, ms, err, _ = run_with(files, L["cmd"], case["carrier"], "hyphen", full_cfg(name, section, case["other"]), opts=(L["cli"][key], str(v)))
        else:
            e, ms, err, _ = run_with(files, L["cmd"], case["carrier"], case["spelling"], full_cfg(name, section, {**case["other"], key: v}))
        if ms is None:
            failures.append(Failure(f"{section}|sweep|{key}|valid-value-exit-{e}", {"value": v, "stderr": err, "via": via}))
            return Case(h(case), False, labels, failures)
        results.append(ms)
    # messages may quote the threshold itself ("(max: 7)"): nesting is judged on (rule, file, line, column)
    results = [Counter({k[:4]: n for k, n in ms.items()}) for ms in results]
    for i in range(len(values) - 1):
        more = results[i + 1] - results[i]
        if more:
            failures.append(Failure(f"{section}|sweep|{key}|{via}|more-permissive-adds-violation", {"from": values[i], "to": values[i + 1], "added": sorted(map(list, more.elements()))[:3]}))
            break
    changed = any(results[i] != results[i + 1] for i in range(len(values) - 1))
    if not changed:
        failures.append(Failure(f"{section}|sweep|{key}|{via}|no-effect", {"values": values, "carrier": case["carrier"], "spelling": case["spelling"], "n_violations": sum(results[0].values())}))
    return Case(key=h(["sweep", section, key, via, case["carrier"], case["spelling"], sorted(case["other"])]), nontrivial=changed, labels=labels, failures=failures)


ORDER = ["yaml", "json", "pyproject"]  # documented precedence among discovered files


def check_stack(case) -> Case:
    name, section, key = case["linter"], case["section"], case["key"]
    L = LINTERS[name]
    files = L["files"]()
    vals = case["values"]  # carrier -> value
    failures, labels = [], ["kind=stack", f"section={section}", "carriers=" + "+".join(sorted(vals)), "cli" if case.get("cli_value") is not None else "no-cli"]
    with new_project(files) as p:
        for carrier, v in vals.items():
            install(p, carrier, full_cfg(name, section, {key: v}), case["spelling"].get(carrier, "hyphen"))
        opts = (L["cli"][key], str(case["cli_value"])) if case.get("cli_value") is not None else ()
        r, got = lint(p, L["cmd"], [], opts)
        err = r.stderr[-300:]
    if case.get("cli_value") is not None:
        winner_val, winner = case["cli_value"], "cli"
    else:
        winner = next(c for c in ORDER if c in vals)
        winner_val = vals[winner]
    e, want, _, _ = run_with(files, L["cmd"], "yaml", "hyphen", full_cfg(name, section, {key: winner_val}))
    if got is None:
        failures.append(Failure(f"{section}|stack|bad-exit-{r.exit}", {"values": vals, "stderr": err}))
    elif got != want:
        # which carrier's value did it follow?
        followed = None
        for c, v in vals.items():
            _, ms, _, _ = run_with(files, L["cmd"], "yaml", "hyphen", full_cfg(name, section, {key: v}))
            if ms == got:
                followed = c
        failures.append(Failure(f"{section}|stack|{winner}-should-win|followed-{followed}", {"values": vals, "cli": case.get("cli_value"), "key": key, **runner.diff_multisets(want, got)}))
    distinct_vals = len(set(map(json.dumps, list(vals.values()) + ([case["cli_value"]] if case.get("cli_value") is not None else [])))) > 1
    return Case(key=h(["stack", section, key, sorted(vals), case.get("cli_value") is not None]), nontrivial=distinct_vals, labels=labels, failures=failures)


LANG_KEY = {"py": "python", "ts": "typescript", "js": "javascript", "rs": "rust"}


def check_lang(case) -> Case:
    name, section, key = case["linter"], case["section"], case["key"]
    L = LINTERS[name]
    files = L["files"]()
    lang, v_lang, v_base = case["lang"], case["v_lang"], case["v_base"]
    failures, labels = [], ["kind=lang", f"section={section}", f"lang={lang}", "cli" if case.get("cli_value") is not None else "no-cli"]
    ext = seeds.EXT[lang]
    cfg = full_cfg(name, section, {key: v_base, LANG_KEY[lang]: {key: v_lang}})
    opts = (L["cli"][key], str(case["cli_value"])) if case.get("cli_value") is not None else ()
    e, got, err, _ = run_with(files, L["cmd"], case["carrier"], "hyphen", cfg, opts)
    if got is None:
        return Case(h(case), False, labels, [Failure(f"{section}|lang|bad-exit-{e}", {"cfg": cfg, "stderr": err})])
    if case.get("cli_value") is not None:
        _, want, _, _ = run_with(files, L["cmd"], "yaml", "hyphen", full_cfg(name, section, {key: case["cli_value"]}))
        if got != want:
            failures.append(Failure(f"{section}|lang|cli-option-should-beat-language-override|{lang}", {"cfg": cfg, "cli": case["cli_value"], **runner.diff_multisets(want, got)}))
    else:
        _, w_lang, _, _ = run_with(files, L["cmd"], "yaml", "hyphen", full_cfg(name, section, {key: v_lang}))
        _, w_base, _, _ = run_with(files, L["cmd"], "yaml", "hyphen", full_cfg(name, section, {key: v_base}))
        want = Counter({k: n for k, n in w_lang.items() if k[1].endswith(ext)}) + Counter({k: n for k, n in w_base.items() if not k[1].endswith(ext)})
        if got != want:
            d = runner.diff_multisets(want, got)
            wrong_lang = any(k[1].endswith(ext) for k in d["only_left"] + d["only_right"])
            failures.append(Failure(f"{section}|lang|{lang}|{'override-not-applied' if wrong_lang else 'override-leaks-to-other-language'}", {"cfg": cfg, **d}))
    return Case(key=h(["lang", section, key, lang, v_lang, v_base, case.get("cli_value")]), nontrivial=v_lang != v_base, labels=labels, failures=failures)


def check_langmix(case) -> Case:
    """A per-language section that sets only SOME thresholds: files of that language follow the section for the keys
    it sets and the top-level values for the others; files of other languages follow the top-level values."""
    name, section = case["linter"], case["section"]
    L = LINTERS[name]
    files = L["files"]()
    lang, base, over = case["lang"], case["base"], case["over"]
    ext = seeds.EXT[lang]
    failures, labels = [], ["kind=langmix", f"section={section}", f"lang={lang}", "keys=" + "+".join(sorted(over))]
    cfg = full_cfg(name, section, {**base, LANG_KEY[lang]: over})
    e, got, err, _ = run_with(files, L["cmd"], case["carrier"], case["spelling"], cfg)
    if got is None:
        return Case(h(case), False, labels, [Failure(f"{section}|langmix|bad-exit-{e}", {"cfg": cfg, "stderr": err})])
    _, w_lang, _, _ = run_with(files, L["cmd"], "yaml", "hyphen", full_cfg(name, section, {**base, **over}))
    _, w_base, _, _ = run_with(files, L["cmd"], "yaml", "hyphen", full_cfg(name, section, base))
    want = Counter({k: n for k, n in w_lang.items() if k[1].endswith(ext)}) + Counter({k: n for k, n in w_base.items() if not k[1].endswith(ext)})
    if got != want:
        d = runner.diff_multisets(want, got)
        wrong_lang = any(k[1].endswith(ext) for k in d["only_left"] + d["only_right"])
        unset = sorted(set(base) - set(over))
        failures.append(Failure(f"{section}|langmix|{'language-files-misjudged' if wrong_lang else 'override-leaks-to-other-language'}|unset=" + "+".join(unset),
                                {"cfg": cfg, **d}))
    return Case(key=h(["langmix", section, lang, sorted(base.items()), sorted(over.items())]), nontrivial=w_lang != w_base, labels=labels, failures=failures)


def check_invalid(case) -> Case:
    name, section = case["linter"], case["section"]
    L = LINTERS[name]
    files = L["files"]()
    failures, labels = [], ["kind=invalid", f"section={section}", f"what={case['what']}"]
    with new_project(files) as p:
        opts = []
        if case["what"] == "value":
            cfg_args = install(p, case["carrier"], full_cfg(name, section, {case["key"]: case["value"]}), case["spelling"])
        elif case["what"] == "lang-value":  # the invalid value sits in a per-language sub-section
            cfg_args = install(p, case["carrier"], full_cfg(name, section, {case["lang_key"]: {case["key"]: case["value"]}}), case["spelling"])
        elif case["what"] == "cli-value":  # the invalid value comes from the command-line threshold option
            cfg_args = install(p, case["carrier"], full_cfg(name, section, {}), case["spelling"])
            opts = [L["cli"][case["key"]], str(case["value"])]
        else:
            broken = {"yaml": (".thailint.yaml", "nesting: [unclosed\n  x: {\n"), "json": (".thailint.json", '{"nesting": {"max_nesting_depth": 3,}'),
                      "pyproject": ("pyproject.toml", "[tool.thailint\nnesting = {\n"), "cfg-yaml": ("custom-config.yaml", "a: b: c: [\n"),
                      "cfg-json": ("custom-config.json", "{not json")}[case["carrier"]]
            p.write(*broken)
            cfg_args = ["--config", broken[0]] if case["carrier"].startswith("cfg-") else []
        r = runner.run_cli([L["cmd"], *cfg_args, "--format", "json", *opts, "."], cwd=p.root)
    if r.exit != 2:
        isval = case["what"] in ("value", "lang-value", "cli-value")
        what = f"{case['key']}={case['value']}" if isval else "unparsable"
        sec = section if isval else "*"
        via = {"value": case["carrier"], "lang-value": case["carrier"] + "+language-section", "cli-value": "cli-option"}.get(case["what"], case["carrier"])
        failures.append(Failure(f"{sec}|invalid|{via}|{what if isval else 'unparsable-file'}|exit-{r.exit}",
                                {"cmd": L["cmd"], "carrier": case["carrier"], "spelling": case["spelling"], "exit": r.exit, "stdout": r.stdout[:200], "stderr": r.stderr[-200:]}))
    return Case(key=h(["invalid", case]), nontrivial=True, labels=labels, failures=failures)


def check_ignore(case) -> Case:
    name = case["linter"]
    L = LINTERS[name]
    files = L["files"]()
    failures, labels = [], ["kind=ignore", f"cmd={L['cmd']}", f"carrier={case['carrier']}"]
    section = L["sections"][0]
    base = full_cfg(name, section, {})
    _, before, _, _ = run_with(files, L["cmd"], case["carrier"], "hyphen", base)
    targets = sorted({k[1] for k in before}) if before else []
    if not targets:
        return Case(h(case), False, labels + ["no-violations"], [])
    victim = targets[case["pick"] % len(targets)]
    pat = [victim, "src/" + os.path.basename(victim), "**/" + os.path.basename(victim)][case["form"] % 3]
    cfg = {**base, "ignore": [pat]}
    # the repository's .thailintignore next to the configuration's list: absent, naming nothing that exists, or naming a
    # second file - both sources are honoured together
    tig = case.get("tig", 0)
    gone = {victim}
    files2 = dict(files)
    if tig == 1:
        files2[".thailintignore"] = "docs/never_there/**\n"
    elif tig == 2 and L["cmd"] in ("dry", "stringly-typed"):
        tig = 1  # cross-file findings of the remaining files depend on how many files take part: one victim only
        files2[".thailintignore"] = "docs/never_there/**\n"
    elif tig == 2 and len(targets) > 1:
        second = targets[(case["pick"] + 1) % len(targets)]
        files2[".thailintignore"] = second + "\n"
        gone.add(second)
    labels.append(f"thailintignore={['absent', 'unrelated', 'second-file'][tig]}")
    e, after, err, _ = run_with(files2, L["cmd"], case["carrier"], "hyphen", cfg)
    if L["cmd"] in ("dry", "stringly-typed"):  # cross-file findings: the message names the counterpart files
        before = Counter({k[:3]: n for k, n in before.items()})
        after = None if after is None else Counter({k[:3]: n for k, n in after.items()})
    want = Counter({k: n for k, n in before.items() if k[1] not in gone})
    if after is None:
        failures.append(Failure(f"ignore|{case['carrier']}|bad-exit-{e}", {"cfg": cfg, "stderr": err}))
    elif after != want:
        kind = "not-honoured" if after == before else "differs"
        failures.append(Failure(f"ignore|{case['carrier']}|{['exact', 'exact', '**/name'][case['form'] % 3]}|{kind}" + ("|with-thailintignore" if tig else ""), {"cfg": cfg, "cmd": L["cmd"], **runner.diff_multisets(want, after)}))
    return Case(key=h(["ignore", name, case["carrier"], case["form"] % 3]), nontrivial=len(targets) > 1, labels=labels, failures=failures)


CHECKS = {"diff": check_diff, "sweep": check_sweep, "stack": check_stack, "lang": check_lang, "langmix": check_langmix, "invalid": check_invalid, "ignore": check_ignore}


def check(case) -> Case:
    return CHECKS[case["kind"]](case)


# ------------------------------------------------------------------------------------------ strategies / matrix


@st.composite
def bodies(draw, name):
    L = LINTERS[name]
    body = {}
    for key, values in L["knobs"]:
        if draw(st.booleans()):
            body[key] = draw(st.sampled_from(values))
    return body


@st.composite
def diff_cases(draw, name, section):
    return {"kind": "diff", "linter": name, "section": section, "body": draw(bodies(name))}


@st.composite
def stack_cases(draw):
    name = draw(st.sampled_from([n for n, L in LINTERS.items() if L["knobs"] and not isinstance(L["knobs"][0][1][0], list)]))
    L = LINTERS[name]
    key, values = draw(st.sampled_from(L["knobs"]))
    carriers = draw(st.lists(st.sampled_from(ORDER), min_size=2, max_size=3, unique=True))
    vals = {c: draw(st.sampled_from(values)) for c in carriers}
    cli_value = draw(st.sampled_from(values)) if key in L["cli"] and draw(st.booleans()) else None
    spelling = {c: draw(st.sampled_from(SPELLINGS)) for c in carriers}
    return {"kind": "stack", "linter": name, "section": L["sections"][0], "key": key, "values": vals, "cli_value": cli_value, "spelling": spelling}


@st.composite
def lang_cases(draw):
    name = draw(st.sampled_from([n for n, L in LINTERS.items() if L["lang_knob"]]))
    L = LINTERS[name]
    key = L["lang_knob"]
    values = dict(L["knobs"])[key]
    cli_value = draw(st.sampled_from(values)) if key in L["cli"] and draw(st.integers(0, 2)) == 0 else None
    return {"kind": "lang", "linter": name, "section": L["sections"][0], "key": key, "lang": draw(st.sampled_from(["py", "ts", "js", "rs"])),
            "v_lang": draw(st.sampled_from(values)), "v_base": draw(st.sampled_from(values)), "carrier": draw(st.sampled_from(CARRIERS)), "cli_value": cli_value}


LANGMIX = {"srp": ["max_methods", "max_loc"], "nesting": ["max_nesting_depth"], "magic-numbers": ["allowed_numbers"]}


@st.composite
def langmix_cases(draw):
    name = draw(st.sampled_from(sorted(LANGMIX)))
    L = LINTERS[name]
    knobs = dict(L["knobs"])
    keys = LANGMIX[name]
    base = {k: draw(st.sampled_from(knobs[k])) for k in keys}
    over_keys = draw(st.lists(st.sampled_from(keys), min_size=1, max_size=len(keys), unique=True))
    over = {k: draw(st.sampled_from(knobs[k])) for k in over_keys}
    return {"kind": "langmix", "linter": name, "section": L["sections"][0], "lang": draw(st.sampled_from(["py", "ts", "js", "rs"])), "base": base, "over": over,
            "carrier": draw(st.sampled_from(CARRIERS)), "spelling": "hyphen"}


def matrix_cells():
    cells = []
    for name, L in LINTERS.items():
        for section in L["sections"]:
            for key, _ in L["knobs"]:
                for carrier in CARRIERS:
                    for spelling in SPELLINGS:
                        if spelling == "underscore" and "-" not in section:
                            continue
                        cells.append({"kind": "sweep", "linter": name, "section": section, "key": key, "via": "config", "carrier": carrier, "spelling": spelling, "other": {}})
                if key in L["cli"] and section == L["sections"][0]:
                    for carrier in CARRIERS:
                        cells.append({"kind": "sweep", "linter": name, "section": section, "key": key, "via": "cli", "carrier": carrier, "spelling": "hyphen", "other": {}})
            for key, value in L["invalid"]:
                for carrier in CARRIERS:
                    for spelling in SPELLINGS:
                        if spelling == "underscore" and "-" not in section:
                            continue
                        cells.append({"kind": "invalid", "what": "value", "linter": name, "section": section, "key": key, "value": value, "carrier": carrier, "spelling": spelling})
            for key, value in L["invalid"]:
                if key in L["cli"] and section == L["sections"][0]:
                    cells.append({"kind": "invalid", "what": "cli-value", "linter": name, "section": section, "key": key, "value": value, "carrier": "yaml", "spelling": "hyphen"})
                if L.get("lang_knob") == key or key in LANGMIX.get(name, []):
                    for lang_key in ("python", "typescript"):
                        for carrier in CARRIERS:
                            cells.append({"kind": "invalid", "what": "lang-value", "linter": name, "section": section, "key": key, "value": value, "lang_key": lang_key,
                                          "carrier": carrier, "spelling": "hyphen"})
        if L.get("lang_knob"):
            # per-language override x every language x (no option | the command-line option, which must beat the override)
            key = L["lang_knob"]
            vals = dict(L["knobs"])[key]
            for lang in ("py", "ts", "js", "rs"):
                for v_lang, v_base, cli in ((vals[-1], vals[0], None), (vals[0], vals[-1], None)) + (((vals[-1], vals[0], vals[0]), (vals[0], vals[-1], vals[-1])) if key in L["cli"] else ()):
                    cells.append({"kind": "lang", "linter": name, "section": L["sections"][0], "key": key, "lang": lang, "v_lang": v_lang, "v_base": v_base,
                                  "carrier": CARRIERS[(len(cells)) % len(CARRIERS)], "cli_value": cli})
        for key in L.get("lang_knobs_extra", []):
            vals = dict(L["knobs"])[key]
            for lang in ("py", "ts"):
                cells.append({"kind": "lang", "linter": name, "section": L["sections"][0], "key": key, "lang": lang, "v_lang": vals[-1], "v_base": vals[0],
                              "carrier": "yaml", "cli_value": None})
        if name in LANGMIX:
            # a per-language section that sets a subset of the thresholds, for every language, both directions
            keys = LANGMIX[name]
            knobs = dict(L["knobs"])
            subsets = [[k] for k in keys] + ([keys] if len(keys) > 1 else [])
            for lang in ("py", "ts", "js", "rs"):
                for sub in subsets:
                    for lo, hi in ((0, -1), (-1, 0)):
                        cells.append({"kind": "langmix", "linter": name, "section": L["sections"][0], "lang": lang, "base": {k: knobs[k][lo] for k in keys},
                                      "over": {k: knobs[k][hi] for k in sub}, "carrier": CARRIERS[len(cells) % len(CARRIERS)], "spelling": "hyphen"})
        for carrier in CARRIERS:
            cells.append({"kind": "invalid", "what": "unparsable", "linter": name, "section": L["sections"][0], "carrier": carrier, "spelling": "hyphen"})
            for form in range(3):
                cells.append({"kind": "ignore", "linter": name, "carrier": carrier, "form": form, "pick": form, "tig": (form + 1) % 3})
    return cells


def run(ctx):
    cells = matrix_cells()
    if ctx.quick:
        # every invalid-value / language cell; half of the sweep / ignore cells, chosen by a hash of the cell and the seed over the
        # WHOLE matrix (a choice by position inside a shard kept or dropped all carrier x spelling variants of a knob together)
        cells = [c for i, c in enumerate(cells) if c["kind"] in ("invalid", "lang", "langmix") or (int(h(c)[:8], 16) + ctx.seed) % 2 == 0]
    mine = ctx.my_cells(cells)
    done = ctx.each(mine, check)
    ctx.stats.extra.setdefault("matrix", {})["sweep/invalid/ignore/language-override cells: section x knob x carrier x spelling"] = {"cells": len(mine), "done": done}
    pairs = [(n, s) for n, L in LINTERS.items() for s in L["sections"]]
    for i, (name, section) in enumerate(pairs):
        if i % ctx.nshards != ctx.shard:
            continue
        ctx.explore(diff_cases(name, section), check, max_examples=ctx.n(3, 25), salt=10 + i)
    ctx.explore(stack_cases(), check, max_examples=ctx.n(12, 150), salt=2)
    ctx.explore(lang_cases(), check, max_examples=ctx.n(6, 80), salt=3)
    ctx.explore(langmix_cases(), check, max_examples=ctx.n(12, 150), salt=4)


def replay(case) -> Case:
    return check(case)
