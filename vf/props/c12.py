"""C12 - every violation points at a real location of the construct it describes.

Generator: programs in py/ts/js/rs composed of planted constructs (vf/render/c12_programs.py) whose position is known
by construction, placed by transformations that move the construct without changing it: decorator / attribute /
doc-comment lines above headers, headers split over several lines, modifiers (async / export / pub), one more
indentation level (if-block / mod), function -> method of a host class / impl, arrow form; call and literal families
also inside multi-line calls, multi-line collection literals, multi-line chains and behind other code on the same
line; every call family in every layout of a call over physical lines (one argument per line with the closing parenthesis
on its own line, hanging arguments, continuation lines shorter than the call's column, call nested in an exploded outer
call, multi-line string argument; method calls: multi-line receiver, chain inside an outer call, `.method()` at column 0),
enumerated x top-level / if-block / method x last statement of the file or not; files with / without the documented header, leading blank lines, with / without a final newline (last construct
on the last line). DRY: sets of files with the same run of statements behind different amounts of leading comments,
docstrings and interleaved blank / comment lines.

Oracle (from the statement): for every reported violation that is not a syntax-error notice
  * file_path is a linted file, 1 <= line <= max(1, #lines), 0 <= column <= len(line);
  * nesting / srp / stateless-class: line is the def/function/fn/class/struct header line of the construct the message
    names (never a decorator / attribute line, never a continuation line) and the name occurs on it;
  * magic numbers: line is the literal's line and a numeric literal on that line equals the reported value;
  * print/console, unwrap/expect, clone, blocking: line is the line of a planted call of that family: the line on which
    the call expression starts or the line that holds the called name (`.unwrap()` of a chain) - never a line that holds
    only arguments or the closing parenthesis; a source excerpt quoted by the message is on the reported line;
  * duplicate code: line is a statement of the planted run, and it is the first line of the block: its text equals the
    text at the start of every `file:a-b` twin quoted in the message;
  * every rule: the planted identifiers inside the FIRST quoted item of the message occur on the reported line.
"""
from __future__ import annotations

import os
import re

from hypothesis import strategies as st

from vf import runner, seeds
from vf.engine import Case, Failure, h
from vf.project import Project
from vf.render import c12_programs as pr

ID = "C12"
TECHNIQUE = ("Hypothesis-generated programs with constructs at ground-truth positions (placement transformations over the seed library) vs. "
             "a positional oracle derived from the statement: range validity, header/literal/call line, quoted name on the reported line")
RULE = (
    "case = one file (py/ts/js/rs) of 1-4 planted constructs, each with drawn placement (decorators/attributes, multi-line header, modifier, "
    "if-block/mod wrapper, method of a host class/impl, arrow form, multi-line call / literal / chain, prefix code on the same line, layout of "
    "the call over physical lines), drawn "
    "header / leading blank lines / final newline, linted with the commands of the planted families plus drawn others; or a DRY set of 2-3 "
    "files with the same run behind different leading comments, docstrings and interleaved blank/comment lines; plus two enumerated "
    "matrices: duplicate-constant layouts, and call family x call layout (exploded / hanging / dedented continuation / nested in an outer call / "
    "multi-line string argument / multi-line receiver / chain) x wrapper x followed-by-code-or-end-of-file. Every reported violation is "
    "judged. Non-trivial: >= 1 reported violation belongs to a planted construct that is multi-line or sits at line > 1 with indentation > 0 "
    "or was moved by a placement transformation. Distinct = (language, set of (family, placement class)) of the reported planted constructs."
)
ASSUMPTIONS = [
    "lines that carry constructs are ASCII, so character and byte columns coincide",
    "the message's first quoted item is its subject; later quoted items (enclosing class, suggested name, follow-up line) are context and are not required on the reported line",
    "'the line of the call' of a call spread over several lines is the line on which the call expression starts or the line that holds the "
    "called name (the method of a chain); lines holding only arguments or the closing parenthesis are not (as continuation lines of a header are not)",
    "some rules report 0-based and some 1-based columns; 0 <= column <= len(line)+1 accepts both conventions (a 1-based column may sit just past the last character)",
    "columns are only range-checked (the statement asks for a non-negative column within the line); whether the column points into the construct is recorded as a label only",
    "numeric literals are decimal ints / floats (other spellings are C02's subject)",
    "in-process CLI equals a fresh process (cross-checked on the first cases of every run)",
]
BUDGET_S = {"quick": 150, "thorough": 1500}

LANGS = ("py", "ts", "js", "rs")
FAM_OF_RULE_PREFIX = {
    "nesting.": "nesting", "srp.": "srp", "magic-numbers.": "magic", "improper-logging.": "print", "print-statements.": "print",
    "method-property.": "methodprop", "stateless-class.": "stateless", "collection-pipeline.": "pipeline", "lbyl.": "lbyl",
    "lazy-ignores.": "lazy", "performance.string-concat": "concat", "performance.regex": "regex", "unwrap-abuse.": "unwrap",
    "clone-abuse.": "clone", "blocking-async.": "blocking", "dry.": "dry",
}
EXTRA_CMDS = {
    "py": ["nesting", "srp", "magic-numbers", "improper-logging", "method-property", "stateless-class", "pipeline", "lbyl", "lazy-ignores", "perf",
           "file-header", "stringly-typed"],
    "ts": ["nesting", "srp", "magic-numbers", "improper-logging", "lazy-ignores", "perf", "file-header", "stringly-typed"],
    "rs": ["nesting", "srp", "magic-numbers", "unwrap-abuse", "clone-abuse", "blocking-async"],
}
EXTRA_CMDS["js"] = EXTRA_CMDS["ts"]
NUM = re.compile(r"(?<![\w.])(\d[\d_]*(?:\.\d+)?(?:[eE][+-]?\d+)?)")
IDENT = re.compile(r"[A-Za-z_]\w*")


def fam_of(rule_id):
    for pre, fam in FAM_OF_RULE_PREFIX.items():
        if rule_id.startswith(pre):
            return fam
    return None


def is_notice(v):
    return v["rule_id"].endswith("syntax-error") or v["message"].startswith("Syntax error")


def line_class(text):
    s = text.strip()
    if not s:
        return "blank"
    if s.startswith(("@", "#[", "///", "/**", "*")):
        return "decorator-or-attribute"
    if s.startswith((")", "}", "]")):
        return "closing-line"
    if re.match(r"(export |default |pub(\(crate\))? |async )*(def|class|function|fn|struct|impl|mod|if|const)\b", s):
        return "other-header"
    return "other-code"


def has_word(line, word):
    return re.search(r"(?<!\w)" + re.escape(word) + r"(?!\w)", line) is not None


# ------------------------------------------------------------------------------------ check


CONST_AT = {}  # kind "consts": {file: {constant name: line of its declarator}} of the case being judged


def build(case):
    """-> files {name: text}, truths {name: [Truth]}, runs {name: (first, last, [lines])}, config"""
    lang = case["lang"]
    if case["kind"] == "dry":
        files, runs = pr.dry_files(lang, 301, case["nfiles"], case["n"], case["noise"])
        return files, {k: [] for k in files}, runs, {"dry": {"enabled": True}}
    if case["kind"] == "consts":
        files, at = pr.const_files(lang, 301, case["nfiles"], case["forms"], case["lead"])
        CONST_AT.clear()
        CONST_AT.update(at)
        return files, {k: [] for k in files}, {}, {"dry": {"enabled": True}}
    if case["kind"] == "stringly":
        files = {}
        for k, (name, text) in enumerate(seeds.stringly_set(lang, 301, case["nfiles"]).items()):
            lead = case["lead"][k % len(case["lead"])]
            files[name] = "".join(f"{seeds.COMMENT[lang]} note {i}\n" for i in range(lead)) + ("\n" if lead else "") + text
        return files, {k: [] for k in files}, {}, None
    units = [pr.build_unit(spec, lang, 101 + i) for i, spec in enumerate(case["units"])]
    text, truths = pr.compose(lang, units, case["header"], case["gap"], case["final_nl"])
    name = "mod" + seeds.EXT[lang]
    files = {name: text}
    if case.get("empty_sibling"):
        files["sub/empty" + seeds.EXT[lang]] = ["", "\n"][case["empty_sibling"] % 2]
    cfg = None
    if "file-placement" in case["cmds"]:  # file-level rule: only range-checked
        cfg = {"file-placement": {"global_patterns": {"deny": [{"pattern": r".*\.(py|ts|js|rs)$", "message": "generated files are denied here"}]}}}
    return files, {name: truths}, {}, cfg


def judge(v, files, truths, runs, lang, p_root):
    """-> (failures [(sig, info)], matched Truth | None, labels)"""
    rule = v["rule_id"]
    rel = runner.norm_path(v["file_path"], p_root, p_root)
    out, labels = [], []
    if rel not in files:
        return [(f"{lang}|{rule}|file-not-in-run", {"file": rel})], None, labels
    text = files[rel]
    lines = text.split("\n")
    if lines and lines[-1] == "":
        lines = lines[:-1]
    n = len(lines)
    L, C = v["line"], v["column"]
    if not isinstance(L, int) or not 1 <= L <= max(1, n):
        return [(f"{lang}|{rule}|line-out-of-range", {"lines_in_file": n})], None, labels
    src = lines[L - 1] if n else ""
    if not isinstance(C, int) or not 0 <= C <= len(src) + 1:  # 0- and 1-based column conventions both accepted
        out.append((f"{lang}|{rule}|column-out-of-range", {"line_text": src, "line_length": len(src)}))
    fam = fam_of(rule)
    msg = v["message"]
    quoted = re.findall(r"'([^']+)'", msg)
    matched = None
    mine = [t for t in truths.get(rel, []) if t.rule.split(".")[0] == rule.split(".")[0] and (t.fam == fam)]
    if fam in pr.HEADER_FAMS and quoted:
        cands = [t for t in mine if t.name == quoted[0]]
        if cands:
            matched = cands[0]
            if L != matched.rel:
                out.append((f"{lang}|{rule}|not-the-header-line|reported-{line_class(src)}",
                            {"expected_line": matched.rel, "placement": matched.place, "line_text": src, "header_text": lines[matched.rel - 1]}))
    elif fam == "magic":
        m = re.match(r"Magic number (\S+) should", msg)
        val = None
        if m:
            try:
                val = float(m.group(1))
            except ValueError:
                val = None
        if val is None:
            out.append((f"{lang}|{rule}|value-not-parsable", {"line_text": src}))
        else:
            cands = [t for t in mine if t.value is not None and abs(t.value - val) < 1e-9]
            if cands:
                matched = cands[0]
                if L != matched.rel:
                    out.append((f"{lang}|{rule}|not-the-literal-line|reported-{line_class(src)}",
                                {"expected_line": matched.rel, "placement": matched.place, "line_text": src, "literal_line_text": lines[matched.rel - 1]}))
            onl = []
            for tok in NUM.findall(src.split(" # ")[0]):
                try:
                    onl.append(float(tok.replace("_", "")))
                except ValueError:
                    pass
            if not any(abs(x - val) < 1e-9 for x in onl):
                out.append((f"{lang}|{rule}|value-not-on-line", {"line_text": src, "literals_on_line": onl}))
    elif fam in pr.CALL_FAMS and mine:
        inside = [t for t in mine if t.rel <= L <= t.last]
        if inside:
            matched = inside[0]
            heads = {matched.rel, matched.callee if matched.callee >= 0 else matched.rel}
            if L not in heads:
                # a line of the call that holds only arguments / the closing parenthesis is not "the line of the call"
                out.append((f"{lang}|{rule}|not-the-line-of-the-call|reported-{line_class(src)}",
                            {"call_starts_at": matched.rel, "called_name_at": sorted(heads)[-1], "call_ends_at": matched.last, "placement": matched.place,
                             "line_text": src, "call_line_text": lines[matched.rel - 1]}))
            else:
                m = re.search(r": (.+)$", msg)
                if lang == "rs" and m and m.group(1).strip().rstrip(";") not in src:
                    out.append((f"{lang}|{rule}|excerpt-not-on-line", {"line_text": src}))
        else:
            near = min(mine, key=lambda t: abs(t.rel - L))
            out.append((f"{lang}|{rule}|outside-call-span|reported-{line_class(src)}",
                        {"nearest_call_span": [near.rel, near.last], "placement": near.place, "line_text": src}))
    elif fam == "dry" and rel in runs:
        first, last, at = runs[rel]
        if L not in at:
            out.append((f"{lang}|{rule}|not-a-statement-of-the-run|reported-{line_class(src)}", {"run_statements_at": at, "line_text": src}))
        else:
            labels.append("dry=checked")
            for m in re.finditer(r"([\w./-]+\.(?:py|ts|js)):(\d+)-(\d+)", msg):
                other = os.path.basename(m.group(1))
                if other in files:
                    ol = files[other].split("\n")
                    a = int(m.group(2))
                    if not (1 <= a <= len(ol)) or ol[a - 1].strip() != src.strip():
                        out.append((f"{lang}|{rule}|not-first-line-of-block", {"line_text": src, "twin": m.group(0), "twin_line_text": ol[a - 1] if 1 <= a <= len(ol) else None}))
                        break
    elif fam == "dry" and rel in CONST_AT and quoted:
        # "Duplicate constant 'X' ..." / "Similar constants found: 'X' ~ 'Y' ...": at the declarator of a named constant,
        # and every "file:line" it refers to is the declarator of a named constant there
        names = [q for q in quoted if q in CONST_AT[rel]]
        if not names or L not in {CONST_AT[rel][q] for q in names}:
            out.append((f"{lang}|{rule}|constant|not-the-declarator-line|reported-{line_class(src)}", {"declarators": CONST_AT[rel], "line_text": src}))
        else:
            labels.append("dry=checked")
        for m in re.finditer(r"([\w./-]+\.(?:py|ts|js)):(\d+)", msg):
            other = os.path.basename(m.group(1))
            if other in CONST_AT and int(m.group(2)) not in CONST_AT[other].values():
                out.append((f"{lang}|{rule}|constant|reference-not-a-declarator-line", {"reference": m.group(0), "declarators": CONST_AT[other]}))
                break
    elif mine:
        at = [t for t in mine if t.rel == L]
        matched = at[0] if at else None  # families whose line the statement does not fix: only the generic clause applies
    # generic clause: planted identifiers of the first quoted item occur on the reported line
    if quoted:
        toks = [t for t in IDENT.findall(quoted[0]) if re.search(r"\d", t) and has_word(text, t)]
        miss = [t for t in toks if not has_word(src, t)]
        if miss and not any(s.split("|")[2].startswith(("not-the-header-line", "not-the-literal-line")) for s, _ in out):
            out.append((f"{lang}|{rule}|quoted-name-not-on-line", {"quoted": quoted[0], "missing": miss, "line_text": src}))
    if matched is not None:
        lead = len(src) - len(src.lstrip())
        labels.append("col=" + ("at-or-after-indent" if C >= lead else "before-indent") if lead else "col=line-unindented")
    return out, matched, labels


def check(case) -> Case:
    files, truths, runs, cfg = build(case)
    lang = case["lang"]
    failures, labels = [], [f"kind={case['kind']}", f"lang={lang}"]
    reported = set()
    nontrivial = False
    seen_truth = set()
    with Project(files, config=cfg) as p:
        for cmd in case["cmds"]:
            r = runner.run_cli([cmd, "--format", "json", "."], cwd=p.root)
            if r.exit not in (0, 1) or r.exception:
                failures.append(Failure(f"{lang}|anomaly|{cmd}", {"exit": r.exit, "exception": r.exception, "stderr": r.stderr[-300:], "files": files}))
                continue
            for v in r.violations:
                if is_notice(v):
                    labels.append("notice")
                    continue
                bad, t, labs = judge(v, files, truths, runs, lang, p.root)
                labels.extend(labs)
                for sig, info in bad:
                    failures.append(Failure(sig, {"command": cmd, "violation": {k: v[k] for k in ("rule_id", "file_path", "line", "column", "message")},
                                                  **info, "files": files}))
                if t is not None:
                    seen_truth.add(id(t))
                    reported.add((t.fam, t.place))
                    src = files[runner.norm_path(v["file_path"], p.root, p.root)].split("\n")[t.rel - 1]
                    if t.last > t.rel or t.place != "plain" or (t.rel > 1 and src[:1] in (" ", "\t")):
                        nontrivial = True
                elif fam_of(v["rule_id"]) == "dry" and "dry=checked" in labs:
                    reported.add(("dry", "noise"))
                    nontrivial = True
                elif case["kind"] == "stringly" and v["rule_id"].startswith("stringly-typed") and not bad:
                    reported.add(("stringly", v["rule_id"]))
                    nontrivial |= v["line"] > 1
    for ts in truths.values():
        for t in ts:
            labels.append(("reported=" if id(t) in seen_truth else "unreported=") + t.fam)
            if id(t) in seen_truth:
                labels.append("place=" + t.place)
    key = h([lang, sorted(reported)])
    return Case(key=key, nontrivial=nontrivial, labels=labels, failures=failures)


# ------------------------------------------------------------------------------------ strategies


@st.composite
def unit_spec(draw, lang):
    fam = draw(st.sampled_from(seeds.families(lang)))
    spec = {"fam": fam, "var": draw(st.integers(0, 9))}
    spec["form"] = draw(st.sampled_from(["seed", "variant", "variant"])) if pr.has_variant(fam, lang) else "seed"
    if pr.layouts(fam, lang) and draw(st.integers(0, 2)) == 0:
        spec["form"] = "layout"
        spec["layout"] = draw(st.integers(0, len(pr.layouts(fam, lang)) - 1))
        spec["tail"] = draw(st.booleans())
    spec["wrap"] = draw(st.sampled_from(["top", "top", "block", "method"]))
    spec["deco"] = draw(st.sampled_from([0, 0, 1, 2, 3]))
    spec["multisig"] = draw(st.booleans())
    spec["modifier"] = draw(st.sampled_from([False, False, True]))
    spec["arrow"] = draw(st.sampled_from([False, False, True])) if lang in ("ts", "js") else False
    return spec


@st.composite
def cases(draw):
    if draw(st.integers(0, 6)) == 0:
        lang = draw(st.sampled_from(("py", "ts", "js")))
        nfiles = draw(st.integers(2, 3))
        noise = [{"lead": draw(st.integers(0, 3)), "doc": draw(st.integers(0, 4)), "inside": draw(st.lists(st.integers(0, 27), max_size=3)),
                  "sep": draw(st.sampled_from([0, 0, 1, 2, 3, 4, 5, 6, 7, 8])), "blockc": draw(st.sampled_from([0, 0, 2, 3, 5]))}
                 for _ in range(nfiles)]
        return {"kind": "dry", "lang": lang, "nfiles": nfiles, "n": draw(st.integers(4, 7)), "noise": noise, "cmds": ["dry"]}
    if draw(st.integers(0, 11)) == 0:
        lang = draw(st.sampled_from(("py", "ts", "js")))
        nfiles = draw(st.integers(2, 3))
        return {"kind": "stringly", "lang": lang, "nfiles": nfiles, "lead": [draw(st.integers(0, 4)) for _ in range(nfiles)], "cmds": ["stringly-typed"]}
    lang = draw(st.sampled_from(LANGS))
    units = [draw(unit_spec(lang)) for _ in range(draw(st.integers(1, 4)))]
    cmds = []
    for s in units:
        c = seeds.FAMILY_CMD[s["fam"]]
        if c not in cmds:
            cmds.append(c)
    others = [c for c in EXTRA_CMDS[lang] if c not in cmds]
    cmds += list(draw(st.permutations(others))[: draw(st.integers(0, 2))])
    if draw(st.integers(0, 4)) == 0:
        cmds.append("file-placement")
    empty = draw(st.sampled_from([0, 0, 0, 1, 2]))
    return {"kind": "single", "empty_sibling": empty, "lang": lang, "units": units, "header": draw(st.booleans()), "gap": draw(st.integers(1, 3)),
            "final_nl": draw(st.sampled_from([True, True, False])), "cmds": cmds}


def const_cells():
    """DRY's duplicate-constant findings: language x declaration layout of each of two files x leading comment lines."""
    return [{"kind": "consts", "lang": lang, "nfiles": 2, "forms": [f0, f1], "lead": lead, "cmds": ["dry"]}
            for lang in ("py", "ts", "js") for f0 in range(4) for f1 in range(4) for lead in ([0, 2], [3, 0])]


def layout_cells():
    """Every call family x every layout of the call over physical lines x wrapper x (code follows, final newline | call is the
    last statement of a file without final newline)."""
    cells = []
    for lang in LANGS:
        for fam in pr.CALL_FAMS:
            for k in range(len(pr.layouts(fam, lang))):
                for wrap in ("top", "block", "method"):
                    for tail in (True, False):
                        spec = {"fam": fam, "var": 0, "form": "layout", "layout": k, "tail": tail, "wrap": wrap, "deco": 0, "multisig": False,
                                "modifier": False, "arrow": False}
                        cells.append({"kind": "single", "empty_sibling": 0, "lang": lang, "units": [spec], "header": False, "gap": 1 if tail else 2,
                                      "final_nl": tail, "cmds": [seeds.FAMILY_CMD[fam]]})
    return cells


def run(ctx):
    mine = ctx.my_cells(const_cells())
    done = ctx.each(mine, check)
    ctx.stats.extra.setdefault("matrix", {})["duplicate constants: language x declaration layout x layout x leading lines"] = {"cells": len(mine), "done": done}
    mine = ctx.my_cells(layout_cells())
    done = ctx.each(mine, check)
    ctx.stats.extra["matrix"]["calls: language x family x layout over physical lines x wrapper x tail"] = {"cells": len(mine), "done": done}
    ctx.explore(cases(), check, max_examples=ctx.n(220, 3000))


def replay(case) -> Case:
    return check(case)
