"""C11 thorough tier: coverage-guided fuzzing (atheris / libFuzzer) with the C11 oracle inside the target.

usage: python -m vf.props.c11_fuzz <seed> <budget_s> <out.json> <seeded|empty>

The target decodes the fuzzer's bytes into (extension, file content), writes the file between the healthy
siblings of a re-used scratch project, runs ALL rules once through a fresh Orchestrator and applies the
oracle: no escaping exception, empty swallowed-failure tap (RecursionError excepted - known finding),
siblings' findings unchanged. Failing inputs are recorded (not raised) so that the campaign continues behind
them; the parent re-judges every recorded input with the ordinary check, so the saved input is the
reproducible unit. libFuzzer ends the process with _exit, hence results are flushed to <out.json> as it goes.
"""
from __future__ import annotations

import json
import os
import sys
import tempfile
import time


def main():
    seed, budget, out, corpus_mode = int(sys.argv[1]), int(sys.argv[2]), sys.argv[3], sys.argv[4]
    import atheris

    with atheris.instrument_imports(include=["src"]):
        from vf import runner

        runner.init()
        from vf.props import c11
    from vf.project import Project

    proj = Project(c11.sibling_files(), config=c11.CONFIG)
    base = c11.baseline()
    state = {"n": 0, "findings": [], "t0": time.time(), "sigs": set()}

    def flush():
        with open(out + ".tmp", "w") as fh:
            json.dump({"executions": state["n"], "findings": state["findings"], "corpus_mode": corpus_mode, "seconds": round(time.time() - state["t0"], 1)}, fh)
        os.replace(out + ".tmp", out)

    exts = c11.EXTS

    def target(data: bytes):
        if len(data) < 2:
            return
        ext = exts[data[0] % len(exts)]
        body = data[1:]
        state["n"] += 1
        rel = "offender" + ext  # in the project root: analysed before the siblings in pkg/
        proj.write(rel, body)
        try:
            vs, sw, exc = c11.lib_run(proj.root)
            sig = None
            if exc:
                sig = "escaped|" + exc.split(":")[0]
            else:
                for rec in sw:
                    if rec["exc_type"] != "RecursionError":
                        sig = "swallowed|" + c11.sw_sig(rec)
                if sig is None and c11.sib_ms(vs, proj.root) != base:
                    sig = "siblings-changed"
            if sig and sig not in state["sigs"] and len(state["findings"]) < 25:
                state["sigs"].add(sig)
                state["findings"].append({"kind": "raw", "hex": body.hex(), "ext": ext, "rot": 0, "all_cmds": True})
                flush()
        finally:
            try:
                os.unlink(proj.path(rel))
            except OSError:
                pass
        if state["n"] % 200 == 0:
            flush()

    corpus = tempfile.mkdtemp(prefix="c11-corpus-", dir=runner.neutral_dir())
    if corpus_mode == "seeded":
        i = 0
        for lang, ext in (("py", ".py"), ("ts", ".ts"), ("js", ".js"), ("rs", ".rs")):
            for u in range(3):
                text = c11.base_text(lang, [u, u + 3, u + 7], u).encode()
                with open(os.path.join(corpus, f"seed{i}"), "wb") as fh:
                    fh.write(bytes([exts.index(ext)]) + text[:3500])
                i += 1
    flush()
    argv = [sys.argv[0], corpus, f"-max_total_time={budget}", f"-seed={seed or 1}", "-max_len=4096", "-rss_limit_mb=6000", "-timeout=120", "-verbosity=0", "-print_final_stats=0"]
    atheris.Setup(argv, target)
    atheris.Fuzz()


if __name__ == "__main__":
    main()
