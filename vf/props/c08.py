"""C08 - results depend only on current file contents and config, not order or history.

  order    (real subprocesses) permutation of explicit file arguments x PYTHONHASHSEED x repetition, and
           directory targets over a copy of the project whose files were created in another order:
           multiset of violations == canonical run (sorted arguments, hash seed 0).
  history  one long-lived Linter + one long-lived Orchestrator; generated histories of
           write / edit / delete / lint-file / lint-dir / lint-files steps; after every lint step
           the result must equal what a FRESH object returns for the same call on the same disk state.
  constants  (in-process) DRY's duplicate-constant evidence: module-level ALL_CAPS constants whose names are related
           exactly / by word order / by 1 or 2 edits / not at all (antonyms, single words, >2 edits), so that the
           "similar" relation forms cliques, non-transitive chains, stars and islands; one name per file (matrix: every
           3-name graph, all 6 file orders) or several per file (drawn 4-5 name trees, drawn orders); Python, TypeScript
           and mixed projects; min_constant_occurrences 2 and 3.  Orchestrator.lint_files(order), `thailint dry <order>`,
           a long-lived Orchestrator that sees every order in turn, and lint_directory over a copy created in another
           order must all return the multiset of the canonical (sorted) order.
  effects  every linter command, sequential and --parallel, DRY storage modes and cache options:
           snapshot (type, size, mtime, sha256) of the project tree and a private TMPDIR before/after.
"""
from __future__ import annotations

import os
import re
import shutil
import tempfile
from collections import Counter
from pathlib import Path

from hypothesis import strategies as st

from vf import project as vproject
from vf import runner, seeds
from vf.engine import Case, Failure, h
from vf.project import Project

ID = "C08"
TECHNIQUE = "Exhaustive file-order permutations over an enumerated matrix of constant-name relation graphs (in-process); Hypothesis-generated call histories on one long-lived Linter/Orchestrator checked step by step against a fresh object (model-based, stateful); argument permutations x PYTHONHASHSEED in real subprocesses; file-system snapshot differential for side effects"
RULE = (
    "order: project with per-file and cross-file findings, drawn permutation of file arguments, hash seed, repetition; non-trivial = "
    "permutation != identity and >=1 cross-file violation. history: 3-12 steps over a pool of 6 paths x 3 content variants; non-trivial = "
    ">=2 lint steps with an edit or delete of a file that contributed a violation in between and a cross-file rule involved. constants: "
    "name-relation graph (derivation tree parent x op in same/swap/add1/add2/sub1/sub2/anto/far) x base (1, 2, 3 words) x language layout x "
    "occurrence threshold, every / drawn file orders; non-trivial = >=2 duplicate-constant violations in the canonical order and >=2 orders. effects: "
    "command x mode matrix; non-trivial = the run reported >=1 violation. Distinct by step-kind sequence / permutation class / matrix cell."
)
ASSUMPTIONS = [
    "history compares against a fresh object on the same disk state (the statement's own oracle), never against a hand model",
    "configuration is fixed at construction of the long-lived objects, as documented",
    "effects: the project directory and a private TMPDIR/TEMP/TMP are the observed locations",
    "constants: which names thai-lint groups is NOT prescribed (docs leave transitivity open) - only that the answer is the same for every file order",
    "constants: the order of the locations inside a duplicate-constant message's 'Also found in: ...' list follows the lint order on the unchanged tree "
    "(recorded deviation, const_msg); the list is compared as a set, everything else in the message literally",
]
BUDGET_S = {"quick": 210, "thorough": 1500}

# per-language overrides: a verdict must depend on the file's own language, never on which language the object saw first
CONFIG = {"dry": {"enabled": True, "min_duplicate_lines": 3},
          "nesting": {"max_nesting_depth": 5, "python": {"max_nesting_depth": 1}, "typescript": {"max_nesting_depth": 2}},
          "srp": {"max_methods": 9, "python": {"max_methods": 7}, "typescript": {"max_methods": 8}},
          "magic-numbers": {"allowed_numbers": [0, 1, 2], "python": {"allowed_numbers": [0, 1, 2, 41]}, "typescript": {"allowed_numbers": [0, 1, 2, 43]}}}
PATHS = ["a.py", "b.py", "c.py", "pkg/d.py", "e.ts", "pkg/f.ts", "tool"]  # tool: an extension-less script, what it is depends on its first line
CROSS = ("dry.", "stringly-typed.")


def content(path, variant):
    """Variant 0..2 of a file: different per-file findings; variants 0 and 1 carry the shared duplicate block
    and string set (so edits to variant 2 / deletions remove a cross-file partner)."""
    if path == "tool":
        # variant 1 is a shell script (no source language), variants 0 and 2 are Python scripts with different findings
        if variant % 3 == 1:
            return "#!/bin/sh\necho tool\n"
        body = content("a.py", variant)
        return "#!/usr/bin/env python3\n" + body.replace("_0_", "_6_")
    lang = "py" if path.endswith(".py") else "ts"
    idx = PATHS.index(path)
    fams = [f for f in seeds.families(lang) if f != "lazy"]
    parts = [seeds.filler(lang, 800 + idx)]
    for j in range(2):
        fam = fams[(idx * 2 + variant * 3 + j) % len(fams)]
        parts.append(seeds.seed(fam, lang, 300 + idx * 10 + variant * 3 + j, variant))
    text, _, _ = seeds.compose(lang, parts, header=False, gap=1)
    extra = []
    tag = f"{idx}_{variant}"
    if variant in (0, 1):
        blk = seeds.dry_block(lang, 66, 4)
        if lang == "py":
            extra += ["", f"def host_66_{tag}(src_66):", f"    first_66_{tag} = begin_66_{tag}(src_66)"] + blk + [f"    return finish_66_{tag}(first_66_{tag})"]
        else:
            extra += ["", f"function host_66_{tag}(src_66) {{", f"    const first_66_{tag} = begin_66_{tag}(src_66);"] + blk + [f"    return finish_66_{tag}(first_66_{tag});", "}"]
    if variant in (0, 2):
        if lang == "py":
            extra += ["", f"def gate_67_{tag}(env_67):", '    if env_67 in ("stage67", "prod67", "dev67"):', f"        return go_67_{tag}(env_67)", "    return None"]
        else:
            extra += ["", f"function gate_67_{tag}(env_67) {{", '    if (env_67 === "stage67") {', f"        return go_67_{tag}(env_67);", '    } else if (env_67 === "prod67") {',
                      f"        return stop_67_{tag}(env_67);", "    }", "    return null;", "}"]
    # constructs that sit between the per-language limits of CONFIG (flagged under one language's settings only)
    if lang == "py":
        extra += ["", f"def mid_{tag}(a):", "    if a:", "        for i in a:", f"            use_mid_{tag}(i, 41, 43)"]
    else:
        extra += ["", f"function mid_{tag}(a) {{", "    if (a) {", "        for (const i of a) {", f"            useMid_{tag}(i, 41, 43);", "        }", "    }", "}"]
    # identical local names in many files, bound to different kinds of values: per-file analysis state that is keyed by
    # identifier names (and not reset) would make one file's verdict depend on which files were seen before it
    if lang == "py":
        if (idx + variant) % 2 == 0:
            extra += ["", f"def collect_shared_{tag}(items):", "    result = []", "    total = 0", "    for it in items:", "        result.append(it)", "    return result"]
        else:
            extra += ["", f"def render_shared_{tag}(items):", '    result = ""', "    for it in items:", "        result += str(it)", "    return result"]
    else:
        if (idx + variant) % 2 == 0:
            extra += ["", f"function collectShared_{tag}(items) {{", "    const result = [];", "    for (const it of items) {", "        result.push(it);", "    }", "    return result;", "}"]
        else:
            extra += ["", f"function renderShared_{tag}(items) {{", '    let result = "";', "    for (const it of items) {", "        result += it;", "    }", "    return result;", "}"]
    # the file-level suppression differs between the variants (none / one linter / another linter): an edit may add, drop
    # or change the `ignore-file` header, and a later lint call must judge the file by the header it has NOW
    c = "#" if lang == "py" else "//"
    head = {0: "", 1: f"{c} thailint: ignore-file[magic-numbers]\n", 2: f"{c} thailint: ignore-file[nesting]\n"}[variant % 3] if idx % 2 == 0 else ""
    return head + text + ("\n".join(extra) + "\n" if extra else "")


def ms(vs, root):
    return Counter((v["rule_id"], runner.norm_path(v["file_path"], root, root), v["line"], v["column"],
                    v["message"].replace(os.path.realpath(root) + "/", "").replace(root + "/", "")) for v in vs)


# ----------------------------------------------------------------------------------- history


def lint_call(obj, kind, root, arg):
    """Perform one lint call on a Linter (kind l-*) or an Orchestrator (kind o-*) -> list of dicts."""
    if kind == "l-file":
        return [runner.vdict(v) for v in obj.lint(os.path.join(root, arg))]
    if kind == "l-dir":
        return [runner.vdict(v) for v in obj.lint(root if arg is None else os.path.join(root, arg))]
    if kind == "o-file":
        return [runner.vdict(v) for v in obj.lint_file(Path(root) / arg)]
    if kind == "o-files":
        return [runner.vdict(v) for v in obj.lint_files([Path(root) / a for a in arg])]
    if kind == "o-dir":
        return [runner.vdict(v) for v in obj.lint_directory(Path(root))]
    raise ValueError(kind)


_SUB = """
import json, os, sys
from pathlib import Path
sys.path.insert(0, {repo!r})
kind, root, arg = json.loads(sys.argv[1])
def d(v):
    return {{"rule_id": v.rule_id, "file_path": str(v.file_path), "line": v.line, "column": v.column, "message": v.message}}
if kind.startswith("l-"):
    from src.api import Linter
    obj = Linter(config_file=None, project_root=root)
    out = obj.lint(os.path.join(root, arg) if arg else root)
else:
    from src.orchestrator.core import Orchestrator
    obj = Orchestrator(project_root=Path(root))
    out = obj.lint_file(Path(root) / arg) if kind == "o-file" else (obj.lint_files([Path(root) / a for a in arg]) if kind == "o-files" else obj.lint_directory(Path(root)))
print(json.dumps([d(v) for v in out]))
"""


def lint_in_subprocess(kind, root, arg):
    import json
    import subprocess

    code = _SUB.format(repo=runner.REPO)
    r = subprocess.run([runner.PYTHON, "-c", code, json.dumps([kind, root, arg])], capture_output=True, text=True, timeout=300, cwd=root, env=runner.sub_env())
    if r.returncode != 0:
        raise runner.HarnessError(f"C08 subprocess reference failed: {r.stderr[-600:]}")
    return json.loads(r.stdout.strip().splitlines()[-1])


def classify(diff_only_used, diff_only_fresh):
    """Signature for a used-vs-fresh difference."""
    rules = sorted({k[0].split(".")[0] for k in list(diff_only_used) + list(diff_only_fresh)})
    side = "stale-extra" if diff_only_used and not diff_only_fresh else ("missing" if diff_only_fresh and not diff_only_used else "differs")
    return "+".join(rules), side


def check_history(case) -> Case:
    failures, labels = [], ["kind=history"]
    steps = case["steps"]
    state = dict(case["initial"])  # path -> variant
    with Project({p: content(p, v) for p, v in state.items()}, config=CONFIG) as proj:
        root = proj.root
        linter = runner.fresh_linter(root)
        orch = runner.fresh_orchestrator(root)
        lint_steps = 0
        mutated_since_lint = False
        interesting = False
        contributed = set()
        seq = []
        touched_tool = any(st_.get("path") == "tool" for st_ in steps if st_["op"] in ("write", "edit", "delete"))
        last_lint = max([i for i, st_ in enumerate(steps) if st_["op"] not in ("write", "edit", "delete")] + [-1])
        for i, st_ in enumerate(steps):
            op = st_["op"]
            seq.append(op)
            if op in ("write", "edit"):
                path = st_["path"]
                if op == "edit" and path not in state:
                    continue
                variant = st_["variant"] if path not in state or st_["variant"] != state[path] else (state[path] + 1) % 3
                proj.write(path, content(path, variant))
                if path in contributed and lint_steps:
                    mutated_since_lint = True
                state[path] = variant
                continue
            if op == "delete":
                path = st_["path"]
                if path not in state or len(state) <= 1:
                    continue
                proj.remove(path)
                if path in contributed and lint_steps:
                    mutated_since_lint = True
                del state[path]
                continue
            # lint steps
            kind = op
            if kind in ("l-file", "o-file"):
                arg = st_["path"] if st_["path"] in state else sorted(state)[0]
            elif kind == "o-files":
                arg = [p for p in st_["paths"] if p in state] or sorted(state)[:1]
            else:
                arg = None
            used_obj = linter if kind.startswith("l-") else orch
            with runner.capture_swallowed() as sw_used:
                got = lint_call(used_obj, kind, root, arg)
            fresh_obj = runner.fresh_linter(root) if kind.startswith("l-") else runner.fresh_orchestrator(root)
            with runner.capture_swallowed() as sw_fresh:
                want = lint_call(fresh_obj, kind, root, arg)
            a, b = ms(got, root), ms(want, root)
            lint_steps += 1
            if a == b and i == last_lint and (touched_tool or int(h(case)[:4], 16) % 3 == 0):
                # module-level caches survive a "fresh" object of the same process: the last call of every history is also
                # compared with the same call made in a new interpreter
                c = ms(lint_in_subprocess(kind, root, arg), root)
                if c != a:
                    only_used, only_new = list((a - c).elements()), list((c - a).elements())
                    rules, side = classify(only_used, only_new)
                    failures.append(Failure(f"history|{kind}|{rules}|{side}|vs-new-process", {"step": i, "call": [kind, arg], "only_in_this_process": only_used[:4],
                                                                                            "only_in_new_process": only_new[:4], "steps_so_far": steps[: i + 1], "initial": case["initial"]}))
                    break
            if mutated_since_lint and lint_steps >= 2 and any(k[0].startswith(CROSS) for k in (a + b)):
                interesting = True
            for k in b:
                contributed.add(k[1])
            if sw_used and not sw_fresh:
                failures.append(Failure(f"history|{kind}|swallowed-failure-on-used-object", {"step": i, "swallowed": sw_used[:2], "steps": steps[: i + 1]}))
            if a != b:
                only_used, only_fresh = list((a - b).elements()), list((b - a).elements())
                rules, side = classify(only_used, only_fresh)
                failures.append(Failure(f"history|{kind}|{rules}|{side}", {"step": i, "call": [kind, arg], "only_on_used_object": only_used[:4],
                                                                          "only_on_fresh_object": only_fresh[:4], "steps_so_far": steps[: i + 1], "initial": case["initial"]}))
                break  # later steps are judged against a state we no longer understand
        labels.append(f"lints={min(lint_steps, 6)}")
        if interesting:
            labels.append("edit-or-delete-between-lints+cross-file")
    return Case(key=h(["history", [s["op"] for s in steps], sorted(case["initial"].items())]), nontrivial=interesting, labels=labels, failures=failures)


@st.composite
def histories(draw):
    n0 = draw(st.integers(2, 5))
    paths0 = draw(st.permutations(PATHS))[:n0]
    initial = {p: draw(st.integers(0, 1)) for p in paths0}
    steps = []
    k = draw(st.integers(3, 12))
    for _ in range(k):
        op = draw(st.sampled_from(["write", "edit", "edit", "delete", "l-file", "l-dir", "l-dir", "o-file", "o-files", "o-files", "o-dir"]))
        s = {"op": op}
        if op in ("write", "edit", "delete", "l-file", "o-file"):
            s["path"] = draw(st.sampled_from(PATHS))
        if op in ("write", "edit"):
            s["variant"] = draw(st.integers(0, 2))
        if op == "o-files":
            s["paths"] = draw(st.lists(st.sampled_from(PATHS), min_size=1, max_size=5, unique=True))
        steps.append(s)
    return {"kind": "history", "initial": initial, "steps": steps}


# ----------------------------------------------------------------------------------- order / hash seed


def check_order(case) -> Case:
    failures, labels = [], ["kind=order", f"cmd={case['cmd']}"]
    files = {p: content(p, v) for p, v in case["files"].items()}
    names = sorted(files)
    perm = [names[i % len(names)] for i in case["perm"] if i < len(names)]
    perm += [n for n in names if n not in perm]
    with Project(files, config=CONFIG) as proj:
        cmd = case["cmd"]
        canon = runner.run_cli_sub([cmd, "--format", "json", *names], cwd=proj.root, env={"PYTHONHASHSEED": "0"})
        if canon.exit not in (0, 1):
            return Case(h(case), False, labels, [Failure(f"order|{cmd}|bad-exit", {"exit": canon.exit, "stderr": canon.stderr[-300:]})])
        base = ms(canon.violations, proj.root)
        runs = [("perm", [cmd, "--format", "json", *perm], proj.root, str(case["hashseed"]))]
        for r in range(case["reps"]):
            runs.append((f"rep{r}", [cmd, "--format", "json", *names], proj.root, "0"))
        # directory target; and the same project re-created in another order (discovery order differs)
        dcanon = runner.run_cli_sub([cmd, "--format", "json", "."], cwd=proj.root, env={"PYTHONHASHSEED": "0"})
        with Project({n: files[n] for n in perm}, config=CONFIG) as proj2:
            d2 = runner.run_cli_sub([cmd, "--format", "json", "."], cwd=proj2.root, env={"PYTHONHASHSEED": str(case["hashseed"])})
            if dcanon.exit in (0, 1) and d2.exit in (0, 1):
                if ms(dcanon.violations, proj.root) != ms(d2.violations, proj2.root):
                    diff = runner.diff_multisets(ms(dcanon.violations, proj.root), ms(d2.violations, proj2.root))
                    rules = "+".join(sorted({k[0].split(".")[0] for k in diff["only_left"] + diff["only_right"]}))
                    failures.append(Failure(f"order|dir-creation-order|{rules}", {"cmd": cmd, **diff, "creation_order": perm, "hashseed": case["hashseed"]}))
            else:
                failures.append(Failure(f"order|{cmd}|bad-exit", {"exit": [dcanon.exit, d2.exit]}))
        for name, args, cwd, hs in runs:
            r = runner.run_cli_sub(args, cwd=cwd, env={"PYTHONHASHSEED": hs})
            got = ms(r.violations, proj.root) if r.exit in (0, 1) else None
            if got != base or r.exit != canon.exit:
                diff = runner.diff_multisets(base, got or Counter())
                rules = "+".join(sorted({k[0].split(".")[0] for k in diff["only_left"] + diff["only_right"]}))
                what = "argument-order" if name == "perm" and case["hashseed"] == 0 else ("argument-order-or-hashseed" if name == "perm" else "repetition")
                failures.append(Failure(f"order|{what}|{rules}", {"cmd": cmd, "args": args[3:], "hashseed": hs, "exit": [canon.exit, r.exit], **diff}))
        cross = any(k[0].startswith(CROSS) for k in base)
        nontrivial = perm != names and (cross or cmd not in ("dry", "stringly-typed")) and bool(base)
        if cross:
            labels.append("cross-file")
    return Case(key=h(["order", case["cmd"], case["perm"], case["hashseed"] % 4, sorted(case["files"].items())]), nontrivial=nontrivial, labels=labels, failures=failures)


ORDER_CMDS = ["dry", "stringly-typed", "dry", "stringly-typed", "magic-numbers", "nesting", "srp", "perf", "perf", "string-concat-loop", "improper-logging", "method-property", "stateless-class", "lbyl"]


@st.composite
def orders(draw):
    n = draw(st.integers(3, 6))
    paths = draw(st.permutations(PATHS))[:n]
    files = {p: draw(st.integers(0, 2)) for p in paths}
    return {"kind": "order", "cmd": draw(st.sampled_from(ORDER_CMDS)), "files": files, "perm": list(draw(st.permutations(list(range(n))))),
            "hashseed": draw(st.integers(0, 1000)), "reps": draw(st.integers(1, 2))}


# ----------------------------------------------------------------------------------- related constants (DRY's third kind of cross-file evidence)

# The DRY rule also groups module-level ALL_CAPS constants across files (on by default, docs/dry-linter.md "Duplicate
# Constants Detection"): same name, same words in another order, or Levenshtein distance <= 2.  "Similar" is not transitive,
# so a set of names is a GRAPH (clique, chain, star, separate islands, near-but-excluded antonyms / single words), and the
# groups reported for it must not depend on the order in which the files - and so the names - reach the rule.
CONST_BASES = ["MAX_TIMEOUT", "HTTP_POOL_SIZE", "LIMIT"]  # two words (with an antonym word), three words, one word (exact matching only)
CONST_OPS = ["same", "swap", "add1", "add2", "sub1", "sub2", "anto", "far"]
CONST_FILES = ["client", "server", "worker", "agent", "batch"]
_ANTO = {"MAX": "MIN", "MIN": "MAX"}


def _shift(ch, k):
    return chr((ord(ch) - 65 + k) % 26 + 65) if ch.isalpha() else ch


def derive(name, op, i):
    """Name number i derived from an earlier name: how far apart the two are is the op (0 / word order / 1 / 2 / >2 edits)."""
    words = name.split("_")
    if op == "same":
        return name
    if op == "swap":
        return "_".join(reversed(words))
    if op == "add1":
        return name + "S"
    if op == "add2":
        return name + "_" + "XYZQ"[i % 4]
    if op == "sub1":
        w = words[-1]
        k = i % len(w)
        return "_".join(words[:-1] + [w[:k] + _shift(w[k], 1 + i) + w[k + 1:]])
    if op == "sub2":
        w = words[-1]
        return "_".join(words[:-1] + [w[:-2] + _shift(w[-2], 2 + i) + _shift(w[-1], 3 + i)]) if len(w) >= 2 else name + "QQ"
    if op == "anto" and any(w in _ANTO for w in words):
        return "_".join(_ANTO.get(w, w) for w in words)
    return words[0] + "_" + ["RETRIES", "BUDGET", "WINDOW", "QUOTA"][i % 4]  # far (also: anto without an antonym word)


def const_names(case):
    names = [case["base"]]
    for i, (parent, op) in enumerate(case["nodes"], start=1):
        names.append(derive(names[parent % len(names)], op, i))
    return names


def const_files(case):
    """name k lives in file assign[k]; a file's language is langs[file]; a name is declared once per file."""
    names = const_names(case)
    per_file = {}
    for k, name in enumerate(names):
        f = case["assign"][k] % len(CONST_FILES)
        per_file.setdefault(f, [])
        if name not in [n for n, _ in per_file[f]]:
            per_file[f].append((name, 30 + k))
    files = {}
    for f, decls in sorted(per_file.items()):
        stem = CONST_FILES[f]
        if case["langs"][f % len(case["langs"])] == "py":
            body = [f"{n} = {v}" for n, v in decls] + ["", "", f"def {stem}_value(scale):", f"    return scale * {decls[0][0]}"]
            files[f"{stem}.py"] = "\n".join(body) + "\n"
        else:
            body = [f"export const {n} = {v};" for n, v in decls] + ["", f"export function {stem}Value(scale: number): number {{", f"    return scale * {decls[0][0]};", "}"]
            files[f"{stem}.ts"] = "\n".join(body) + "\n"
    return files


_ALSO = re.compile(r"Also found in: (.*?)\.(?= (?:Consider|These) )")


def const_msg(message):
    """Messages are compared literally.  (The 'Also found in: a, b' list of a duplicate-constant message used to name the other
    locations in lint order - found by this sub-check and repaired in /repo; see known_findings.json 'fixed: property=C08'.)"""
    return message


def cms(vs, root):
    return Counter((k[0], k[1], k[2], k[3], const_msg(k[4])) for k in ms(vs, root).elements())


def is_const_violation(k):
    return k[0].startswith("dry.") and k[4].startswith(("Duplicate constant", "Similar constants found"))


def check_constants(case) -> Case:
    import itertools

    failures, labels = [], ["kind=constants", f"base-words={len(case['base'].split('_'))}", f"names={len(case['nodes']) + 1}"]
    files = const_files(case)
    fnames = sorted(files)
    cfg = {"dry": {"enabled": True, "min_duplicate_lines": 3, "min_constant_occurrences": case["min_occ"]}}
    if case["perms"] == "all":
        perms = [list(p) for p in itertools.permutations(fnames)]
    else:
        perms = []
        for p in case["perms"]:
            q = [fnames[i % len(fnames)] for i in p if i < len(fnames)]
            q = list(dict.fromkeys(q))
            perms.append(q + [n for n in fnames if n not in q])
    seen_fail = set()

    def report(entry, perm, base, got):
        only_c, only_p = list((base - got).elements()), list((got - base).elements())
        rules, side = classify(only_p, only_c)
        sig = f"constants|{entry}|{rules}|{side}"
        if sig not in seen_fail:
            seen_fail.add(sig)
            failures.append(Failure(sig, {"names": const_names(case), "files": files, "config": cfg, "canonical_order": fnames, "order": perm,
                                          "only_in_canonical_order": only_c[:4], "only_in_this_order": only_p[:4]}))

    with Project(files, config=cfg) as proj:
        root = proj.root
        base = cms(lint_call(runner.fresh_orchestrator(root), "o-files", root, fnames), root)
        base_dry = Counter({k: n for k, n in base.items() if k[0].startswith("dry.")})
        used = runner.fresh_orchestrator(root)
        for perm in perms:
            got = cms(lint_call(runner.fresh_orchestrator(root), "o-files", root, perm), root)
            if got != base:
                report("lint_files-order", perm, base, got)
            again = cms(lint_call(used, "o-files", root, perm), root)  # one long-lived object sees every order in turn
            if again != got:
                report("lint_files-order|used-object", perm, got, again)
            r = runner.run_cli(["dry", "--format", "json", *perm], cwd=root)
            if r.exit not in (0, 1) or r.exception or r.swallowed:
                failures.append(Failure("constants|cli|bad-exit", {"exit": r.exit, "stderr": r.stderr[-300:], "files": files, "order": perm}))
            elif cms(r.violations, root) != base_dry:
                report("cli-argument-order", perm, base_dry, cms(r.violations, root))
        # discovery order: the same files created in another order, linted as a directory
        for perm in (perms[len(perms) // 2], perms[-1]):
            with Project({n: files[n] for n in perm}, config=cfg) as proj2:
                got = cms(lint_call(runner.fresh_orchestrator(proj2.root), "o-dir", proj2.root, None), proj2.root)
                if got != base:
                    report("dir-creation-order", perm, base, got)
    n_const = sum(1 for k in base.elements() if is_const_violation(k))
    groups = {k[4].split(" Also found in")[0] for k in base if is_const_violation(k)}
    labels.append(f"constant-violations={min(n_const, 5)}")
    labels.append("fuzzy-group" if any(g.startswith("Similar") for g in groups) else ("exact-group" if groups else "no-group"))
    return Case(key=h(["constants", case["base"], case["nodes"], case["assign"], case["langs"], case["min_occ"]]),
                nontrivial=n_const >= 2 and len(perms) >= 2 and len(fnames) >= 2, labels=labels, failures=failures)


def constant_cells():
    """Every 3-name relation graph: (chain 0-1-2 | star 1-0-2) x op x op, one name per file; base, language layout and the
    occurrence threshold rotate with the cell number.  All 6 file orders are linted in every cell."""
    cells = []
    i = 0
    for p2 in (1, 0):
        for op1 in CONST_OPS:
            for op2 in CONST_OPS:
                for b, base in enumerate(CONST_BASES):
                    langs = [["py"], ["ts"], ["py", "ts", "py"], ["ts", "py", "ts"]][(i + b) % 4]
                    cells.append({"kind": "constants", "base": base, "nodes": [[0, op1], [p2, op2]], "assign": [0, 1, 2], "langs": langs,
                                  "min_occ": 3 if i % 5 == 4 else 2, "perms": "all"})
                    i += 1
    return cells


@st.composite
def constsets(draw):
    """4-5 names in a drawn derivation tree, drawn assignment to 3-5 files (files may hold several names), drawn orders."""
    n = draw(st.integers(4, 5))
    nodes = [[draw(st.integers(0, i - 1)), draw(st.sampled_from(CONST_OPS))] for i in range(1, n)]
    nfiles = draw(st.integers(3, n))
    assign = draw(st.lists(st.integers(0, nfiles - 1), min_size=n, max_size=n))
    langs = draw(st.lists(st.sampled_from(["py", "ts"]), min_size=1, max_size=nfiles))
    perms = draw(st.lists(st.permutations(list(range(nfiles))), min_size=2, max_size=6))
    return {"kind": "constants", "base": draw(st.sampled_from(CONST_BASES)), "nodes": nodes, "assign": assign, "langs": langs,
            "min_occ": draw(st.sampled_from([2, 2, 3])), "perms": [list(p) for p in perms]}


# ----------------------------------------------------------------------------------- side effects


EFFECT_CMDS = ["nesting", "srp", "magic-numbers", "dry", "stringly-typed", "file-placement", "file-header", "improper-logging", "print-statements",
               "method-property", "stateless-class", "pipeline", "lbyl", "lazy-ignores", "perf", "string-concat-loop", "regex-in-loop",
               "unwrap-abuse", "clone-abuse", "blocking-async"]


def effect_cells():
    cells = []
    for cmd in EFFECT_CMDS:
        for par in (False, True):
            cells.append({"kind": "effects", "cmd": cmd, "parallel": par, "storage": None, "opts": []})
    for storage in ("memory", "tempfile"):
        for par in (False, True):
            for opts in ([], ["--no-cache"], ["--clear-cache"]):
                cells.append({"kind": "effects", "cmd": "dry", "parallel": par, "storage": storage, "opts": opts})
    return cells


def check_effects(case) -> Case:
    failures, labels = [], ["kind=effects", f"cmd={case['cmd']}", "parallel" if case["parallel"] else "sequential"]
    files = {}
    for i, p in enumerate(PATHS):
        files[p] = content(p, i % 3)
    for i in range(12):  # enough files for the CLI's parallel path (>= 16 with 8 workers)
        files[f"more/m{i:02d}.py"] = content("a.py", i % 3).replace("_0_", f"_m{i}_")
    files["src/lib.rs"] = seeds.compose("rs", [seeds.seed("unwrap", "rs", 5, 0), seeds.seed("clone", "rs", 6, 0), seeds.seed("blocking", "rs", 7, 0)], header=False)[0]
    cfg = {"dry": {"enabled": True, "min_duplicate_lines": 3}}
    if case["storage"]:
        cfg["dry"]["storage_mode"] = case["storage"]
    cfg["file-placement"] = {"global_deny": [{"pattern": r".*m0[0-3]\.py$", "reason": "denied by the test config"}]}
    with Project(files, config=cfg) as proj:
        tmp = tempfile.mkdtemp(prefix="vf-tmp-", dir=runner.neutral_dir())
        try:
            before = vproject.snapshot(proj.root)
            args = [case["cmd"], "--format", "json", *case["opts"]] + (["--parallel"] if case["parallel"] else []) + ["."]
            r = runner.run_cli_sub(args, cwd=proj.root, env={"TMPDIR": tmp, "TEMP": tmp, "TMP": tmp})
            after = vproject.snapshot(proj.root)
            left = sorted(os.listdir(tmp))
            if r.exit not in (0, 1):
                failures.append(Failure(f"effects|{case['cmd']}|bad-exit", {"exit": r.exit, "stderr": r.stderr[-300:]}))
            created = sorted(set(after) - set(before))
            deleted = sorted(set(before) - set(after))
            modified = sorted(k for k in before if k in after and before[k] != after[k])
            if created or deleted or modified:
                kind = "created" if created else ("deleted" if deleted else "modified")
                what = (created or deleted or modified)[0].split("/")[0]
                failures.append(Failure(f"effects|{case['cmd']}|project-{kind}|{what}", {"args": args, "created": created[:5], "deleted": deleted[:5], "modified": modified[:5]}))
            if left:
                failures.append(Failure(f"effects|{case['cmd']}|temp-files-left", {"args": args, "left": left[:5]}))
            n = len(r.violations) if r.exit in (0, 1) else 0
        finally:
            shutil.rmtree(tmp, ignore_errors=True)
    return Case(key=h(["effects", case]), nontrivial=n > 0, labels=labels, failures=failures)


def check(case) -> Case:
    return {"history": check_history, "order": check_order, "effects": check_effects, "constants": check_constants}[case["kind"]](case)


def run(ctx):
    cells = effect_cells()
    done = ctx.each(ctx.my_cells(cells), check)
    ctx.stats.extra.setdefault("matrix", {})["effects: command x {sequential, parallel} + dry storage x cache options"] = {"cells": len(ctx.my_cells(cells)), "done": done}
    ccells = constant_cells()
    done = ctx.each(ctx.my_cells(ccells), check)
    ctx.stats.extra["matrix"]["constants: 3-name relation graph (chain|star) x op x op x base, all 6 file orders"] = {"cells": len(ctx.my_cells(ccells)), "done": done}
    ctx.explore(constsets(), check, max_examples=ctx.n(12, 300), salt=3)
    ctx.explore(orders(), check, max_examples=ctx.n(4, 50), salt=2)
    ctx.explore(histories(), check, max_examples=ctx.n(60, 600), salt=1)


def replay(case) -> Case:
    return check(case)
