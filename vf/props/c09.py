"""C09 - results do not depend on how paths are spelled or where the project lives.

One generated project (vf/gen/c09_project.py: seeds of every linter incl. Rust, in-project tests/ examples/ benches/,
per-linter ignore patterns, repository-level ignore, file-placement directory rules) is linted
  * below a parent-directory chain drawn from every built-in excluded directory name, every test-marker substring,
    every default-ignore-pattern name and innocuous names,
  * from the project root, a sub-directory, the parent directory, an unrelated directory, and an unrelated directory
    that has its own .thailintignore (catch-all) and a copy of the project's .thailint.yaml,
  * with the targets written absolute, relative, "./"-prefixed, with a redundant "sub/../sub" hop, with a trailing slash,
    and - for invocations with several targets - with a DIFFERENT spelling per target (absolute next to relative, in both
    orders; "./" + absolute + redundant hop),
  * for the whole project, a sub-directory, one file, several files, several directories,
for every CLI command. Oracle: the multiset of violations, with every printed path rewritten to the project-relative
path (vf/oracle/c09_norm.py), equals that of the canonical invocation: same targets, innocuous parent `x`,
cwd = project root, targets written relative to the root (`.` for the project).
Known deviations are modelled explicitly in vf/oracle/c09_devs.py; a difference is a known finding only if those
models account for it exactly.
"""
from __future__ import annotations

import functools
import os
from pathlib import Path

from hypothesis import strategies as st

from vf import runner
from vf.engine import Case, Failure, h
from vf.gen import c09_project as G
from vf.oracle import c09_devs as D
from vf.oracle import c09_norm as N
from vf.project import Project, to_yaml

ID = "C09"
TECHNIQUE = ("metamorphic/differential testing over a covering matrix (every parent-directory name x every command; every "
             "cwd x spelling x target combination; every cwd x per-target mixed spelling for multi-target invocations) plus Hypothesis-drawn cells (two-level parent chains, project variants); "
             "path-normalised violation multisets compared with a canonical invocation; known deviations modelled explicitly")
RULE = (
    "case = (project variant, command, parent-directory chain of 1-2 names, cwd kind, spelling, target kind, execution mode); the "
    "spelling is one form for all targets or, with several targets (several files / several directories), a rotation of forms "
    "over the targets that mixes absolute and relative ones. "
    "The project is rebuilt below the chain, the command is run from the cwd with the targets spelled as drawn, and the "
    "path-normalised violation multiset must equal the canonical run (parent x, cwd = root, relative targets). "
    "Non-trivial: the canonical run has >= 1 violation for the command and target, and the cell differs from the canonical "
    "invocation (noxious parent name, or cwd != root, or spelling other than plain relative). "
    "Distinct = (command, parent chain, cwd kind, spelling, target kind, variant)."
)
ASSUMPTIONS = [
    "the project always carries its own root marker (.thailint.yaml), so 'the project' is well defined; a parent called .git is "
    "excluded because it makes the directory above it a checkout, i.e. changes the project by design",
    "configured per-linter ignore patterns use directory names that never occur in a parent chain and cover only files that never "
    "sit directly in a directory used as cwd: docs/configuration.md says such patterns are matched against the path 'relative to "
    "where you run the command' while the statement says 'path inside the project'; for these patterns both readings select the same files",
    "the cwd that has its own .thailint.yaml carries a byte-identical copy of the project's configuration (docs list the current "
    "directory's config before the project root's; with identical content both readings agree); its .thailintignore is hostile",
    "excluded names *inside* the project (build/ below the root) are C14's subject, not generated here",
    "paths the tool prints are accepted in any spelling that denotes the file: absolute, relative to the cwd, or relative to the "
    "project root; the order of the 'Also found in:' list of dry/stringly messages is treated as spelling",
    "in-process CLI (click CliRunner with chdir) equals a fresh process; cross-checked by the runner's mode self-check and by a "
    "sample of cells executed in a real subprocess",
]
BUDGET_S = {"quick": 100, "thorough": 1500}

CANON_PARENT = "x"


@functools.lru_cache(maxsize=None)
def _project(variant: int):
    return G.build(variant)


_CANON: dict = {}


def _healthy(r) -> str | None:
    if r.exception:
        return "exception"
    if r.exit not in (0, 1):
        return "exit"
    if r.swallowed:
        return "swallowed"
    try:
        vs = r.violations
    except Exception:
        return "output"
    if (r.exit == 1) != bool(vs):
        return "exit-vs-findings"
    return None


def canonical(variant: int, cmd: str, target: str):
    """Multiset of the canonical invocation (cached per process; a pure function of its arguments and /repo)."""
    key = (variant, cmd, target)
    if key not in _CANON:
        files, config, targets, meta = _project(variant)
        with Project(files, config=config, parent=CANON_PARENT) as p:
            args = G.target_paths(targets, meta, target, cmd)
            r = runner.run_cli([cmd, "--format", "json", *args], cwd=p.root)
            bad = _healthy(r)
            if bad:
                raise runner.HarnessError(f"canonical run unhealthy ({bad}): {cmd} {args}: exit {r.exit} {r.stderr[-400:]} {r.swallowed[:2]} {r.exception}")
            _CANON[key] = N.multiset(r.violations, p.root, p.root)
    return _CANON[key]


def valid(case) -> bool:
    if case["spelling"] in ("slash", "abs-slash") and not G.is_dir_target(case["target"]):
        return False
    if G.is_mixed(case["spelling"]) and case["target"] not in G.MULTI_TARGETS:
        return False
    return True


def _seen_fn(targets_rel, args, isdir, all_files):
    """project-relative path -> the path string the tool works with in this run."""
    table = {}
    for t, a in zip(targets_rel, args):
        pa = Path(a)
        if isdir:
            base = "" if t == "." else t + "/"
            for f in all_files:
                if f.startswith(base) and f not in table:
                    table[f] = str(pa / f[len(base):])
        elif t not in table:
            table[t] = str(pa)
    return table.get


def check(case) -> Case:
    variant, cmd, chain = case["variant"], case["cmd"], list(case["chain"])
    cwd_kind, spelling, target = case["cwd"], case["spelling"], case["target"]
    mode = case.get("mode", "P")
    files, config, targets, meta = _project(variant)
    pclass = G.parent_class(chain)
    sclass = G.spelling_class(spelling)
    labels = [f"cmd={cmd}", f"parent={pclass}", f"cwd={cwd_kind}", f"spelling={spelling}", f"target={target}", f"mode={mode}",
              f"chainlen={len(chain)}", f"variant={variant}"] + [f"name={n}" for n in chain]
    key = h([cmd, chain, cwd_kind, spelling, target, variant])
    if not valid(case):
        return Case(key=key, nontrivial=False, labels=["invalid-combination"], failures=[])
    exp = canonical(variant, cmd, target)
    failures = []
    with Project(files, config=config, parent="/".join(chain)) as p:
        plain = os.path.join(p.top, "elsewhere")
        withcfg = os.path.join(p.top, "elsewhere_cfg")
        os.makedirs(plain)
        os.makedirs(withcfg)
        with open(os.path.join(withcfg, ".thailintignore"), "w") as fh:
            fh.write(G.HOSTILE_IGNOREFILE)
        with open(os.path.join(withcfg, ".thailint.yaml"), "w") as fh:
            fh.write(to_yaml(config))
        cwd = {"root": p.root, "sub": os.path.join(p.root, G.SUB), "parent": os.path.dirname(p.root), "unrelated": plain,
               "unrelated-ignorefile": withcfg}[cwd_kind]
        trel = G.target_paths(targets, meta, target, cmd)
        isdir = G.is_dir_target(target)
        args = G.spell_all(p.root, cwd, trel, spelling, isdir)
        cli = [cmd, "--format", "json", *args]
        r = runner.run_cli_sub(cli, cwd) if mode == "S" else runner.run_cli(cli, cwd)
        bad = _healthy(r)
        detail = {"command": cli, "cwd": cwd, "project_root": p.root, "parent_chain": chain, "cwd_kind": cwd_kind,
                  "spelling": spelling, "target": target, "mode": mode}
        if bad:
            failures.append(Failure(f"{cmd}|anomaly|{bad}", {**detail, "exit": r.exit, "stderr": r.stderr[-600:], "swallowed": r.swallowed[:3],
                                                            "exception": r.exception, "stdout": r.stdout[:300]}))
            return Case(key=key, nontrivial=bool(exp), labels=labels + ["anomaly"], failures=failures)
        got = N.multiset(r.violations, p.root, cwd)
        if got != exp:
            lost, gained = exp - got, got - exp
            anchored = [pt for pt in G.REPO_IGNORE_FILE if not pt.startswith("**") and "/" in pt.rstrip("/")] if ".thailintignore" in files else []
            cell = D.Cell(cmd, cwd_kind, cwd_kind == "unrelated-ignorefile", _seen_fn(trel, args, isdir, sorted(files)), anchored,
                          meta["stringly_files"])
            detail.update({
                "canonical_invocation": f"parent {CANON_PARENT}/, cwd = project root, thailint {cmd} --format json " + " ".join(trel),
                "canonical_count": sum(exp.values()), "observed_count": sum(got.values()),
                "lost": sorted(map(list, lost.elements()), key=repr)[:8], "gained": sorted(map(list, gained.elements()), key=repr)[:8],
            })
            devs = D.explain(cell, exp, got)
            if devs:
                for d in devs:
                    failures.append(Failure(f"dev:{d}", {**detail, "explained_by": devs}))
                labels += [f"dev:{d}" for d in devs]
            else:
                kind = "+".join(k for k, c in (("lost", lost), ("gained", gained)) if c)
                failures.append(Failure(f"{cmd}|{pclass}|{cwd_kind}|{sclass}|{kind}", detail))
            labels.append("differs")
        else:
            labels.append("equal")
    plain_invocation = pclass == "innocuous" and cwd_kind == "root" and spelling in ("rel", "dot")
    nontrivial = bool(exp) and not plain_invocation
    if not exp:
        labels.append("canonical-empty")
    return Case(key=key, nontrivial=nontrivial, labels=labels, failures=failures)


# ------------------------------------------------------------------------------------ strategies / matrices


def _chains():
    name = st.sampled_from(G.PARENT_NAMES)
    noxious = st.sampled_from(G.EXCLUDED_DIRS + G.TEST_MARKERS + G.DEFAULT_IGNORE_NAMES)
    innocuous = st.sampled_from(G.INNOCUOUS)
    return st.one_of(
        name.map(lambda n: [n]),
        st.tuples(noxious, innocuous).map(list),
        st.tuples(innocuous, noxious).map(list),
        st.tuples(noxious, noxious).map(list),
    )


def all_pairs():
    return [(cmd, target) for cmd in G.COMMANDS for target in G.TARGETS]


def multi_pairs():
    return [(cmd, target) for cmd in G.COMMANDS for target in G.MULTI_TARGETS]


def shard_pairs(shard, nshards):
    """(command, target) pairs of one shard: keeps the number of canonical runs per process small (each shard needs the
    canonical multisets of its own pairs only) and gives every shard a mix of commands and target kinds."""
    return [(c, t) for c in G.COMMANDS for t in G.ALL_TARGETS if (G.COMMANDS.index(c) + 3 * G.ALL_TARGETS.index(t)) % nshards == shard]


def cases(variants, pairs):
    return st.fixed_dictionaries({
        "variant": st.sampled_from(variants),
        "pair": st.sampled_from(pairs),
        "chain": _chains(),
        "cwd": st.sampled_from(G.CWDS),
        "spelling": st.sampled_from(G.SPELLINGS + G.MIXED_SPELLINGS),
        "mode": st.sampled_from(["P"] * 24 + ["S"]),
    }).map(lambda d: {"variant": d["variant"], "cmd": d["pair"][0], "chain": d["chain"], "cwd": d["cwd"], "spelling": d["spelling"],
                      "target": d["pair"][1], "mode": d["mode"]}).filter(valid)


def _cwd_spellings(target, spellings=G.SPELLINGS):
    return [(cw, sp) for cw in G.CWDS for sp in spellings if valid({"spelling": sp, "target": target})]


def quick_matrix(pairs):
    """Per (command, target) pair: (A) every test-marker name, every default-ignore name, 4 of the 15 excluded-directory
    names (rotating, so each command sees all of them over its 4 target kinds) and an innocuous name, with cwd x spelling
    rotating; (B) every cwd with 2 rotating spellings below an innocuous parent, project variant 1.
    Per (command, multi-target kind) pair: (C) every cwd with 2 of the 3 mixed per-target spellings (several files) or with one
    mixed and one uniform spelling (several directories), rotating, below an innocuous parent, variants alternating."""
    cells = []
    allp = all_pairs()
    multi = multi_pairs()
    for pair in pairs:
        cmd, target = pair
        if target in G.MULTI_TARGETS:
            j = multi.index(pair)
            # every cwd with 2 (several files) or 1 (several directories: the expensive cells) of the mixed spellings, rotating
            # with the command so that every (cwd, mixed spelling) combination occurs for most commands
            nm = len(G.MIXED_SPELLINGS)
            mixed = [(cw, G.MIXED_SPELLINGS[(j + k + m) % nm]) for k, cw in enumerate(G.CWDS) for m in range(2 if target in G.TARGETS else 1)]
            for k, (cw, sp) in enumerate(mixed):
                cells.append({"variant": (j + k) % 2, "cmd": cmd, "chain": [G.INNOCUOUS[(j + k) % len(G.INNOCUOUS)]], "cwd": cw,
                              "spelling": sp, "target": target, "mode": "S" if (j * 15 + k) % 211 == 0 else "P"})
        if target not in G.TARGETS:
            sps = [sp for sp in G.SPELLINGS if valid({"spelling": sp, "target": target})]
            for k, cw in enumerate(G.CWDS):
                cells.append({"variant": 0, "cmd": cmd, "chain": [G.INNOCUOUS[(j + k) % len(G.INNOCUOUS)]], "cwd": cw,
                              "spelling": sps[(j + k) % len(sps)], "target": target, "mode": "P"})
            continue
        j = allp.index(pair)
        cs = _cwd_spellings(target)
        excl = [G.EXCLUDED_DIRS[(4 * G.TARGETS.index(target) + k + G.COMMANDS.index(cmd)) % len(G.EXCLUDED_DIRS)] for k in range(4)]
        names = G.TEST_MARKERS + G.DEFAULT_IGNORE_NAMES + excl + [G.INNOCUOUS[j % len(G.INNOCUOUS)]]
        for k, n in enumerate(names):
            cw, sp = cs[(j * 11 + k * 7) % len(cs)]
            cells.append({"variant": 0, "cmd": cmd, "chain": [n], "cwd": cw, "spelling": sp, "target": target,
                          "mode": "S" if (j + k) % 53 == 0 else "P"})
        sps = [sp for sp in G.SPELLINGS if valid({"spelling": sp, "target": target})]
        for k, cw in enumerate(G.CWDS):
            for m in range(2):
                sp = sps[(j + k * 2 + m * 3) % len(sps)]
                cells.append({"variant": 1, "cmd": cmd, "chain": [G.INNOCUOUS[(j + k) % len(G.INNOCUOUS)]], "cwd": cw, "spelling": sp,
                              "target": target, "mode": "P"})
    return cells


def full_matrix(pairs, variant=0):
    """Full product over the single-spelling kinds; the mixed per-target spellings (and all spellings of the
    several-directories kind) below one name of every parent class."""
    cells = []
    some = [G.INNOCUOUS[0], G.EXCLUDED_DIRS[0], G.TEST_MARKERS[0], G.DEFAULT_IGNORE_NAMES[0]]
    for cmd, target in pairs:
        if target in G.TARGETS:
            for n in G.PARENT_NAMES:
                for cw, sp in _cwd_spellings(target):
                    cells.append({"variant": variant, "cmd": cmd, "chain": [n], "cwd": cw, "spelling": sp, "target": target, "mode": "P"})
        if target in G.MULTI_TARGETS:
            sps = G.MIXED_SPELLINGS if target in G.TARGETS else G.SPELLINGS + G.MIXED_SPELLINGS
            for n in some:
                for cw, sp in _cwd_spellings(target, sps):
                    cells.append({"variant": variant, "cmd": cmd, "chain": [n], "cwd": cw, "spelling": sp, "target": target, "mode": "P"})
    return cells


def _interleave(cells, k):
    """Reorder so that a truncated run has seen a spread of the matrix rather than its first rows."""
    return [c for r in range(k) for c in cells[r::k]]


def run(ctx):
    pairs = shard_pairs(ctx.shard, ctx.nshards)
    if ctx.quick:
        # a first helping of drawn cells (two-level chains, both variants, subprocess mode) before the matrix, so that a
        # run truncated by the budget on a busy machine has seen both parts
        ctx.explore(cases([0, 1], pairs), check, max_examples=ctx.n(8, 0), salt=2)
        cells = _interleave(quick_matrix(pairs), 5)
        done = ctx.each(cells, check)
        ctx.stats.extra.setdefault("matrix", {})[
            "per (command,target): all test-marker + default-ignore names, 4 rotating excluded-dir names, 1 innocuous (cwd x spelling "
            "rotating); every cwd x 2 rotating spellings below an innocuous parent; per (command, several files | several directories): "
            "every cwd x 2 rotating mixed per-target spellings (files), x 1 rotating mixed + 1 rotating uniform spelling (directories)"] = {"cells": len(cells), "done": done}
        ctx.explore(cases([0, 1], pairs), check, max_examples=ctx.n(25, 0), salt=1)
    else:
        ctx.explore(cases([0, 1, 2, 3], pairs), check, max_examples=ctx.n(0, 100), salt=2)
        cells = _interleave(full_matrix(pairs), 97)
        done = ctx.each(cells, check)
        ctx.stats.extra.setdefault("matrix", {})["full product: parent name x cwd x spelling x target x command, variant 0; "
                                                 "mixed per-target spellings and the several-directories kind below one name per parent class"] = {"cells": len(cells), "done": done}
        ctx.explore(cases([0, 1, 2, 3], pairs), check, max_examples=ctx.n(0, 400), salt=1)


def replay(case) -> Case:
    return check(case)
