"""C18 - file-placement verdicts follow the allow/deny rules exactly.

Generator: rule sets over a small alphabet (directory keys src, src/api, src/api/v1, tests, lib, .github; nine regex patterns;
deny items as plain strings or {pattern, reason|message} dicts; global_deny; global_patterns.allow/deny; now and then one
syntactically invalid pattern) x a tree drawn from 13 directories x 8 file names (with look-alike directories `srcx`, `github`,
`src/apix`; with letter-case twins: a.py / A.PY, Readme.md / README.MD against the patterns ending in .py$ / .PY$ and `(^|/)readme`), delivered through .thailint.yaml, --config <json|yaml> or --rules, and linted as `.`, absolute path,
file list, sub-directory argument, from a sub-directory cwd or from a foreign cwd.
Oracle: vf/oracle/c18_placement.py (the statement verbatim); observed = set of tree files with a file-placement
violation; invalid pattern => exit code 2.
Bounded exhaustive sub-spaces (see run()) are enumerated completely. One of them (EC) is the letter-case dimension: every list
site (directory allow / deny, global_deny, global_patterns allow / deny) x list length 1-3, two sites side by side, over patterns
and paths that agree exactly, in letter case only, or not at all - how a pattern treats letter case must not depend on the list
it stands in or on the length of that list. A mismatch in which some lists judged case-sensitively and others case-insensitively
gets its own signature (`case-handling-inconsistent|case-sensitive-at:<sites>`); it is never covered by the known deviation.
Known deviations of the tool are modelled explicitly (DEVIATIONS): a mismatch is a KNOWN finding only if a listed
deviation (set) explains the observed verdicts of *all* files of the case exactly.
"""
from __future__ import annotations

import itertools
import json
import os

from hypothesis import strategies as st

from vf import runner
from vf.engine import Case, Failure, h, live_first, deviation_sets
from vf.oracle import c18_placement as model
from vf.project import Project, to_yaml

ID = "C18"
TECHNIQUE = ("Hypothesis-generated rule sets x generated trees vs. a reference verdict function written from the statement; "
             "bounded exhaustive enumeration of small rule sets against a fixed tree (incl. a letter-case x list-site x list-length matrix); "
             "four config carriers, six invocation forms")
RULE = (
    "case = one rule set (0-3 directory rules with allow/deny lists, global_deny, global_patterns) + one tree of 6-20 "
    "files (directories and names also starting with a dot: .github/, ..d/, .env; names and patterns that differ in letter case only: A.PY, README.MD) + carrier + invocation form; one thailint file-placement run, verdict compared per file. Non-trivial: per the "
    "reference at least one file is reported and one is not, and (two directory keys are nested, or some file matches "
    "both allow and deny of its deciding rule, or a global rule exists while some file is not covered by a directory "
    "rule). Distinct = hash of the normalised rule set (patterns per list, sorted)."
)
ASSUMPTIONS = [
    "patterns are Python regular expressions searched (re.search) in the project-relative POSIX path with default (case-sensitive) "
    "regex semantics - docs/file-placement-linter.md documents `[A-Z].*\\.py$` as 'files starting with uppercase'",
    "letter case is handled the same way by every list of a rule set: the tool's IGNORECASE matching is a modelled known deviation only when it "
    "explains ALL files of a case; verdicts that are case-sensitive in one list and case-insensitive in another match neither reading and are reported",
    "directory keys are plain relative directory paths, now and then with a trailing slash (same directory); the undocumented key '/' is not generated",
    "only the generated tree's files are judged; verdicts for the config carrier files themselves are ignored",
    "--rules and --config carry the same document as .thailint.yaml ({'file-placement': {...}})",
    "file contents are empty; `ignore` lists are not generated (C14 covers file selection)",
    "in-process CLI (click CliRunner) equals a fresh process; cross-checked on the first cases of every run",
]
BUDGET_S = {"quick": 100, "thorough": 1300}

KEYS = ["src", "src/api", "src/api/v1", "tests", "lib", ".github"]
PATTERNS = [r".*\.py$", r"^test_.*", r"test_.*\.py$", r".*\.(ts|tsx)$", r"^src/", r"[A-Z].*", r".*_api\.py$", r"^\.", r"^\.github/.*\.md$",
            r".*\.PY$", r"(^|/)readme\."]  # the last two meet paths that differ from them in letter case only (a.py / A.PY, Readme.md / README.MD)
INVALID = ["(", "[a-", "*.py"]
DIRS = ["", "src/", "src/api/", "src/api/v1/", "src/apix/", "srcx/", "tests/", "lib/x/", "other/", ".github/", ".github/wf/", "..d/", "github/"]
NAMES = ["a.py", "test_a.py", "user_api.py", "B.tsx", "Readme.md", ".env", "A.PY", "README.MD"]  # A.PY / README.MD: letter-case twins
ALL_FILES = [d + n for d in DIRS for n in NAMES]
CARRIER_FILES = {".thailint.yaml", "fp-rules.json", "fp-rules.yaml"}

# fixed tree of the exhaustive tiers: every directory class x the names that separate the patterns used there
FIXED_TREE = ["a.py", "test_a.py", "B.tsx", "src/a.py", "src/test_a.py", "src/B.tsx", "src/api/a.py", "src/api/test_a.py",
              "src/apix/a.py", "srcx/test_a.py", "srcx/a.py", "tests/test_a.py", "tests/a.py", "lib/x/a.py", "lib/x/B.tsx", "other/test_a.py", "other/B.tsx"]
EX_KEYS = ["src", "src/api", "tests", "lib"]
EX_PATTERNS = [r".*\.py$", r"test_.*\.py$", r"^src/"]

# letter-case tier EC: every directory class x names that meet the EC patterns exactly, in letter case only, or not at all
EC_TREE = [d + n for d in ["", "src/", "lib/"] for n in ["a.py", "A.PY", "notes.md", "NOTES.MD", "Notes.txt", "data.json"]]
EC_PATTERNS = [r".*\.py$", r".*\.MD$", r"(^|/)notes\."]

DEVIATIONS = tuple(live_first("C18", ("dir-key-string-prefix", "global-rules-on-covered-files", "patterns-case-insensitive", "relative-path-as-given")))


# ------------------------------------------------------------------------------------ strategies


def _deny_items(max_size=3):
    def item(p, form, txt):
        if form == "str":
            return p
        if form == "reason":
            return {"pattern": p, "reason": txt}
        if form == "message":
            return {"pattern": p, "message": txt}
        return {"pattern": p}

    one = st.builds(item, st.sampled_from(PATTERNS), st.sampled_from(["str", "str", "reason", "message", "bare"]), st.sampled_from(["not here", "move it"]))
    return st.lists(one, min_size=1, max_size=max_size, unique_by=lambda i: model.item_pattern(i))


def _allow_items(max_size=3, min_size=0):
    return st.lists(st.sampled_from(PATTERNS), min_size=min_size, max_size=max_size, unique=True)


@st.composite
def rule(draw):
    r = {}
    shape = draw(st.sampled_from(["allow", "deny", "both", "both", "empty"]))
    if shape in ("allow", "both"):
        r["allow"] = draw(_allow_items(min_size=0 if draw(st.integers(0, 9)) == 0 else 1))
    if shape in ("deny", "both"):
        r["deny"] = draw(_deny_items())
    return r


@st.composite
def rule_sets(draw):
    cfg = {}
    keys = draw(st.lists(st.sampled_from(KEYS), min_size=0, max_size=3, unique=True))
    if keys or draw(st.integers(0, 5)) == 0:
        # a key may be written with a trailing slash (`src/`): it names the same directory, in whatever order the keys come
        cfg["directories"] = {(k + "/" if draw(st.integers(0, 3)) == 0 else k): draw(rule()) for k in keys}
    if draw(st.integers(0, 2)) == 0:
        cfg["global_deny"] = draw(_deny_items(2))
    if draw(st.integers(0, 2)) == 0:
        gp = {}
        shape = draw(st.sampled_from(["allow", "deny", "both"]))
        if shape in ("allow", "both"):
            gp["allow"] = draw(_allow_items(2, 1))
        if shape in ("deny", "both"):
            gp["deny"] = draw(_deny_items(2))
        cfg["global_patterns"] = gp
    return cfg


def _inject_invalid(cfg, where, bad):
    """put one invalid pattern into the rule set (where = index of the target list)"""
    lists = []
    for r in cfg.get("directories", {}).values():
        lists += [r[a] for a in ("allow", "deny") if a in r]
    if "global_deny" in cfg:
        lists.append(cfg["global_deny"])
    lists += [cfg["global_patterns"][a] for a in ("allow", "deny") if a in cfg.get("global_patterns", {})]
    if not lists:
        cfg["global_deny"] = [bad]
        return
    lists[where % len(lists)].append(bad)


@st.composite
def invocations(draw, files):
    mode = draw(st.sampled_from(["dot", "dot", "dot", "abs", "files", "reldir", "subdir", "foreign-abs"]))
    inv = {"mode": mode}
    if mode in ("reldir", "subdir"):
        subs = sorted({f.split("/")[0] for f in files if "/" in f} | {os.path.dirname(f) for f in files if "/" in f})
        if not subs:
            return {"mode": "dot"}
        inv["sub"] = draw(st.sampled_from(subs))
    return inv


@st.composite
def cases(draw):
    cfg = draw(rule_sets())
    if draw(st.sampled_from([True] + [False] * 11)):
        _inject_invalid(cfg, draw(st.integers(0, 9)), draw(st.sampled_from(INVALID)))
    if not model.invalid_patterns(cfg) and draw(st.sampled_from([True] + [False] * 19)):
        # docs/configuration.md writes allow items as {pattern, message} mappings too
        lists = [r["allow"] for r in cfg.get("directories", {}).values() if r.get("allow")]
        if cfg.get("global_patterns", {}).get("allow"):
            lists.append(cfg["global_patterns"]["allow"])
        if lists:
            tgt = lists[draw(st.integers(0, len(lists) - 1))]
            tgt[0] = {"pattern": tgt[0], "message": "fine here"}
    files = sorted(draw(st.lists(st.sampled_from(ALL_FILES), min_size=6, max_size=20, unique=True)))
    return {"cfg": cfg, "files": files, "carrier": draw(st.sampled_from(["yaml", "yaml", "config-json", "config-yaml", "rules"])),
            "invoke": draw(invocations(files))}


# ------------------------------------------------------------------------------------ running


def _run(case):
    cfg, files, carrier, inv = case["cfg"], case["files"], case.get("carrier", "yaml"), case.get("invoke", {"mode": "dot"})
    doc = {"file-placement": cfg}
    extra = {}
    pre = []
    with Project({f: "" for f in files}, config=doc if carrier == "yaml" else None) as p:
        if carrier == "config-json":
            p.write("fp-rules.json", json.dumps(doc, indent=1))
            pre = ["--config", p.path("fp-rules.json")]
        elif carrier == "config-yaml":
            p.write("fp-rules.yaml", to_yaml(doc))
            pre = ["--config", p.path("fp-rules.yaml")]
        elif carrier == "rules":
            pre = ["--rules", json.dumps(doc)]
        mode = inv["mode"]
        cwd = p.root
        universe = list(files)
        judged = {f: f for f in files}
        if mode == "dot":
            paths = ["."]
        elif mode == "abs":
            paths = [p.root]
        elif mode == "foreign-abs":
            paths, cwd = [p.root], runner.neutral_dir()
        elif mode == "files":
            paths = list(files)
        elif mode == "reldir":
            paths = [inv["sub"]]
            universe = [f for f in files if f.startswith(inv["sub"] + "/")]
        else:  # subdir: cwd is a sub-directory of the project, argument "."
            paths, cwd = ["."], p.path(inv["sub"])
            universe = [f for f in files if f.startswith(inv["sub"] + "/")]
            judged = {f: f[len(inv["sub"]) + 1:] for f in universe}
        args = ["file-placement", *pre, "--format", "json", *paths]
        r = runner.run_cli(args, cwd=cwd)
        reported = {}
        if r.exit in (0, 1) and not r.exception:
            for v in r.violations:
                # file-placement prints the path it judged: absolute, or relative to the project root - except from a
                # sub-directory cwd, where it is the argument-relative path (C09/C12 judge path spelling, not C18)
                fp = v["file_path"]
                if os.path.isabs(fp):
                    rel = runner.norm_path(fp, p.root, cwd)
                elif mode == "subdir" and not os.path.exists(os.path.join(p.root, fp)) and os.path.exists(os.path.join(cwd, fp)):
                    rel = os.path.normpath(os.path.join(inv["sub"], fp))  # argument-relative spelling
                else:
                    rel = os.path.normpath(fp)
                reported.setdefault(rel, []).append({"rule_id": v["rule_id"], "message": v["message"].replace(p.root, "<root>")})
        extra = {"args": [a.replace(p.root, "<root>") for a in args], "cwd": cwd.replace(p.root, "<root>")}
    return r, reported, universe, judged, extra


def _clause_overlap(cfg, f):
    """does f match both allow and deny of the rule set that decides it?"""
    key = model.covering_key(cfg, f)
    r = cfg["directories"][key] if key is not None else cfg.get("global_patterns", {})
    import re

    if "allow" in r and "deny" in r:
        return any(re.search(model.item_pattern(i), f) for i in r["allow"]) and any(re.search(model.item_pattern(i), f) for i in r["deny"])
    return False


def _allow_items_of(cfg):
    for r in cfg.get("directories", {}).values():
        for i in r.get("allow", []):
            yield "dir-allow", i
    for i in cfg.get("global_patterns", {}).get("allow", []):
        yield "gp-allow", i


def _mixed_case_handling(cfg, universe, judged, observed, app):
    """Classify a mismatch no deviation set explains: are the verdicts those of ONE rule set whose lists disagree about
    letter case - every file judged either case-sensitively or case-insensitively (all else equal), and both kinds occur?
    -> {"sensitive": [...], "insensitive": [...]} (files whose verdict only one of the two readings gives) or None"""
    ci = "patterns-case-insensitive"
    others = [d for d in app if d != ci]
    for n in range(len(others) + 1):
        for base in itertools.combinations(others, n):
            sens = {f: model.verdict(cfg, f, base, judged.get(f)) for f in universe}
            ins = {f: model.verdict(cfg, f, base + (ci,), judged.get(f)) for f in universe}
            if not all(observed[f] in (sens[f][0], ins[f][0]) for f in universe):
                continue
            differ = [f for f in universe if sens[f][0] != ins[f][0]]
            as_sens = [f for f in differ if observed[f] == sens[f][0]]
            as_ins = [f for f in differ if observed[f] == ins[f][0]]
            if as_sens and as_ins:
                row = lambda f: {"file": f, "deciding_clause": (sens[f] if sens[f][0] else ins[f])[1], "reported": observed[f]}
                return {"other_deviations": list(base), "sensitive": [row(f) for f in as_sens[:4]], "insensitive": [row(f) for f in as_ins[:4]]}
    return None


def check(case) -> Case:
    cfg, files = case["cfg"], case["files"]
    inv = case.get("invoke", {"mode": "dot"})
    carrier = case.get("carrier", "yaml")
    r, reported, universe, judged, extra = _run(case)
    failures = []
    labels = [f"carrier={carrier}", f"invoke={inv['mode']}", f"dirkeys={len(cfg.get('directories', {}))}"]
    for k in ("global_deny", "global_patterns"):
        if k in cfg:
            labels.append(f"has:{k}")
    key = h([model.normalized(cfg)])
    bad = model.invalid_patterns(cfg)
    detail0 = {"rules": cfg, "files": files, **extra}
    if bad:
        labels.append("invalid-pattern:" + bad[0][0])
        if r.exit != 2:
            failures.append(Failure(f"invalid-pattern-accepted|{bad[0][0]}|{carrier}", {**detail0, "invalid": bad, "exit": r.exit, "stdout": r.stdout[:300], "swallowed": r.swallowed[:2]}))
        return Case(key=key, nontrivial=True, labels=labels, failures=failures)
    allow_dict = any(where.endswith("allow") and isinstance(i, dict) for where, i in _allow_items_of(cfg))
    if allow_dict:
        labels.append("allow-item-mapping")
        if r.exit == 0 and r.swallowed and all(s["exc_type"] == "TypeError" for s in r.swallowed):
            failures.append(Failure("dev:allow-item-mapping-crash", {**detail0, "exit": r.exit, "swallowed": r.swallowed[:2]}))
            return Case(key=key, nontrivial=False, labels=labels, failures=failures)
    if r.exit not in (0, 1) or r.exception or r.swallowed:
        failures.append(Failure("anomaly|run|" + (r.swallowed[0]["exc_type"] if r.swallowed else f"exit{r.exit}"),
                                {**detail0, "exit": r.exit, "stderr": r.stderr[-400:], "swallowed": r.swallowed[:2], "exc": r.exception}))
        return Case(key=key, nontrivial=False, labels=labels, failures=failures)
    if (r.exit == 1) != bool(reported):
        failures.append(Failure("anomaly|exit-code", {**detail0, "exit": r.exit, "reported": sorted(reported)}))
    for f in reported:
        if f not in universe and f not in CARRIER_FILES:
            failures.append(Failure("anomaly|verdict-for-file-outside-the-requested-paths", {**detail0, "file": f, "violations": reported[f]}))
        for v in reported[f]:
            if not v["rule_id"].startswith("file-placement"):
                failures.append(Failure("anomaly|foreign-rule", {**detail0, "violation": v}))
    observed = {f: f in reported for f in universe}
    spec = {f: model.verdict(cfg, f) for f in universe}
    n_rep = sum(1 for f in universe if spec[f][0])
    for f in universe:
        labels.append("clause=" + spec[f][1])
    keys = list(cfg.get("directories", {}))
    nested = any(a != b and b.startswith(a + "/") for a in keys for b in keys)
    overlap = any(_clause_overlap(cfg, f) for f in universe)
    global_in_play = ("global_deny" in cfg or "global_patterns" in cfg) and any(model.covering_key(cfg, f) is None for f in universe)
    nontrivial = 0 < n_rep < len(universe) and (nested or overlap or global_in_play)
    if nested:
        labels.append("nested-keys")
    if overlap:
        labels.append("allow/deny-overlap")
    if global_in_play:
        labels.append("global-in-play")
    for f in universe:
        if model.verdict(cfg, f, ("patterns-case-insensitive",))[0] != spec[f][0]:
            labels.append("letter-case-decides:" + spec[f][1])
    wrong = [f for f in universe if observed[f] != spec[f][0]]
    if wrong:
        explained = None
        app = [d for d in DEVIATIONS if d != "relative-path-as-given" or inv["mode"] == "subdir"]
        for devs in deviation_sets("C18", app):
            if all(model.verdict(cfg, f, devs, judged.get(f))[0] == observed[f] for f in universe):
                explained = devs
                break
        f0 = wrong[0]
        detail = {**detail0, "mismatches": [{"file": f, "expected_reported": spec[f][0], "deciding_clause": spec[f][1], "observed_violations": reported.get(f, [])} for f in wrong[:6]]}
        if explained:
            for d in explained:
                failures.append(Failure(f"dev:{d}", detail))
        else:
            mixed = _mixed_case_handling(cfg, universe, judged, observed, app)
            if mixed:
                detail["case_handling"] = mixed
                failures.append(Failure("case-handling-inconsistent|case-sensitive-at:" + "+".join(sorted({m["deciding_clause"] for m in mixed["sensitive"]})), detail))
            else:
                kind = "missing" if spec[f0][0] else "extra"
                failures.append(Failure(f"{kind}|{spec[f0][1]}", detail))
    return Case(key=key, nontrivial=nontrivial, labels=labels, failures=failures)


# ------------------------------------------------------------------------------------ exhaustive sub-spaces


def _subsets(alphabet, max_size):
    out = []
    for n in range(0, max_size + 1):
        out += [list(c) for c in itertools.combinations(alphabet, n)]
    return out


def _rules(max_size):
    """all directory rules with allow/deny absent or a non-empty list of <= max_size patterns"""
    opts = [None] + [s for s in _subsets(EX_PATTERNS, max_size) if s]
    out = []
    for a in opts:
        for d in opts:
            r = {}
            if a is not None:
                r["allow"] = a
            if d is not None:
                r["deny"] = d
            out.append(r)
    return out


def _dir_configs(max_keys, max_size):
    rules = _rules(max_size)
    out = [{}]
    for n in range(1, max_keys + 1):
        for keys in itertools.combinations(EX_KEYS, n):
            for rs in itertools.product(rules, repeat=n):
                out.append({"directories": dict(zip(keys, rs))})
    return out


def _global_configs():
    gl = [r".*\.py$", r"^src/"]
    opts = [None] + [[p] for p in gl]
    out = []
    for gd in opts:
        for ga in opts:
            for gdn in opts:
                c = {}
                if gd is not None:
                    c["global_deny"] = gd
                gp = {}
                if ga is not None:
                    gp["allow"] = ga
                if gdn is not None:
                    gp["deny"] = gdn
                if gp:
                    c["global_patterns"] = gp
                out.append(c)
    return out


def _case_space():
    """letter case x list site x list length: every list site (directory allow / deny, global_deny, global_patterns allow /
    deny) with lists of 1, 2 and 3 of the EC patterns, two sites side by side: (a) two directory rules, (b) one directory
    rule or none + the global lists"""
    p0, p1, p2 = EC_PATTERNS
    allow = [None, [p0], [p1], [p0, p1], [p1, p2], [p0, p1, p2]]
    deny = [None, [p0], [p2], [p0, p1]]
    rules = [{**({"allow": a} if a is not None else {}), **({"deny": d} if d is not None else {})} for a in allow for d in deny]
    out = [{"directories": {"src": r1, "lib": r2}} for r1 in rules for r2 in rules]
    for d in [{}] + [{"directories": {"src": r}} for r in rules if r]:
        for gd in [None, [p0], [p2], [p0, p1]]:
            for ga in allow:
                for gdn in deny[:3]:
                    c = dict(d)
                    if gd is not None:
                        c["global_deny"] = gd
                    gp = {**({"allow": ga} if ga is not None else {}), **({"deny": gdn} if gdn is not None else {})}
                    if gp:
                        c["global_patterns"] = gp
                    if gd is not None or gp:
                        out.append(c)
    return out


def exhaustive_space(name):
    if name == "EC":
        return _case_space()
    if name == "E0":  # <=1 directory key, <=1 pattern per list, x 27 global configurations
        return [{**d, **g} for d in _dir_configs(1, 1) for g in _global_configs()]
    if name == "E1":  # <=2 directory keys, <=2 patterns per list, no global rules
        return _dir_configs(2, 2)
    if name == "E2":  # <=2 directory keys, <=1 pattern per list, x 27 global configurations
        return [{**d, **g} for d in _dir_configs(2, 1) for g in _global_configs()]
    raise KeyError(name)


EX_DESCR = {
    "E0": "all rule sets: <=1 directory key of {src, src/api, tests, lib}, allow/deny absent or 1 pattern of 3, x global_deny / global_patterns.allow / .deny each absent or 1 pattern of 2; fixed 17-file tree",
    "E1": "all rule sets: <=2 directory keys of {src, src/api, tests, lib}, allow/deny absent or 1-2 patterns of 3, no global rules; fixed 17-file tree",
    "EC": "letter case x list site x list length: two directory rules (src, lib), each allow absent or one of 5 lists of 1-3 patterns, deny absent or one of 3 lists of 1-2 patterns; and <=1 directory rule x global_deny x global_patterns.allow x .deny over the same lists; the 3 patterns and the fixed 18-file tree (root, src/, lib/ x a.py A.PY notes.md NOTES.MD Notes.txt data.json) agree exactly, in letter case only, or not at all",
    "E2": "all rule sets: <=2 directory keys of 4, allow/deny absent or 1 pattern of 3, x 27 global configurations; fixed 17-file tree",
}


def run(ctx):
    def matrix(name):
        space = exhaustive_space(name)
        mine = ctx.my_cells(space)
        cells = [{"cfg": c, "files": EC_TREE if name == "EC" else FIXED_TREE, "carrier": "yaml", "invoke": {"mode": "dot"}} for c in mine]
        done = ctx.each(cells, check)
        ctx.stats.extra.setdefault("matrix", {})[f"{name}: {EX_DESCR[name]}"] = {"cells": len(mine), "done": done}

    # the two small finite matrices first: on an overloaded machine the budget then cuts sampled examples, not enumerated cells
    for name in ("E0", "EC"):
        matrix(name)
    ctx.explore(cases(), check, max_examples=ctx.n(350, 1500))
    for name in ([] if ctx.quick else ["E1", "E2"]):
        matrix(name)
    ctx.stats.extra["exhaustive_subspaces"] = "bounded rule-set spaces " + ("E0, EC" if ctx.quick else "E0, EC, E1, E2") + " (see matrix) against one fixed tree; everything else is sampled"


def replay(case) -> Case:
    return check(case)
