"""C19 - every linter honours its documented examples, wherever they are embedded.

Corpus: corpus/c19/<page>.json (built by tools/c19_build_corpus.py from a curated, conservative reading of every
docs/*-linter.md; each entry carries provenance, role, documented occurrences, stated configuration, completion
marks; every excluded fence carries its reason). At run time every entry is re-located in $VERIF_REPO/docs by
heading + fence index and compared with the stored text; entries whose text is gone are counted as stale and skipped.

Oracle (from the statement): violating example => the linter's command (Linter.lint for cqs) reports the documented
rule id exactly once per documented occurrence, at the occurrence line; acceptable/refactored example => no violation
of that linter's rule ids anywhere in the example. For the pattern linters the same holds for every copy of the example
under an embedding drawn by Hypothesis (scope, indentation, filler before/after, 1..3 copies with locally bound
identifiers renamed), restricted per linter to scopes that cannot themselves create or remove the pattern (SCOPES).
The new identifiers of a renaming come in every usual shape (E.STYLES: snake suffix `result_x`, camelCase `resultX`,
PascalCase `XResult`, snake prefix `x_result`, upper case `RESULT_X`, opaque fresh name `qx2`): the shape is drawn with every
embedding, and every embeddable entry is additionally run once per shape with nothing but the renaming applied (exhaustive).
"""
from __future__ import annotations

import fnmatch
import glob
import json
import os
from collections import Counter

from hypothesis import strategies as st

from vf import runner
from vf.engine import VERIF, Case, Failure, h
from vf.gen import c19_embed as E
from vf.oracle.c19_docs import parse_fences, slug
from vf.project import Project

ID = "C19"
TECHNIQUE = ("exhaustive enumeration of a committed corpus of documented examples (with provenance) x Hypothesis-drawn embeddings "
             "(scope, indentation, position, multiplicity, renaming) against the documented verdicts")
RULE = (
    "case = (corpus entry, embedding|None). Every non-excluded corpus entry is run once as documented (files, names and "
    "configuration the page states; fragments completed minimally and marked); for the pattern linters each embeddable entry "
    "is additionally run under Hypothesis-drawn embeddings: enclosing scope chain (0-2 of function/method/class/if/try/with/for, "
    "per linter only scopes that cannot create or remove the pattern), indent width, filler before/after outside and inside the "
    "scope, 1-3 copies with locally bound identifiers renamed, the new identifiers shaped as one of snake suffix / camelCase / PascalCase / "
    "snake prefix / UPPER_CASE / opaque fresh name; plus the exhaustive matrix embeddable entry x identifier shape with only the "
    "renaming applied. Non-trivial: an embedding different from the identity, or an as-is "
    "entry with role 'violating' (a positive expectation). Distinct = (corpus entry, embedding class = scope chain, copies, "
    "filler positions, renamed?, identifier shape)."
)
ASSUMPTIONS = [
    "the curated reading of the docs (role, occurrence lines, configuration) in corpus/c19 is what the pages say; every judgement and exclusion is recorded there with its basis",
    "where a page contradicts itself about an occurrence's line (message block vs. shown code) either line is accepted",
    "'Before' blocks of refactoring sections are not judged unless the page says the linter reports them; other rule ids of the same linter on a violating example are not judged",
    "examples run with no configuration unless the page states one for the example (max=3, allow_expect: false, detect_isinstance, dry enabled ...); single-file examples use a neutral file name",
    "renaming only touches module-level function/class names, parameters and locals (never builtins, attributes, methods, callees, imported names, keyword names; never verbose/log names for improper-logging); "
    "a new identifier keeps the old one's leading underscores, and the shape falls back to the snake suffix where it would merge two names of the example",
    "an embedding is only judged when the same entry behaves as documented without embedding",
    "in-process CLI (click CliRunner) equals a fresh process; cross-checked on the first cases of every run",
]
BUDGET_S = {"quick": 110, "thorough": 1300}

CORPUS_DIR = os.path.join(VERIF, "corpus", "c19")
DOCS_DIR = os.path.join(runner.REPO, "docs")
LANG_EMBED = {"python", "typescript", "javascript"}

# per linter: scopes that cannot themselves create or remove the pattern (python, ts/js), keep-regex for renaming,
# whether the file header must stay on top, max copies.
SCOPES = {
    # no enclosing `if __name__ == "__main__"` is ever generated; any other block may hold a print / verbose guard
    "improper-logging": {"py": ["function", "method", "class", "if", "try", "with", "for"], "ts": ["function", "arrow", "method", "block", "if", "try", "for"], "keep": r"(?i)verbose|debug|log"},
    "print-statements": {"py": ["function", "method", "class", "if", "try", "with", "for"], "ts": ["function", "arrow", "method", "block", "if", "try", "for"], "keep": r"(?i)verbose|debug|log"},
    # class-level examples: only nested in another class or function/blocks
    "method-property": {"py": ["function", "method", "class", "if", "try", "with", "for"], "class_kinds": {"ClassDef"}},
    "stateless-class": {"py": ["function", "method", "class", "if", "try", "with", "for"], "class_kinds": {"ClassDef"}},
    # no enclosing loop for pipeline and perf
    "collection-pipeline": {"py": ["function", "method", "if", "try", "with"]},
    "performance": {"py": ["function", "method", "if", "try", "with"], "ts": ["function", "arrow", "method", "block", "if", "try"]},
    "lbyl": {"py": ["function", "method", "if", "try", "with", "for"]},
    "stringly-typed": {"py": ["function", "method", "if", "try", "with", "for"], "ts": ["function", "arrow", "method", "block", "if", "try", "for"]},
    # examples are functions: an enclosing function would make the example a nested function (whose statements the docs do
    # not assign to either function), so only classes and plain blocks
    "cqs": {"py": ["class", "if", "try", "with", "for"], "ts": ["block", "if", "try", "for"]},
    "lazy-ignores": {"py": ["function", "method", "class", "if", "try", "with", "for"], "ts": ["function", "arrow", "method", "block", "if", "try", "for"], "header": True},
    # the header is a property of the file: only filler after it / renaming in the code below it
    "file-header": {"py": [], "ts": [], "header": True, "maxk": 1},
}
DEF_KINDS = {"FunctionDef", "AsyncFunctionDef", "ClassDef"}
# linters whose pattern is a statement: when the documented example is one function, its statements may additionally sit
# inside one more block of that function (never a loop for perf/pipeline; never for linters that judge the function's own
# shape: cqs, method-property)
INNER = {
    "performance": ["if", "try", "with"], "collection-pipeline": ["if", "try", "with"],
    "improper-logging": ["if", "try", "with", "for"], "print-statements": ["if", "try", "with", "for"],
    "lbyl": ["if", "try", "with", "for"], "stringly-typed": ["if", "try", "with", "for"],
}


# --------------------------------------------------------------------------------------------- corpus loading

_STATE = {}


def load():
    if _STATE:
        return _STATE
    entries, excluded, stale, relocated = {}, 0, [], 0
    pages = {}
    curated = set()
    for path in sorted(glob.glob(os.path.join(CORPUS_DIR, "*.json"))):
        doc = json.load(open(path, encoding="utf-8"))
        mdpath = os.path.join(DOCS_DIR, doc["doc"])
        fences = parse_fences(open(mdpath, encoding="utf-8").read()) if os.path.exists(mdpath) else []
        pages[doc["doc"]] = fences
        by_addr = {(f.heading, f.index): f for f in fences}
        for e in doc["entries"]:
            ok = True
            for fr in e["fences"]:
                f = by_addr.get((fr["heading"], fr["index"]))
                if f is not None and f.code == fr["code"]:
                    curated.add((doc["doc"], f.heading, f.index))
                    continue
                alt = [g for g in fences if g.code == fr["code"]]
                if alt:
                    relocated += 1
                    curated.add((doc["doc"], alt[0].heading, alt[0].index))
                    continue
                ok = False
            if e["role"] == "excluded":
                excluded += 1
                continue
            if not ok:
                stale.append(e["id"])
                continue
            entries[e["id"]] = e
    code_langs = {"python", "typescript", "javascript", "rust", "markdown", "css"}
    uncurated = sum(1 for d, fs in pages.items() for f in fs if f.lang in code_langs and (d, f.heading, f.index) not in curated)
    docs_now = {os.path.basename(p) for p in glob.glob(os.path.join(DOCS_DIR, "*-linter.md"))}
    _STATE.update({"entries": entries, "excluded": excluded, "stale": stale, "relocated": relocated, "uncurated": uncurated,
                   "pages_without_corpus": sorted(docs_now - set(pages))})
    return _STATE


# --------------------------------------------------------------------------------------------- preparing files


def prepare(entry):
    """-> list of {path, lines[list[str]], map{fence_line(1-based) -> 0-based file line}, extra(set of 0-based completion lines)}"""
    out = []
    for fl in entry["files"]:
        code = entry["fences"][fl["fence"]]["code"].split("\n")
        a, b = fl["lines"]
        body = code[a - 1:b]
        for old, new in fl.get("subst", []):
            body = [ln.replace(old, new) for ln in body]
        pre = list(fl.get("pre", []))
        ind = " " * fl.get("indent", 0)
        lines = pre + [ind + ln if ln.strip() else ln for ln in body] + list(fl.get("post", []))
        m = {a + i: len(pre) + i for i in range(len(body))}
        extra = set(range(len(pre))) | set(range(len(pre) + len(body), len(lines)))
        out.append({"path": fl["path"], "lines": lines, "map": m, "extra": extra})
    return out


def embeddable(entry):
    """-> None or dict(meta) describing the allowed embeddings of a pattern-linter entry."""
    if not entry.get("embed") or entry["lang"] not in LANG_EMBED:
        return None
    tab = SCOPES.get(entry["linter"])
    if tab is None:
        return None
    py = entry["lang"] == "python"
    files = prepare(entry)
    allowed = list(tab.get("py" if py else "ts", []))
    need_fn = False
    for f in files:
        text = "\n".join(f["lines"])
        if py:
            stt = E.py_status(text)
            if stt == "unparsable":
                return None
            need_fn = need_fn or stt == "needs-function"
            kinds = E.py_top_kinds(text)
            if "class" in allowed and not kinds <= tab.get("class_kinds", DEF_KINDS):
                allowed.remove("class")
        elif E.ts_module_only(text):
            allowed = []
    if entry.get("scopes") == ["module"]:
        allowed = []
    if need_fn and "function" not in allowed:
        return None
    inner = INNER.get(entry["linter"], []) if py and entry.get("scopes") != ["module"] else []
    return {"inner": inner, "allowed": allowed, "need_fn": need_fn, "maxk": tab.get("maxk", 3), "keep": tab.get("keep"), "header": bool(tab.get("header")),
            "no_before": entry["linter"] == "file-header"}


@st.composite
def embeddings(draw, meta):
    allowed = meta["allowed"]
    scope = draw(st.lists(st.sampled_from(allowed), max_size=2)) if allowed else []
    if meta["need_fn"] and (not scope or scope[-1] not in ("function", "method")):
        scope = scope[:1] + ["function"]
    k = draw(st.integers(1, meta["maxk"]))
    tags = [draw(st.sampled_from(["", "x", "alt"]))] + [t for t in ("b2", "c3")][: k - 1]
    return {
        "scope": scope,
        "indent": draw(st.sampled_from([4, 2, 8])),
        "k": k,
        "tags": tags,
        "before": 0 if meta["no_before"] else draw(st.integers(0, 2)),
        "after": draw(st.integers(0, 2)),
        "inner_before": draw(st.integers(0, 1)) if scope else 0,
        "inner_after": draw(st.integers(0, 1)) if scope else 0,
        "inner": draw(st.sampled_from([None, None] + meta["inner"])) if meta["inner"] else None,
        "guard": draw(st.sampled_from([None, "after"] if meta["no_before"] else [None, "before", "after"])),
        "rename": draw(st.sampled_from([None, "defs-only"])) if k > 1 else None,
        "style": draw(st.sampled_from(E.STYLES)),
    }


def rename_only(style):
    """The embedding that only renames: one copy where it stands, every locally bound identifier restyled."""
    return {"scope": [], "indent": 4, "k": 1, "tags": ["x"], "before": 0, "after": 0, "inner_before": 0, "inner_after": 0,
            "inner": None, "guard": None, "rename": None, "style": style}


def is_identity(emb):
    return emb is None or (not emb["scope"] and emb["k"] == 1 and not emb["tags"][0] and not emb.get("inner") and not emb.get("guard") and not (emb["before"] or emb["after"] or emb["inner_before"] or emb["inner_after"]))


# --------------------------------------------------------------------------------------------- running


def run_tool(entry, files_text):
    """files_text: {rel path: text} -> (violations [(rule, rel path, line)], anomalies)"""
    with Project(files_text, config=entry.get("config")) as p:
        paths = list(files_text)
        anomalies = []
        if entry.get("api"):
            vs = []
            with runner.capture_swallowed() as sw:
                linter = runner.fresh_linter(p.root, config_file=p.path(".thailint.yaml") if entry.get("config") else None)
                for rel in paths:
                    for v in linter.lint(p.path(rel), rules=["cqs"]):
                        vs.append((v.rule_id, runner.norm_path(str(v.file_path), p.root), v.line))
            if sw:
                anomalies.append({"swallowed": list(sw)})
            return vs, anomalies
        r = runner.run_cli([entry["cmd"], "--format", "json", *paths], cwd=p.root)
        if r.exit not in (0, 1) or r.exception or r.swallowed:
            anomalies.append({"exit": r.exit, "exception": r.exception, "swallowed": r.swallowed, "stderr": r.stderr[-400:], "stdout": r.stdout[-200:]})
            if r.exit not in (0, 1) or r.exception:
                return [], anomalies
        vs = [(v["rule_id"], runner.norm_path(v["file_path"], p.root, p.root), v["line"]) for v in r.violations]
        return vs, anomalies


def judge(entry, files, copies_per_file, observed):
    """files: prepared+embedded [{path, lines, extra}], copies_per_file[i] = list of maps fence_line -> 0-based file line.
    -> (kinds Counter -> details, other_rule_count, outside)"""
    fam = entry["family"]
    problems = []  # (kind, detail)
    other = 0
    outside = []
    doc_rules = sorted({e["rule"] for e in entry["expect"]})
    for fi, f in enumerate(files):
        obs = [(r, ln) for (r, path, ln) in observed if path == f["path"] and fnmatch.fnmatch(r, fam)]
        copies = copies_per_file[fi]
        whole_unjudged = any(u["file"] == fi and u["lines"] is None for u in entry["unjudged"])
        region = set()
        for m in copies:
            region |= {v + 1 for v in m.values()}
        unj = set()
        for u in entry["unjudged"]:
            if u["file"] == fi and u["lines"] is not None:
                for m in copies:
                    unj |= {m[x] + 1 for x in range(u["lines"][0], u["lines"][1] + 1) if x in m}
        for r, ln in list(obs):
            if ln not in region:
                obs.remove((r, ln))
                if (ln - 1) not in f["extra"]:
                    outside.append({"file": f["path"], "rule": r, "line": ln})
        if whole_unjudged:
            continue
        obs = [(r, ln) for r, ln in obs if ln not in unj]
        if entry["role"] != "violating":
            for r, ln in obs:
                problems.append(("extra", {"file": f["path"], "rule": r, "line": ln, "text": f["lines"][ln - 1].strip()[:120]}))
            continue
        missing = []
        for ci, m in enumerate(copies):
            for e in entry["expect"]:
                if e["file"] != fi:
                    continue
                if e["lines"] is None:
                    hit = [o for o in obs if fnmatch.fnmatch(o[0], e["rule"])]
                    if not hit:
                        missing.append({"file": f["path"], "rule": e["rule"], "lines": "any", "copy": ci})
                    obs = [o for o in obs if o not in hit]
                    continue
                if not all(x in m for x in e["lines"]):
                    continue  # header-resident occurrence: belongs to copy 0 only
                want = {m[x] + 1 for x in e["lines"]}
                hit = next((o for o in obs if fnmatch.fnmatch(o[0], e["rule"]) and o[1] in want), None)
                if hit is not None:
                    obs.remove(hit)
                else:
                    missing.append({"file": f["path"], "rule": e["rule"], "lines": sorted(want), "copy": ci,
                                    "text": f["lines"][min(want) - 1].strip()[:120]})
        extra_same = [o for o in obs if any(fnmatch.fnmatch(o[0], d) for d in doc_rules)]
        rest = [o for o in obs if o not in extra_same]
        for ms in missing:
            if isinstance(ms["lines"], list) and any(o[1] in ms["lines"] for o in rest):
                problems.append(("rule-id", {**ms, "observed_instead": [o for o in rest if o[1] in ms["lines"]]}))
                rest = [o for o in rest if o[1] not in ms["lines"]]
            elif any(fnmatch.fnmatch(o[0], ms["rule"]) for o in extra_same):
                problems.append(("line", {**ms, "observed_elsewhere": extra_same[:6]}))
            else:
                problems.append(("missing", ms))
        if not any(k == "line" for k, _ in problems):
            for r, ln in extra_same:
                problems.append(("extra", {"file": f["path"], "rule": r, "line": ln, "text": f["lines"][ln - 1].strip()[:120]}))
        elif len(extra_same) > sum(1 for k, _ in problems if k == "line"):
            problems.append(("extra", {"file": f["path"], "observed": extra_same[:8]}))
        other += len(rest)
    return problems, other, outside


def _below_class_member(emb):
    """The example sits below a class body but is not reached through directly nested classes only."""
    chain = []
    for s in emb["scope"]:
        chain += ["class", "function"] if s == "method" else [s]
    if "class" not in chain:
        return False
    return any(s != "class" for s in chain[chain.index("class") + 1:])


# categorical refinements of embedding signatures (one per root cause seen on the tree; see notes/C19.md)
EMBED_FEATURE = {
    ("method-property", "missing"): lambda entry, emb: "class-below-class-member" if _below_class_member(emb) else None,
}


def emb_class(emb):
    if is_identity(emb):
        return "identity"
    return [emb["scope"], emb.get("inner"), emb["k"], bool(emb["before"]), bool(emb["after"]), bool(emb["inner_before"] or emb["inner_after"]), [bool(t) for t in emb["tags"]], emb.get("guard"), emb.get("rename"),
            emb.get("style") or "snake"]


def check(case) -> Case:
    state = load()
    entry = state["entries"].get(case["entry"])
    if entry is None:
        return Case(key=h(["stale", case["entry"]]), nontrivial=False, labels=["stale-or-unknown-entry"])
    emb = case.get("emb")
    linter = entry["linter"]
    sl = slug(entry["fences"][0]["heading"])
    labels = [f"linter={linter}", f"role={entry['role']}", f"lang={entry['lang']}"]
    failures = []
    files = prepare(entry)
    ident_copies = [[dict(f["map"])] for f in files]
    # maps are fence_line -> 0-based file line already
    observed, anomalies = run_tool(entry, {f["path"]: "\n".join(f["lines"]) + "\n" for f in files})
    for a in anomalies:
        failures.append(Failure(f"{linter}|{sl}|tool-error", {"entry": entry["id"], **a}))
    problems, other, _ = judge(entry, files, ident_copies, observed)
    if other:
        labels.append("other-rule-of-same-linter-reported")
    if entry.get("completion"):
        labels.append("completed-fragment")
    if entry.get("config"):
        labels.append("page-stated-config")
    if len(files) > 1:
        labels.append("multi-file")
    kinds = Counter(k for k, _ in problems)
    for kind in sorted(kinds):
        det = [d for k, d in problems if k == kind][:6]
        failures.append(Failure(f"{linter}|{sl}|{kind}", {
            "entry": entry["id"], "doc": entry["doc"], "heading": entry["fences"][0]["heading"], "role": entry["role"], "basis": entry.get("basis"),
            "config": entry.get("config"), "completion": entry.get("completion"), "mismatches": det,
            "observed": sorted(observed)[:20], "files": {f["path"]: "\n".join(f["lines"]) for f in files}}))
    labels.append("as-is-ok" if not problems and not anomalies else "as-is-disagrees")
    if is_identity(emb):
        labels.append("embedding=identity")
        nontrivial = entry["role"] == "violating"
        return Case(key=h([entry["id"], "identity"]), nontrivial=nontrivial, labels=labels, failures=failures)

    key = h([entry["id"], emb_class(emb)])
    if problems or anomalies:
        labels.append("embedding-skipped(as-is-disagrees)")
        return Case(key=key, nontrivial=False, labels=labels, failures=failures)
    meta = embeddable(entry)
    if meta is None:
        labels.append("embedding-skipped(not-embeddable)")
        return Case(key=key, nontrivial=False, labels=labels, failures=failures)
    efiles, copies_per_file = [], []
    renamed = inner_applied = False
    for f in files:
        out, copies, info = E.embed(f["lines"], entry["lang"], emb, keep=meta["keep"], keep_header=meta["header"])
        renamed = renamed or info["renamed"]
        inner_applied = inner_applied or info["inner_applied"]
        # copies map 0-based unit line -> 0-based file line; compose with fence map
        cps = [{fl: c[ul] for fl, ul in f["map"].items() if ul in c} for c in copies]
        extra = set()
        for c in copies:
            extra |= {c[u] for u in f["extra"] if u in c}
        efiles.append({"path": f["path"], "lines": out, "extra": extra})
        copies_per_file.append(cps)
        if entry["lang"] == "python" and not meta["need_fn"]:
            try:
                compile("\n".join(out) + "\n", f["path"], "exec")
            except SyntaxError as exc:
                if E.py_status("\n".join(f["lines"])) == "module-ok":
                    raise runner.HarnessError(f"C19 embedding produced invalid Python for {entry['id']}: {exc}\n" + "\n".join(out))
    observed2, anomalies2 = run_tool(entry, {f["path"]: "\n".join(f["lines"]) + "\n" for f in efiles})
    labels += [f"scope={'>'.join(emb['scope']) or 'module'}", f"k={emb['k']}", "renamed" if renamed else "not-renamed",
               "filler" if (emb["before"] or emb["after"] or emb["inner_before"] or emb["inner_after"]) else "no-filler", "guard-" + str(emb.get("guard")), "embedded"]
    if renamed:
        labels.append(f"rename-style={emb.get('style') or 'snake'}")
    if inner_applied:
        labels.append(f"inner-block={emb['inner']}")
    detail_base = {"entry": entry["id"], "doc": entry["doc"], "heading": entry["fences"][0]["heading"], "role": entry["role"], "embedding": emb,
                   "files": {f["path"]: "\n".join(f["lines"]) for f in efiles}}
    for a in anomalies2:
        failures.append(Failure(f"{linter}|embedding|tool-error", {**detail_base, **a}))
    problems2, _, outside = judge(entry, efiles, copies_per_file, observed2)
    kinds2 = Counter(k for k, _ in problems2)
    for kind in sorted(kinds2):
        feat = EMBED_FEATURE.get((linter, kind), lambda e, m: None)(entry, emb)
        failures.append(Failure(f"{linter}|embedding|{kind}" + (f"|{feat}" if feat else ""), {**detail_base, "mismatches": [d for k, d in problems2 if k == kind][:6], "observed": sorted(observed2)[:20]}))
    if outside:
        failures.append(Failure(f"{linter}|embedding|outside", {**detail_base, "violations_on_wrapper_or_filler_lines": outside[:6]}))
    return Case(key=key, nontrivial=True, labels=labels, failures=failures)


# --------------------------------------------------------------------------------------------- driver


def run(ctx):
    state = load()
    ids = sorted(state["entries"])
    ctx.stats.extra["corpus"] = {"entries": len(ids), "excluded_with_reason": state["excluded"], "stale": len(state["stale"]),
                                 "relocated": state["relocated"], "uncurated_code_fences_in_docs": state["uncurated"]}
    if state["stale"]:
        ctx.stats.notes.append("stale corpus entries (text no longer in docs): " + ", ".join(state["stale"][:20]))
    if state["pages_without_corpus"]:
        ctx.stats.notes.append("docs pages without corpus file: " + ", ".join(state["pages_without_corpus"]))
    if not ids:
        raise runner.HarnessError("C19: no corpus entry could be located in the docs")
    cells = [{"entry": i, "emb": None} for i in ids]
    mine = ctx.my_cells(cells)
    done = ctx.each(mine, check)
    ctx.stats.extra.setdefault("matrix", {})["corpus entries as documented (exhaustive)"] = {"cells": len(mine), "done": done}
    emb_ids = [i for i in ids if embeddable(state["entries"][i]) is not None]
    ctx.stats.extra["corpus"]["embeddable_entries"] = len(emb_ids)
    # every embeddable entry once under every identifier style, nothing else changed (one copy, in place, no filler)
    rcells = [{"entry": i, "emb": rename_only(sty)} for i in emb_ids for sty in E.STYLES]
    mine_r = ctx.my_cells(rcells)
    done_r = ctx.each(mine_r, check)
    ctx.stats.extra["matrix"]["embeddable entries x identifier style of the renaming (exhaustive)"] = {"cells": len(mine_r), "done": done_r}
    mine_e = ctx.my_cells(emb_ids)
    n = ctx.n(24, 400)
    for j, eid in enumerate(mine_e):
        if ctx.out_of_time():
            break
        meta = embeddable(state["entries"][eid])
        strat = embeddings(meta).map(lambda e, eid=eid: {"entry": eid, "emb": e})
        ctx.explore(strat, check, max_examples=n, salt=1 + j)
    ctx.stats.extra["matrix"]["embeddable entries x drawn embeddings"] = {"cells": len(mine_e), "done": len(mine_e) if not ctx.stats.truncated else j}


def replay(case) -> Case:
    return check(case)
