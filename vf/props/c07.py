"""C07 - --parallel reports exactly what the sequential run reports.

Three generated checks against one oracle (multiset of COMPLETE violation records of the
sequential run on a fresh orchestrator):
  sched   harness-owned schedule: ProcessPoolExecutor / as_completed in src.orchestrator.core are
          replaced by an executor that runs each worker's share in a real forked child (results
          pickled over a pipe) with a generated file->worker partition and a generated completion
          order of the futures;
  pool    the real ProcessPoolExecutor through Orchestrator.lint_files_parallel(files, max_workers=k);
  cli     `thailint <cmd> --parallel` vs. the same command without it, in real subprocesses
          (exit code and JSON multiset), file counts on both sides of 2 x workers.
"""
from __future__ import annotations

import os
import pickle
from collections import Counter
from concurrent.futures import Future
from pathlib import Path

from hypothesis import strategies as st

from vf import runner, seeds
from vf.engine import Case, Failure, h
from vf.project import Project, to_yaml

ID = "C07"
TECHNIQUE = "Hypothesis-generated projects x worker count x file->worker partition x completion order, with a harness-owned fork-per-worker executor; real process pool (library and CLI subprocess) as a second stage; oracle = sequential run on a fresh object, multiset of full records"
RULE = (
    "case = project of n files (per-file seeds of several rules in py/ts/js/rs + duplicate-code and repeated-string sets "
    "spanning files, lines with several findings equal in every reported field, non-code files with file-placement findings) x workers w in 1..16 x n in {2w-2,2w-1,2w,2w+1,3w} x partition of files over workers x completion "
    "permutation. Non-trivial: n >= 2w (parallel path taken), permutation not identity, sequential result has >=1 cross-file "
    "and >=1 per-file violation. Distinct = (kind, w, n-2w, rule families, inversion bucket, partition shape)."
)
ASSUMPTIONS = [
    "sched: a worker process is modelled as one forked child that handles its share of the files in submission order; "
    "which file goes to which worker and the completion order are generated (the real pool decides them at run time)",
    "order of violations is not compared (the statement says multiset)",
]
BUDGET_S = {"quick": 150, "thorough": 1500}

CROSS = ("dry.", "stringly-typed.")
LANGS = ("py", "ts", "js", "rs")


# ------------------------------------------------------------------------------ project


def build_files(case):
    """n files; file i carries seeds; the first `dup` files share a duplicate block, the first `sty` a string set."""
    files = {}
    n = case["n"]
    dup, sty = case["dup"], case["sty"]
    first = next(l for l in case["langs"] if l != "rs")
    same = [i for i in range(n) if case["langs"][i % len(case["langs"])] == first]
    dup_idx, sty_idx = set(same[:dup]), set(same[-sty:] if sty else [])
    for i in range(n):
        lang = case["langs"][i % len(case["langs"])]
        fams = seeds.families(lang)
        fams = [f for f in fams if f != "lazy"]
        parts = [seeds.filler(lang, 900 + i)]
        for j in range(case["per_file"]):
            fam = fams[(case["fam_off"] + i * 3 + j) % len(fams)]
            parts.append(seeds.seed(fam, lang, 100 + i * 4 + j, (i + j) % 3))
        text, _, _ = seeds.compose(lang, parts, header=False, gap=1)
        extra = []
        if lang != "rs":
            if i in dup_idx:
                blk = seeds.dry_block("py" if lang == "py" else lang, 77, 5)
                if lang == "py":
                    extra += ["", f"def host_77_{i}(src_77):", f"    first_77_{i} = begin_77_{i}(src_77)"] + blk + [f"    return finish_77_{i}(first_77_{i})"]
                else:
                    extra += ["", f"function host_77_{i}(src_77) {{", f"    const first_77_{i} = begin_77_{i}(src_77);"] + blk + [f"    return finish_77_{i}(first_77_{i});", "}"]
            if i in sty_idx:
                if lang == "py":
                    extra += ["", f"def gate_78_{i}(env_78):", '    if env_78 in ("stage78", "prod78", "dev78"):', f"        return go_78_{i}(env_78)", "    return None"]
                else:
                    extra += ["", f"function gate_78_{i}(env_78) {{", '    if (env_78 === "stage78") {', f"        return go_78_{i}(env_78);", '    } else if (env_78 === "prod78") {',
                              f"        return stop_78_{i}(env_78);", "    }", "    return null;", "}"]
        if lang == "py":
            # the same local names in many files, once bound to a list and once to a string that is concatenated in a loop
            if i % 2 == 0:
                extra += ["", f"def collect_shared_{i}(items):", "    result = []", "    for it in items:", "        result.append(it)", "    return result"]
            else:
                extra += ["", f"def render_shared_{i}(items):", '    result = ""', "    for it in items:", "        result += str(it)", "    return result"]
        if i % 3 == 1:
            # several findings that are equal in every reported field (same rule, line, column 0, message): the result
            # is a multiset, and merging per-worker results must not collapse them
            m3 = 2600 + i
            if lang == "py":
                extra += ["", f"def trio_{i}(a):", f"    return [a, {m3}, {m3}, {m3}]"]
            elif lang == "rs":
                extra += ["", f"fn trio_{i}(a: i64) -> Vec<i64> {{", f"    vec![a, {m3}, {m3}, {m3}]", "}", "", f"fn trio_arr_{i}(a: i64) -> [i64; 4] {{", f"    [a, {m3}, {m3}, {m3}]", "}"]
            else:
                extra += ["", f"function trio_{i}(a) {{", f"    return [a, {m3}, {m3}, {m3}];", "}"]
        if i % 5 == 2:
            files[f"src/notes_{i}.txt"] = f"scratch note {i}\n"
        if i % 7 == 3:
            files[f"src/sub/table_{i}.csv"] = "a,b\n1,2\n"
        sub = "src/sub/" if i % 4 == 3 else "src/"  # every fourth file lives one directory deeper (recursive vs --no-recursive)
        files[f"{sub}f{i:02d}{seeds.EXT[lang]}"] = text + ("\n".join(extra) + "\n" if extra else "")
    return files


# non-code files carry findings too (file-placement is language-agnostic): they must survive the parallel path
# (nesting / srp / the ignore list: settings that reach a rule only through the configuration the orchestrator hands on - a
# worker that loads or receives something else reports differently)
CONFIG = {"dry": {"enabled": True, "min_duplicate_lines": 3}, "nesting": {"max_nesting_depth": 9}, "srp": {"max_methods": 2, "max_loc": 2000},
          "ignore": ["src/f01.*"],
          "file-placement": {"global_deny": [{"pattern": r".*notes_[0-9]+\.txt$", "reason": "no scratch notes"}, {"pattern": r".*\.csv$", "reason": "no data files"}]}}


def record(v):
    d = runner.vdict(v) if not isinstance(v, dict) else v
    return (d["rule_id"], d["file_path"], d["line"], d["column"], d["message"], d.get("severity"), d.get("suggestion"))


# ------------------------------------------------------------------------------ scheduled executor


class _Sched:
    """Replacement for ProcessPoolExecutor + as_completed inside src.orchestrator.core."""

    def __init__(self, partition, order):
        self.partition = partition  # item index -> worker index
        self.order = order  # completion order of item indices
        self.items = []
        self.futures = []
        self.max_workers_seen = None

    # executor protocol
    def __call__(self, max_workers=None):
        self.max_workers_seen = max_workers
        return self

    def __enter__(self):
        return self

    def __exit__(self, *a):
        return False

    def submit(self, fn, item):
        f = Future()
        self.items.append((fn, item))
        self.futures.append(f)
        return f

    def _run_worker(self, idxs):
        """One forked child handles items idxs in order; returns {idx: ('ok', result) | ('err', repr)}."""
        r, w = os.pipe()
        pid = os.fork()
        if pid == 0:
            try:
                os.close(r)
                out = {}
                for i in idxs:
                    fn, item = self.items[i]
                    try:
                        out[i] = ("ok", fn(item))
                    except BaseException as e:  # noqa
                        out[i] = ("err", repr(e))
                with os.fdopen(w, "wb") as fh:
                    pickle.dump(out, fh)
            finally:
                os._exit(0)
        os.close(w)
        with os.fdopen(r, "rb") as fh:
            data = fh.read()
        os.waitpid(pid, 0)
        return pickle.loads(data) if data else {i: ("err", "worker died") for i in idxs}

    def as_completed(self, futures):
        # the code under test decides which futures it waits for; one it does not pass in is simply never yielded (and the
        # comparison with the sequential run shows what that loses)
        wanted = {id(f) for f in futures}
        by_worker = {}
        for i in range(len(self.items)):
            by_worker.setdefault(self.partition[i % len(self.partition)], []).append(i)
        results = {}
        for wk in sorted(by_worker):
            results.update(self._run_worker(by_worker[wk]))
        order = [i for i in self.order if i < len(self.items)] + [i for i in range(len(self.items)) if i not in self.order]
        for i in order:
            kind, val = results[i]
            if kind == "ok":
                self.futures[i].set_result(val)
            else:
                self.futures[i].set_exception(RuntimeError(val))
            if id(self.futures[i]) in wanted:
                yield self.futures[i]


# ------------------------------------------------------------------------------ checks


def compare(seq, par, kind, case, files):
    """-> failures; cross-file loss is classified separately so it can be a known finding."""
    a, b = Counter(map(record, seq)), Counter(map(record, par))
    if a == b:
        return []
    missing, extra = a - b, b - a
    fails = []

    def is_cross(k):
        return k[0].startswith(CROSS)

    m_cross = [k for k in missing.elements() if is_cross(k)]
    m_per = [k for k in missing.elements() if not is_cross(k)]
    e_cross = [k for k in extra.elements() if is_cross(k)]
    e_per = [k for k in extra.elements() if not is_cross(k)]
    detail = {"kind": kind, "w": case["w"], "n": case["n"], "files": sorted(files)}
    if m_cross:
        all_cross = [k for k in a.elements() if is_cross(k)]
        # fields-differ: same (rule,file,line) present but another field changed
        ids = {k[:3] for k in b.elements()}
        if any(k[:3] in ids for k in m_cross):
            fails.append(Failure(f"{kind}|cross-file|field-differs", {**detail, "missing": m_cross[:4], "extra": e_cross[:4]}))
        elif len(m_cross) == len(all_cross):
            fails.append(Failure(f"{kind}|cross-file|all-missing", {**detail, "missing": m_cross[:4], "n_missing": len(m_cross)}))
        else:
            fails.append(Failure(f"{kind}|cross-file|some-missing", {**detail, "missing": m_cross[:4], "n_missing": len(m_cross), "n_expected": len(all_cross)}))
    elif e_cross:
        fails.append(Failure(f"{kind}|cross-file|extra", {**detail, "extra": e_cross[:4]}))
    if m_per or e_per:
        ids = {k[:3] for k in e_per}
        if any(k[:3] in ids for k in m_per):
            fails.append(Failure(f"{kind}|per-file|field-differs", {**detail, "missing": m_per[:4], "extra": e_per[:4]}))
        elif m_per:
            fails.append(Failure(f"{kind}|per-file|missing", {**detail, "missing": m_per[:4], "n_missing": len(m_per)}))
        else:
            fails.append(Failure(f"{kind}|per-file|extra", {**detail, "extra": e_per[:4]}))
    return fails


def inversions(p):
    return sum(1 for i in range(len(p)) for j in range(i + 1, len(p)) if p[i] > p[j])


def check(case) -> Case:
    import src.orchestrator.core as core

    kind = case["kind"]
    files = build_files(case)
    failures, labels = [], [f"kind={kind}", f"w={case['w']}", f"n-2w={case['n'] - 2 * case['w']}"]
    with Project(files, config=CONFIG) as p:
        paths = [Path(p.path(rel)) for rel in sorted(files)]
        if case.get("shuffle_args"):
            paths = [paths[i % len(paths)] for i in case["order"] if i < len(paths)] + [q for k, q in enumerate(paths) if k not in case["order"]]
        seq_orch = runner.fresh_orchestrator(p.root)
        with runner.capture_swallowed() as sw0:
            seq = seq_orch.lint_files(list(paths))
        seq = [runner.vdict(v) for v in seq]
        has_cross = any(v["rule_id"].startswith(CROSS) for v in seq)
        has_per = any(not v["rule_id"].startswith(CROSS) for v in seq)
        parallel_taken = case["n"] >= 2 * case["w"]
        labels += ["parallel-path" if parallel_taken else "sequential-fallback", "cross" if has_cross else "no-cross"]
        dir_mode = case.get("dir_mode")  # None | "recursive" | "flat": directory entry points instead of a file list
        if dir_mode:
            rec = dir_mode == "recursive"
            seq_orch = runner.fresh_orchestrator(p.root)
            seq = [runner.vdict(v) for v in seq_orch.lint_directory(Path(p.path("src")), recursive=rec)]
            has_cross = any(v["rule_id"].startswith(CROSS) for v in seq)
            has_per = any(not v["rule_id"].startswith(CROSS) for v in seq)
            labels.append(f"dir-{dir_mode}")

        def parallel_call(orch):
            if dir_mode:
                return orch.lint_directory_parallel(Path(p.path("src")), recursive=(dir_mode == "recursive"), max_workers=case["w"])
            return orch.lint_files_parallel(list(paths), max_workers=case["w"])

        if kind == "sched":
            sched = _Sched(case["partition"], case["order"])
            old_pool, old_ac = core.ProcessPoolExecutor, core.as_completed
            core.ProcessPoolExecutor, core.as_completed = sched, sched.as_completed
            try:
                orch = runner.fresh_orchestrator(p.root)
                with runner.capture_swallowed() as sw:
                    par = parallel_call(orch)
            finally:
                core.ProcessPoolExecutor, core.as_completed = old_pool, old_ac
            par = [runner.vdict(v) for v in par]
            if sw:
                failures.append(Failure("sched|swallowed-failure", {"swallowed": sw[:3]}))
            parallel_taken = bool(sched.items)  # measured, not assumed: the threshold is the tool's own business
            failures += compare(seq, par, "sched", case, files)
        elif kind == "pool":
            orch = runner.fresh_orchestrator(p.root)
            with runner.capture_swallowed() as sw:
                par = parallel_call(orch)
            par = [runner.vdict(v) for v in par]
            if sw:
                failures.append(Failure("pool|swallowed-failure", {"swallowed": sw[:3]}))
            failures += compare(seq, par, "pool", case, files)
        elif kind == "cli":
            cmd = case["cmd"]
            target = ["src"] if case.get("dir_target") else [os.path.relpath(str(q), p.root) for q in paths]
            opts = ["--no-recursive"] if case.get("dir_target") and case.get("flat") else []
            if opts:
                labels.append("--no-recursive")
            alt = case.get("alt_config")
            if alt:
                # an explicitly named configuration file that says something else than the project's own .thailint.yaml (empty,
                # or other thresholds): both runs must follow the named file, workers included
                p.write("alt-config.yaml", {"empty": "# nothing configured here\n", "other": to_yaml({"nesting": {"max_nesting_depth": 1}, "srp": {"max_methods": 50}})}[alt])
                opts = ["--config", "alt-config.yaml"] + opts
                labels.append(f"explicit-config={alt}")
            r1 = runner.run_cli_sub([cmd, "--format", "json", *opts, *target], cwd=p.root)
            r2 = runner.run_cli_sub([cmd, "--format", "json", "--parallel", *opts, *target], cwd=p.root)
            labels.append(f"cmd={cmd}")
            if r1.exit not in (0, 1) or r2.exit not in (0, 1):
                failures.append(Failure(f"cli|{cmd}|bad-exit", {"seq_exit": r1.exit, "par_exit": r2.exit, "stderr": r2.stderr[-400:]}))
            else:
                if r2.swallowed:
                    failures.append(Failure(f"cli|{cmd}|swallowed-failure", {"swallowed": r2.swallowed[:3]}))
                s1 = [{**v, "suggestion": None} for v in r1.violations]
                s2 = [{**v, "suggestion": None} for v in r2.violations]
                fs = compare(s1, s2, "cli", case, files)
                if not fs and r1.exit != r2.exit:
                    fs = [Failure(f"cli|{cmd}|exit-differs", {"seq_exit": r1.exit, "par_exit": r2.exit})]
                failures += fs
                has_cross = any(v["rule_id"].startswith(CROSS) for v in s1)
                has_per = any(not v["rule_id"].startswith(CROSS) for v in s1)
                # default worker count of the CLI = min(8, cpu_count)
                parallel_taken = case["n"] >= 2 * min(8, os.cpu_count() or 1)
    perm_nontrivial = kind != "sched" or inversions([i for i in case["order"] if i < case["n"]]) > 0
    nontrivial = parallel_taken and perm_nontrivial and (has_cross or kind == "cli") and (has_per or kind == "cli")
    inv = inversions([i for i in case["order"] if i < case["n"]])
    key = h([kind, case["w"], case["n"] - 2 * case["w"], case["langs"], case["dup"], case["sty"], min(inv, 50) // 5,
             len(set(case.get("partition", []))), case.get("cmd")])
    return Case(key=key, nontrivial=nontrivial, labels=labels, failures=failures)


# ------------------------------------------------------------------------------ strategies


@st.composite
def sched_cases(draw, kind="sched", max_w=16):
    w = draw(st.integers(1, max_w))
    # both sides of the 2 x workers threshold, and file counts far above it (many files per worker,
    # counts that are not a multiple of the worker count or of any batch size)
    n = draw(st.one_of(st.sampled_from([2 * w - 2, 2 * w - 1, 2 * w, 2 * w + 1, 3 * w]),
                       st.sampled_from([4 * w + 1, 8 * w + 1, 9 * w, 12 * w + 5, 16 * w + 3]),
                       st.integers(2, 64)))
    n = max(2, min(n, 64))
    langs = draw(st.lists(st.sampled_from(LANGS), min_size=1, max_size=4, unique=True))
    if "py" not in langs and "ts" not in langs and "js" not in langs:
        langs.append(draw(st.sampled_from(["py", "ts", "js"])))
    non_rs = [i for i in range(n) if langs[i % len(langs)] != "rs"]
    dup = draw(st.integers(2, max(2, min(4, n))))
    sty = draw(st.integers(0, min(3, n)))
    order = draw(st.permutations(list(range(n))))
    partition = draw(st.lists(st.integers(0, w - 1), min_size=n, max_size=n))
    return {"kind": kind, "w": w, "n": n, "langs": langs, "per_file": draw(st.integers(1, 2)), "fam_off": draw(st.integers(0, 10)),
            "dup": dup, "sty": sty, "order": list(order), "partition": partition, "shuffle_args": draw(st.booleans()),
            "dir_mode": draw(st.sampled_from([None, None, "recursive", "flat"]))}


CLI_CMDS = ["nesting", "srp", "magic-numbers", "dry", "stringly-typed", "improper-logging", "print-statements", "method-property",
            "stateless-class", "pipeline", "lbyl", "perf", "string-concat-loop", "regex-in-loop", "unwrap-abuse", "clone-abuse",
            "blocking-async", "file-header", "file-placement", "lazy-ignores"]


def cli_cells(seed):
    cells = []
    for i, cmd in enumerate(CLI_CMDS):
        for n in (15, 16, 17, 24, 65):
            cells.append({"kind": "cli", "cmd": cmd, "w": 8, "n": n, "langs": ["py", "ts", "rs", "js"], "per_file": 2, "fam_off": (i + seed) % 7,
                          "dup": 3, "sty": 3, "order": list(range(n)), "dir_target": (i + n + seed) % 2 == 0, "flat": (i + n + seed) % 4 == 0,
                          "alt_config": [None, "empty", None, "other"][(i + n // 2 + seed) % 4]})
    return cells


def run(ctx):
    ctx.explore(sched_cases("sched"), check, max_examples=ctx.n(25, 300), salt=1)
    ctx.explore(sched_cases("pool", max_w=8), check, max_examples=ctx.n(3, 30), salt=2)
    cells = cli_cells(ctx.seed)
    if ctx.quick:
        cells = [c for i, c in enumerate(c for c in cells if c["n"] in (16, 17)) if (i + ctx.seed) % 2 == 0 or c["cmd"] in ("dry", "stringly-typed")] \
            + [c for c in cells if c["n"] == 15][:: 4] + [c for c in cells if c["n"] == 65][ctx.seed % 5:: 5]
    done = ctx.each(ctx.my_cells(cells), check)
    ctx.stats.extra.setdefault("matrix", {})["cli command x file count {15,16,17,24,65} (real subprocess, real pool)"] = {"cells": len(ctx.my_cells(cells)), "done": done}


def replay(case) -> Case:
    return check(case)
