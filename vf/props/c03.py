"""C03 - duplicate-code (DRY) findings are sound, mutual and complete.

Generator: multi-file py / ts / js projects of unique filler plus *planted runs* of single-line pool statements
(vf/render/c03_dryproj.py): any length 1..9, any sub-slice, 1..many places, own indentation (0-2 blocks deep, in
functions, methods or at module level), interleaved blank lines / whole-line comments / trailing comments / extra
inner spaces.  A second family plants *near-runs*: same statements except where a comment/whitespace normaliser must
not look (`a // 2` vs `a // 3`, "x#1" vs "x#2", 'http://h1' vs 'http://h2', this.#p1 vs this.#p2, a block that closes
in the middle of the run).

Oracle: independent tokenizer-based normaliser and brute-force window model (vf/oracle/c03_drynorm.py):
 S soundness   message parses, >= 1 *other* location, every location normalises to the reported block, >= d lines
 M mutuality   every named location is covered (overlapped) by a reported violation in that file
 K count       K == number of non-overlapping places the reported block occurs at; K-1 locations are named; K >= o
 C complete    every occurrence of every window of d ordinary-statement lines shared by >= o places is covered
 E empty       no shared window in the model -> no dry violation at all
Known deviations of the tool are modelled explicitly (bent normaliser in vf/oracle/c03_drynorm.py, two output-stage
deviations here): a failing case gets "dev:<name>" signatures only if the whole case passes once the model is bent in
exactly those ways (smallest set first); anything else keeps its own signature and is a VIOLATION.
"""
from __future__ import annotations

import re

from hypothesis import strategies as st

from vf import runner
from vf.engine import Case, Failure, h, live_first, deviation_sets
from vf.oracle import c03_drynorm as dn
from vf.project import Project
from vf.render import c03_dryproj as rp

ID = "C03"
TECHNIQUE = ("Hypothesis-generated multi-file projects with planted duplicate runs and near-runs vs. an independent "
             "tokenizer-based normaliser and brute-force window model (soundness, mutuality, count, completeness, emptiness)")
RULE = (
    "case = 2-6 files (py | ts | js | ts+js) of functions/methods/module code built from unique filler and planted runs "
    "(whole or sub-slices of 1-5 pool runs of 1-9 single-line statements; each place has its own nesting 0-2 blocks, blank "
    "lines, whole-line and trailing comments (#, //, /* */, JSDoc), widened inner spacing, optional CRLF, optional periodic "
    "repetition, optionally at the very end of a body/file), near-run variants that differ only inside `//`, '#', 'http://' "
    "or #private tokens or by a block closing mid-run, min_duplicate_lines 2-6 (config or --min-lines), min_occurrences 2-4 "
    "(global or per-language), storage memory|tempfile, paths '.' or the file list. Run 0 is usually forced to be a "
    "positive (>= d lines at >= o places) and an extra run a negative (d-1 lines, or o-1 places). "
    "Non-trivial: the reference model has at least one duplicate group at (d,o) AND the project also holds a shared run "
    "that must NOT be reported (shared 2-line window outside every group, or a near-run). Distinct = (language, d, o, "
    "multiset of (run length, places, same-file?) of the planted runs, near-run kinds, split?)."
)
ASSUMPTIONS = [
    "all statements are single physical lines; no imports, logger calls, decorators, class-field areas, multi-line calls, "
    "interface/type declarations, docstrings or ignore directives (outside every documented false-positive filter)",
    "min_duplicate_tokens is set to 1 so the documented (but unimplemented) token threshold cannot matter",
    "detect_duplicate_constants is false (constant findings share the rule id but are a different feature)",
    "'covered' is the weak reading: some reported block overlaps the place (the tool may report sub-windows of a long run)",
    "a lone closing brace borders pool statements only at the end of a tail-less function body or in the deliberate "
    "'split' near-run; completeness is demanded only for windows made of ordinary statements, emptiness only when the "
    "line-level model has no shared window at all (so both readings of 'ordinary statements' agree)",
    "mutuality uses the statement's 'covered' (overlapped by a reported block of that file), not 'is itself a finding'; "
    "exact-start mismatches are only counted (label mutual-inexact)",
    "strings contain no whitespace; inner-spacing variants only widen existing spaces",
    "one language per project (ts and js may mix); per-language min_occurrences only in single-language projects",
    "in-process CLI equals a fresh process; cross-checked on the first cases of every run",
]
BUDGET_S = {"quick": 110, "thorough": 1400}

MSG = re.compile(r"^Duplicate code \((\d+) lines, (\d+) occurrences\)(?:\. Also found in: (.+))?$")
LOC = re.compile(r"^(.*):(\d+)-(\d+)$")
LANGKEY = {"py": "python", "ts": "typescript", "js": "javascript"}


# ------------------------------------------------------------------------------------ strategies

_deco = st.lists(st.sampled_from([0, 0, 0, 1, 2, 4, 8, 16, 3, 6, 5, 10, 7]), min_size=1, max_size=4)


@st.composite
def cases(draw):
    lang = draw(st.sampled_from(["py", "py", "ts", "ts", "js", "tsjs"]))
    d = draw(st.sampled_from([2, 2, 3, 3, 3, 4, 4, 5, 5, 6]))
    o = draw(st.sampled_from([2, 2, 2, 3, 3, 4]))
    near = draw(st.sampled_from([False, False, True]))
    nruns = draw(st.integers(1, 3))
    ensure = draw(st.integers(0, 3)) > 0  # run 0 is a guaranteed positive: long enough, at enough places
    runs = []
    for ri in range(nruns):
        ln = draw(st.sampled_from([1, 2, 3, 3, 4, 4, 5, 5, 6, 6, 7, 7, 8, 9]))
        if ensure and ri == 0:
            ln = max(ln, d)
        pool = list(range(rp.ORDINARY))
        if near:
            pool += [rp.TRICKY_BASE + i for i in range(8)] * 2
        ks = draw(st.lists(st.sampled_from(pool), min_size=ln, max_size=ln, unique=True))
        runs.append([[k, 0] for k in ks])
    forced = {}  # run index -> (places, whole?) for the guaranteed negative
    modes = (["short"] if d >= 3 else []) + (["few"] if o >= 3 else [])
    if modes and draw(st.integers(0, 3)) > 0:
        mode = draw(st.sampled_from(modes))
        ln = d - 1 if mode == "short" else draw(st.integers(d, 9))
        ks = draw(st.lists(st.sampled_from(range(rp.ORDINARY)), min_size=ln, max_size=ln, unique=True))
        runs.append([[k, 0] for k in ks])
        forced[len(runs) - 1] = draw(st.integers(2, 4)) if mode == "short" else o - 1
    if near:
        # variants of run 0 that differ only inside the tricky statements
        base = runs[0]
        for alt in range(1, draw(st.integers(1, 2)) + 1):
            runs.append([[k, alt if rp.is_tricky(k) else 0] for k, _ in base])
    ts_like = lang != "py"
    cs_mode = draw(st.sampled_from([0, 0, 0, 1, 2, 3])) if ts_like else 0  # comment style: //, /* */, JSDoc, mixed
    nfiles = draw(st.integers(2, 6))
    files = []
    for _ in range(nfiles):
        nf = draw(st.sampled_from([1, 1, 2, 2, 3]))
        files.append({"dir": draw(st.sampled_from([False, False, True])), "ext": draw(st.integers(0, 1)),
                      "cls": draw(st.sampled_from([False, False, False, True])), "eol": draw(st.integers(0, 11)) == 11,
                      "funcs": [{"hdr": draw(st.integers(0, 5)) > 0, "tail": draw(st.integers(0, 2)) > 0, "items": []} for _ in range(nf)]})
    # planted places: every run gets its own number of places, spread over the (file, function) slots
    for r in range(len(runs)):
        L = len(runs[r])
        nplaces = draw(st.sampled_from([1, 2, 2, 2, 3, 3, 4, 5]))
        if ensure and r == 0:
            nplaces = max(nplaces, o)
        if r in forced:
            nplaces = forced[r]
        for pi in range(nplaces):
            whole = draw(st.integers(0, 3)) > 0 or (ensure and r == 0 and pi < o) or r in forced
            a = 0 if whole else draw(st.integers(0, L - 1))
            n = L if whole else draw(st.integers(1, L - a))
            nest = draw(st.sampled_from([0, 0, 1, 1, 2]))
            split = draw(st.integers(1, max(1, n - 1))) if (near and nest and n >= 2 and draw(st.integers(0, 2)) == 0) else 0
            if ensure and r == 0 and pi < o:
                split = 0
            rep = 1
            if not split and draw(st.integers(0, 7)) == 0:
                rep = draw(st.integers(2, 4))
                if draw(st.booleans()):
                    n = min(n, draw(st.integers(1, 2)))
            f = files[draw(st.integers(0, nfiles - 1))]
            fn = f["funcs"][draw(st.integers(0, len(f["funcs"]) - 1))]
            if draw(st.integers(0, 2)) == 0:
                fn["items"].append({"k": "fill"})
            fn["items"].append({"k": "run", "r": r, "a": a, "n": n, "nest": nest, "split": split, "rep": rep,
                                "cs": draw(st.sampled_from([0, 0, 1, 2])) if cs_mode == 3 else cs_mode, "deco": draw(_deco)})
    return {
        "lang": lang, "d": d, "o": o, "runs": runs, "files": files,
        "storage": draw(st.sampled_from(["memory", "memory", "tempfile"])),
        "d_via": draw(st.sampled_from(["config", "config", "cli"])),
        "o_via": draw(st.sampled_from(["global", "global", "lang"])) if lang != "tsjs" else "global",
        "paths": draw(st.sampled_from(["dot", "dot", "files"])),
    }


# ------------------------------------------------------------------------------------ running


def config_for(case) -> dict:
    dry = {"enabled": True, "min_duplicate_tokens": 1, "detect_duplicate_constants": False, "storage_mode": case["storage"]}
    d, o = case["d"], case["o"]
    if case["d_via"] == "config":
        dry["min_duplicate_lines"] = d
    else:
        dry["min_duplicate_lines"] = d + 2  # decoy, overridden by --min-lines
    if case["o_via"] == "lang":
        dry["min_occurrences"] = o + 1 if o < 4 else 2  # decoy, overridden per language
        dry[LANGKEY[case["lang"]]] = {"min_occurrences": o}
    else:
        dry["min_occurrences"] = o
    return {"dry": dry}


def observe(case, files):
    args = ["dry", "--format", "json"]
    if case["d_via"] == "cli":
        args += ["--min-lines", str(case["d"])]
    args += ["."] if case["paths"] == "dot" else sorted(files)
    with Project(files, config=config_for(case)) as p:
        r = runner.run_cli(args, cwd=p.root)
        root = p.root
        anomalies = []
        if r.exit not in (0, 1) or r.swallowed or r.exception:
            anomalies.append({"what": "abnormal-run", "exit": r.exit, "stderr": r.stderr[-400:], "swallowed": r.swallowed, "exc": r.exception})
            return [], anomalies
        vs = []
        for v in r.violations:
            vs.append({**v, "file": runner.norm_path(v["file_path"], root, root), "message": v["message"]})
        if (r.exit == 1) != bool(vs):
            anomalies.append({"what": "exit-vs-findings", "exit": r.exit, "n": len(vs)})
        parsed = []
        for v in vs:
            m = MSG.match(v["message"])
            if v["rule_id"] != "dry.duplicate-code" or not m or v["file"] not in files:
                anomalies.append({"what": "unexpected-violation", "violation": v})
                continue
            locs = []
            bad = False
            for part in (m.group(3).split(", ") if m.group(3) else []):
                lm = LOC.match(part)
                if not lm:
                    bad = True
                    break
                locs.append((runner.norm_path(lm.group(1), root, root), int(lm.group(2)), int(lm.group(3))))
            if bad:
                anomalies.append({"what": "unparsable-location", "violation": v})
                continue
            parsed.append({"file": v["file"], "line": v["line"], "N": int(m.group(1)), "K": int(m.group(2)), "locs": locs, "message": v["message"]})
        return parsed, anomalies


# ------------------------------------------------------------------------------------ modelled deviations (known defects)
#
# Each name is one root cause = one known-finding signature "dev:<name>".  A failing case is attributed to deviations
# only if the whole case passes when the model is bent in exactly those ways; whatever is left is an unknown failure.
# order matters for attribution: a miss that the two-stage model alone reproduces is not blamed on the overlap formula
OUTPUT_DEVIATIONS = ("two-stage-overlap-gap", "overlap-filter-later-span")


def applicable_deviations(langs) -> list:
    names = []
    for lang in sorted(set(langs.values())):
        for n in dn.NORMALISER_DEVIATIONS[lang]:
            if n not in names:
                names.append(n)
    return live_first("C03", names + list(OUTPUT_DEVIATIONS))


def _overlaps(s1, e1, s2, e2):
    return s1 <= e2 and s2 <= e1


def _excused_by_overlap_filter(ps, pe, kept) -> bool:
    """overlap-filter-later-span: a block [ps,pe] is dropped as 'overlapping' an earlier reported block [s,e] of the
    same file when ps < s + (pe-ps+1), i.e. judged with its OWN length instead of the earlier block's."""
    return any(s <= ps and e < ps and ps < s + (pe - ps + 1) for s, e in kept)


def simulate_two_stage(model, d, o, later_span: bool):
    """two-stage-overlap-gap: overlap removal happens twice - first inside each group of equal windows (keep the
    non-overlapping ones, greedy from the top of each file), then per file across all groups (keep the first of every
    overlapping cluster).  With self-overlapping (periodic) code the window that would continue the cover after a kept
    block may already have been dropped in stage one, which leaves duplicated stretches without any finding.
    -> {file: [(s, e)]} the blocks such a pipeline reports."""
    per_file = {}
    for content, places in model.windows(d).items():
        if len(places) < 2:
            continue
        kept = model.nonoverlapping(places, d)
        if len(kept) < max(o, 2):
            continue
        for f, i in kept:
            per_file.setdefault(f, []).append(model.span(f, i, d))
    out = {}
    for f, spans in per_file.items():
        kept = []
        for s_, e_ in sorted(spans):
            if later_span:
                hit = any(s_ < ks + (e_ - s_ + 1) for ks, ke in kept)
            else:
                hit = any(s_ <= ke for ks, ke in kept)
            if not hit:
                kept.append((s_, e_))
        out[f] = kept
    return out


def evaluate(case, files, langs, vs, devs=()):
    """Apply the oracle under the reference model (devs=()) or a bent one. -> (failures, model, groups, inexact)"""
    lang_of = langs.__getitem__
    d, o = case["d"], case["o"]
    L = case["lang"]
    model = dn.Model(files, lang_of, devs)
    groups = model.duplicate_groups(d, o)
    filt = "overlap-filter-later-span" in devs
    sim = simulate_two_stage(model, d, o, filt) if "two-stage-overlap-gap" in devs else None
    failures = []
    src = {"d": d, "o": o, "files": files}
    txt = lambda c: [" ".join(t) for t in c]  # noqa: E731

    reported = {}  # file -> [(s, e)]
    for v in vs:
        reported.setdefault(v["file"], []).append((v["line"], v["line"] + v["N"] - 1))

    def covered(p, ps, pe):
        if any(_overlaps(ps, pe, rs, re_) for rs, re_ in reported.get(p, [])):
            return True
        if sim is not None:  # excused only if the modelled pipeline leaves exactly this place uncovered too
            return not any(_overlaps(ps, pe, rs, re_) for rs, re_ in sim.get(p, []))
        return filt and _excused_by_overlap_filter(ps, pe, reported.get(p, []))

    inexact = False
    for v in vs:
        f, s, e = v["file"], v["line"], v["line"] + v["N"] - 1
        det = {"violation": {k: v[k] for k in ("file", "line", "message")}, **src}
        if s < 1 or e > model.nphys[f] or e < s:
            failures.append(Failure(f"{L}|S|range-outside-file", det))
            continue
        if not v["locs"]:
            failures.append(Failure(f"{L}|S|no-other-location", det))
            continue
        block = model.content(f, s, e)
        ok = True
        seen = {(f, s)}
        spans = [(f, s, e)]
        for (p, ps, pe) in v["locs"]:
            if p not in files or ps < 1 or pe > model.nphys[p] or pe < ps:
                failures.append(Failure(f"{L}|S|location-outside-project", {**det, "location": [p, ps, pe]}))
                ok = False
                continue
            if (p, ps) in seen or any(q == p and _overlaps(ps, pe, qs, qe) for q, qs, qe in spans):
                failures.append(Failure(f"{L}|S|location-not-distinct", {**det, "location": [p, ps, pe]}))
                ok = False
                continue
            seen.add((p, ps))
            spans.append((p, ps, pe))
            other = model.content(p, ps, pe)
            if other != block:
                ok = False
                kind = "line-count-differs" if len(other) != len(block) else "different-statements"
                failures.append(Failure(f"{L}|S|unsound|{kind}", {**det, "location": [p, ps, pe], "block": txt(block), "other": txt(other)}))
            # M: the named place is covered by a reported violation of that file
            if not covered(p, ps, pe):
                failures.append(Failure(f"{L}|M|named-location-not-reported", {**det, "location": [p, ps, pe], "reported_in_that_file": reported.get(p, [])}))
            elif not any(rs == ps for rs, _ in reported.get(p, [])):
                inexact = True
        if len(block) < d:
            failures.append(Failure(f"{L}|S|block-shorter-than-min-lines", {**det, "block": txt(block)}))
            ok = False
        if v["K"] < o:
            failures.append(Failure(f"{L}|K|below-min-occurrences", det))
        if len(v["locs"]) != v["K"] - 1:
            failures.append(Failure(f"{L}|K|count-vs-named-locations", det))
        if ok:
            places = model.occurrences(block)
            n = len(model.nonoverlapping(places, len(block)))
            if n != v["K"]:
                failures.append(Failure(f"{L}|K|count-{'low' if v['K'] < n else 'high'}", {
                    **det, "model_places": [[pf, model.span(pf, i, len(block))] for pf, i in places], "model_count": n}))

    # C: every occurrence of every shared window of ordinary statements is covered
    for content, (n, places) in sorted(groups.items()):
        if any(dn.is_lone_brace(t) for t in content):
            continue
        for (pf, i) in places:
            ps, pe = model.span(pf, i, d)
            if not covered(pf, ps, pe):
                tail = "file-has-other-findings" if reported.get(pf) else "file-has-no-findings"
                failures.append(Failure(f"{L}|C|missed|{tail}", {
                    "missed": [pf, ps, pe], "window": txt(content), "model_count": n,
                    "all_places": [[q, model.span(q, j, d)] for q, j in places], "reported": reported, **src}))
                break  # one failure per group is enough
    # E
    if not groups and vs and not any("|S|" in f.sig for f in failures):
        failures.append(Failure(f"{L}|E|finding-without-shared-run", {"violations": [v["message"] for v in vs], **src}))
    return failures, model, groups, inexact


def judge(case, files, langs, vs):
    """-> (failures to report, reference model, reference groups, inexact)"""
    import itertools

    spec, model, groups, inexact = evaluate(case, files, langs, vs)
    if not spec:
        return [], model, groups, inexact
    names = applicable_deviations(langs)
    for devs in deviation_sets("C03", names):
        if not evaluate(case, files, langs, vs, devs)[0]:
            first = spec[0]
            return [Failure(f"dev:{n}", {"explained_by_deviations": list(devs), "first_spec_failure": first.sig, **first.detail}) for n in devs], model, groups, inexact
    return spec, model, groups, inexact


# ------------------------------------------------------------------------------------ the check


def check(case) -> Case:
    files, langs, occs = rp.render(case)
    d, o = case["d"], case["o"]
    L = case["lang"]
    vs, anomalies = observe(case, files)
    failures = [Failure(f"{L}|anomaly|{a['what']}", {**a, "d": d, "o": o, "files": files}) for a in anomalies]
    judged, model, groups, inexact = judge(case, files, langs, vs)
    failures += judged

    # ---- labels / non-triviality
    by_run = {}
    for oc in occs:
        by_run.setdefault(oc["run"], []).append(oc)
    shape = sorted((max(x["n"] for x in v2), len(v2), len({x["file"] for x in v2}) < len(v2)) for v2 in by_run.values())
    pos = bool(groups)
    # a shared run that must not be reported: shared 2-line window (>= 2 places) that lies in no (d,o) group
    neg = False
    dupspans = {}
    for content, (n, places) in groups.items():
        for pf, i in places:
            dupspans.setdefault(pf, []).append((i, i + d - 1))
    for content, places in model.windows(2).items():
        if len(places) >= 2 and not all(any(a <= i and i + 1 <= b for a, b in dupspans.get(pf, [])) for pf, i in places):
            neg = True
            break
    nearkinds = sorted({rp.tricky_kind(k) for run in case["runs"][1:] for k, alt in run if alt and rp.is_tricky(k)})
    if nearkinds:
        neg = True
    has_split = any(it.get("split") for f in case["files"] for fn in f["funcs"] for it in fn["items"] if it["k"] == "run")
    labels = [f"lang={L}", f"d={d}", f"o={o}", f"groups={'0' if not groups else '1-3' if len(groups) <= 3 else '4+'}",
              f"violations={'0' if not vs else '1-4' if len(vs) <= 4 else '5+'}", f"storage={case['storage']}",
              f"d_via={case['d_via']}", f"o_via={case['o_via']}", f"paths={case['paths']}"]
    labels += ["has-positive"] if pos else []
    labels += ["has-negative"] if neg else []
    labels += [f"near:{k}" for k in nearkinds]
    labels += ["near:split"] if has_split else []
    labels += ["mutual-inexact"] if inexact else []
    if any(n > o and n > 2 for n, _ in groups.values()):
        labels.append("count>min")
    if any(len({pf for pf, _ in places}) < len(places) for _, places in groups.values()):
        labels.append("same-file-duplicate")
    if any(len(model.nonoverlapping(places, d)) < len(places) for _, places in groups.values()):
        labels.append("self-overlapping-window")
    if any(not fn.get("tail", True) and fn["items"] for f in case["files"] for fn in f["funcs"]):
        labels.append("run-at-end-of-body")
    if any(f.get("eol") for f in case["files"]):
        labels.append("crlf")
    key = h([L, d, o, shape, nearkinds, has_split])
    return Case(key=key, nontrivial=pos and neg, labels=labels, failures=failures)


def run(ctx):
    ctx.explore(cases(), check, max_examples=ctx.n(300, 6000))


def replay(case) -> Case:
    return check(case)
